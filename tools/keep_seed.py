#!/usr/bin/env python3
"""tools/keep_seed.py <seed-out dir> <seed id> <property> <caught by (comma list or 'none')> <needs...>
Copies a confirmed seeded change into /verif/seeded/<id>/ (patch.diff, demo.cpp, notes.md, confirm.log) + meta.json."""
import json, os, shutil, sys
src, sid, prop, caught = sys.argv[1:5]
needs = " ".join(sys.argv[5:])
dst = os.path.join(os.path.dirname(os.path.dirname(os.path.abspath(__file__))), "seeded", sid)
os.makedirs(dst, exist_ok=True)
for f in ("patch.diff", "demo.cpp", "notes.md", "confirm.log"):
    if os.path.exists(os.path.join(src, f)):
        shutil.copy(os.path.join(src, f), os.path.join(dst, f))
conf = open(os.path.join(src, "confirm.log")).read().strip().splitlines()[-1] if os.path.exists(os.path.join(src, "confirm.log")) else ""
if not conf.startswith("CONFIRMED"):
    print("NOT CONFIRMED:", conf); sys.exit(1)
meta = {
    "id": sid, "property": prop,
    "origin": "independent sub-agent given only the property text and its own scratch worktree of /repo",
    "needs_to_manifest": needs,
    "confirmed_by": "tools/confirm_seed.sh in a scratch worktree: library builds with the patch, 20/20 tests pass, demo fails with the patch and passes without it",
    "confirm_result": conf,
    "caught_by": [] if caught == "none" else caught.split(","),
    "expect": "kill" if caught != "none" else "miss",
    "how_to_run": "git -C /repo apply seeded/%s/patch.diff && ./verify %s ; git -C /repo checkout -- ." % (sid, prop),
}
json.dump(meta, open(os.path.join(dst, "meta.json"), "w"), indent=1)
print("kept", dst)
