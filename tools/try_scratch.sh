#!/bin/bash
# tools/try_scratch.sh <patch> <CNN|all> [more CNN...] : apply a patch to a scratch copy of /repo (outside /repo and /verif),
# run the named checks on the copy, remove it. /repo itself is not touched, so several trials can run in parallel.
patch="$(realpath "$1")"; shift
cd "$(dirname "$0")/.."
s="${TMPDIR:-/var/tmp}/pomtry.$$"; mkdir -p "$s/repo"
trap 'rm -rf "$s"' EXIT
rsync -a --exclude _build --exclude .git /repo/ "$s/repo/"
( cd "$s/repo" && patch -p1 -s -i "$patch" ) || { echo "patch does not apply"; exit 2; }
export POMVERIF_REPO="$s/repo" POMVERIF_CACHE="$s/cache"
checks="$*"
[ "$checks" = "all" ] && checks=$(ls checks/c[0-9]*.py | xargs -n1 basename | sed 's/.py//' | tr 'c' 'C')
for c in $checks; do
  out=$(./verify $c --no-evidence 2>&1); rc=$?
  if [ "$QUIET0" = 1 ] && [ $rc -eq 0 ]; then continue; fi
  echo "--- $c rc=$rc: $(echo "$out" | tail -1)"
  echo "$out" | grep -A3 "^  violation\|ANALYSIS-BROKEN\|UNDECIDED\|Traceback" | cut -c1-420 | head -40
done
