#!/bin/bash
# tools/try_one.sh <patch> CNN... : apply, run named checks verbosely (violations + undecided), restore
cd "$(dirname "$0")/.."
p="$(realpath "$1")"; shift
git -C /repo apply "$p" || { echo "does not apply"; exit 2; }
for c in "$@"; do out=$(./verify $c --no-evidence 2>&1); rc=$?; echo "--- $c rc=$rc"; echo "$out" | grep -E "^  violation|detail:|UNDECIDED|ANALYSIS-BROKEN|Error|Traceback|File \"/verif" | cut -c1-400 | head -12; done
git -C /repo checkout -- .
