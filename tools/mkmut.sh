#!/bin/sh
# tools/mkmut.sh <CNN>[/equiv] <name> <file-relative-to-repo> <sed-expression> [more sed expressions...]
# creates mutants/<CNN>/<name>.patch from the current /repo tree (the tree itself is not touched)
set -e
prop="$1"; name="$2"; file="$3"; shift 3
cd "$(dirname "$0")/.."
mkdir -p "mutants/$prop"
tmp=$(mktemp -d /var/tmp/mkmut.XXXXXX)
mkdir -p "$tmp/a/$(dirname "$file")" "$tmp/b/$(dirname "$file")"
cp "/repo/$file" "$tmp/a/$file"; cp "/repo/$file" "$tmp/b/$file"
for e in "$@"; do sed -i -E "$e" "$tmp/b/$file"; done
if cmp -s "$tmp/a/$file" "$tmp/b/$file"; then echo "mkmut: $name: sed expression changed nothing" >&2; rm -rf "$tmp"; exit 1; fi
(cd "$tmp" && diff -u "a/$file" "b/$file" > out.patch || true)
cp "$tmp/out.patch" "mutants/$prop/$name.patch"
rm -rf "$tmp"
echo "mutants/$prop/$name.patch"
