#!/usr/bin/env python3
"""tools/mutgen.py <outdir> <N> [seed] [file-substring ...]
Generic single-edit mutants of the library sources (relational / logical / arithmetic operator replacement, statement
deletion, break<->continue, true<->false), sampled uniformly over candidate (line, operator) pairs.  Used to probe the
checks for blind spots: a mutant that no check reports is built, run against the 20 tests and, if it survives them too,
triaged by hand (equivalent / outside every property / a gap to close)."""
import os, random, re, subprocess, sys
REPO = "/repo"
out, N = sys.argv[1], int(sys.argv[2])
seed = int(sys.argv[3]) if len(sys.argv) > 3 else 1
subs = sys.argv[4:]
files = []
for d in ("src/pomerol", "include/pomerol", "src/mpi_dispatcher", "include/mpi_dispatcher"):
    for f in sorted(os.listdir(os.path.join(REPO, d))):
        if f.endswith((".cpp", ".h", ".hpp")) and (not subs or any(s in f for s in subs)):
            files.append(os.path.join(d, f))
SKIP = re.compile(r'^\s*(//|#|\*|/\*|DEBUG|INFO|ERROR|std::cout|std::cerr|out\s*<<|os\s*<<|typedef|using|namespace|template|class |struct |friend|public:|private:|protected:|\}|\{)')
REPL = [
    (re.compile(r'(?<![<>=!\-+])<=(?!=)'), ['<']), (re.compile(r'(?<![<>=!\-+\w:])\s<\s(?![<=])'), [' <= ']),
    (re.compile(r'(?<![<>=!\-+])>=(?!=)'), ['>']), (re.compile(r'(?<![<>=!\-+\w:])\s>\s(?![>=])'), [' >= ']),
    (re.compile(r'=='), ['!=']), (re.compile(r'!='), ['==']),
    (re.compile(r'&&'), ['||']), (re.compile(r'\|\|'), ['&&']),
    (re.compile(r'(?<=[\w\)\]])\s\+\s(?=[\w\(])'), [' - ']), (re.compile(r'(?<=[\w\)\]])\s-\s(?=[\w\(])'), [' + ']),
    (re.compile(r'(?<=[\w\)\]])\+(?=[\w\(])(?!\+)'), ['-']), (re.compile(r'(?<=[\w\)\]])-(?=[\w\(])(?![->])'), ['+']),
    (re.compile(r'\+='), ['-=']), (re.compile(r'-='), ['+=']),
    (re.compile(r'\bbreak;'), ['continue;']), (re.compile(r'\bcontinue;'), ['break;']),
    (re.compile(r'\btrue\b'), ['false']), (re.compile(r'\bfalse\b'), ['true']),
    (re.compile(r'\.first\b'), ['.second']), (re.compile(r'\.second\b'), ['.first']),
    (re.compile(r'->first\b'), ['->second']), (re.compile(r'->second\b'), ['->first']),
    (re.compile(r'\bbegin\(\)\s*\+\s*1\b'), ['begin()']),
]
DEL = re.compile(r'^\s*[\w\.\->\[\]\(\)\*:<>, ]+(\(.*\)|[+\-*/]?=[^=].*|\+\+|--);\s*(//.*)?$')
cands = []
for f in files:
    lines = open(os.path.join(REPO, f)).read().split("\n")
    depth = 0
    incomment = False
    for i, l in enumerate(lines):
        if "/*" in l and "*/" not in l:
            incomment = True
        if incomment:
            if "*/" in l:
                incomment = False
            continue
        code = l.split("//")[0]
        if SKIP.match(l) or not code.strip() or '"' in code:
            continue
        for rx, reps in REPL:
            for m in rx.finditer(code):
                for r in reps:
                    cands.append((f, i, "repl", m.start(), m.end(), r))
        if DEL.match(l) and not re.match(r'^\s*(return|throw|case|default|else|if|for|while|do)\b', l) and not re.search(r'^\s*[\w:<>,\*& ]+\s+\w+\s*(=|;|\()', l.replace("->", ".")) :
            cands.append((f, i, "del", 0, 0, ""))
random.Random(seed).shuffle(cands)
os.makedirs(out, exist_ok=True)
n = 0
for f, i, kind, a, b, r in cands:
    if n >= N:
        break
    src = open(os.path.join(REPO, f)).read().split("\n")
    new = list(src)
    if kind == "repl":
        new[i] = src[i][:a] + r + src[i][b:]
    else:
        new[i] = re.match(r'^\s*', src[i]).group(0) + ";"
    if new[i] == src[i]:
        continue
    ta, tb = os.path.join(out, "a.tmp"), os.path.join(out, "b.tmp")
    open(ta, "w").write("\n".join(src)); open(tb, "w").write("\n".join(new))
    d = subprocess.run(["diff", "-u", "--label", "a/" + f, "--label", "b/" + f, ta, tb], stdout=subprocess.PIPE, text=True).stdout
    name = "m%04d-%s-L%d-%s" % (n, os.path.basename(f).split(".")[0], i + 1, kind)
    open(os.path.join(out, name + ".patch"), "w").write(d)
    n += 1
for t in ("a.tmp", "b.tmp"):
    try: os.remove(os.path.join(out, t))
    except OSError: pass
print("candidates:", len(cands), "written:", n)
