#!/bin/bash
# tools/confirm_seed.sh <seed-dir with patch.diff, demo.cpp> <scratch worktree of /repo>
# Confirms independently: with the patch the library builds, the 20 tests pass and the demo FAILS; without it the demo PASSES.
# Writes <seed-dir>/confirm.log and prints a one-line verdict.
sd="$1"; wt="$2"
export OMPI_ALLOW_RUN_AS_ROOT=1 OMPI_ALLOW_RUN_AS_ROOT_CONFIRM=1
log="$sd/confirm.log"; : > "$log"
cd "$wt" || exit 2
git checkout -q -- . ; git clean -fdq -e _build
run_demo() {
  np=$(head -20 "$sd/demo.cpp" | grep -o "\-np [0-9]*" | head -1 | awk '{print $2}')
  c++ -std=c++11 -fopenmp -I include -I _build/include -I include/pomerol -I /usr/include/eigen3 -I /usr/lib/x86_64-linux-gnu/openmpi/include \
      "$sd/demo.cpp" -L _build -lpomerol -Wl,-rpath,$PWD/_build -lboost_mpi -lboost_serialization -lmpi_cxx -lmpi -o _build/seed_demo >>"$log" 2>&1 || { echo "DEMO-BUILD-FAILED" >>"$log"; return 99; }
  if [ -n "$np" ]; then timeout 300 mpiexec --oversubscribe -np "$np" _build/seed_demo >>"$log" 2>&1; else timeout 300 _build/seed_demo >>"$log" 2>&1; fi
}
git apply "$sd/patch.diff" >>"$log" 2>&1 || { echo "$sd: PATCH-DOES-NOT-APPLY"; exit 1; }
(cmake -G Ninja -S . -B _build >/dev/null 2>&1 && cmake --build _build >>"$log" 2>&1) || { echo "$sd: BUILD-FAILED-WITH-PATCH"; git checkout -q -- .; exit 1; }
ctest --test-dir _build -j8 --timeout 900 >>"$log" 2>&1; trc=$?
tests=$(grep -o "[0-9]*% tests passed, [0-9]* tests failed out of [0-9]*" "$log" | tail -1)
echo "== demo WITH patch" >>"$log"; run_demo; with=$?
git checkout -q -- .
cmake --build _build >>"$log" 2>&1
echo "== demo WITHOUT patch" >>"$log"; run_demo; without=$?
verdict="REJECT"
if [ $trc -eq 0 ] && [ $with -ne 0 ] && [ $with -ne 99 ] && [ $without -eq 0 ]; then verdict="CONFIRMED"; fi
echo "$sd: $verdict (tests: $tests; demo rc with=$with without=$without)"
echo "$verdict tests='$tests' with=$with without=$without" >> "$log"
