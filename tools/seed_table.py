#!/usr/bin/env python3
"""tools/seed_table.py > seeded/INDEX.md : table of the kept seeded changes and the rules that report them"""
import glob, json, os
here = os.path.dirname(os.path.dirname(os.path.abspath(__file__)))
print("# Seeded changes (each confirmed: builds, 20/20 tests pass, demo fails with / passes without the change)\n")
print("| id | property | reported by | needs, to manifest |")
print("|---|---|---|---|")
n = miss = 0
for m in sorted(glob.glob(os.path.join(here, "seeded", "*", "meta.json"))):
    d = json.load(open(m))
    n += 1
    miss += 0 if d["caught_by"] else 1
    print("| %s | %s | %s | %s |" % (d["id"], d["property"], ", ".join(d["caught_by"]) or "**missed**", d["needs_to_manifest"].replace("|", "/")))
print("\n%d seeded changes, %d reported by a check, %d recorded as missed." % (n, n - miss, miss))
