#!/usr/bin/env python3
"""tools/rules_table.py : markdown table of all rules (id, title, family, frozen minimum) from the check modules"""
import glob, os, re
here = os.path.dirname(os.path.dirname(os.path.abspath(__file__)))
rows, seen = [], set()
for f in sorted(glob.glob(os.path.join(here, "checks", "c[0-9]*.py"))):
    s = open(f).read()
    for m in re.finditer(r'chk\.rule\("([^"]+)",\s*"((?:[^"\\]|\\.)*)",\s*"((?:[^"\\]|\\.)*)",\s*(\d+)\)', s):
        if m.group(1) not in seen:
            seen.add(m.group(1))
            rows.append(m.groups())
rows.sort(key=lambda r: (r[0][:3], int(r[0].split("-R")[1])))
print("| rule | decides | family | min |")
print("|---|---|---|---|")
for r in rows:
    print("| %s | %s | %s | %s |" % (r[0], r[1].replace("|", "/"), r[2].replace("|", "/"), r[3]))
