#!/bin/bash
# tools/try_refactor.sh <dir with R*.diff>  : apply each behaviour-preserving refactoring to /repo, run EVERY check,
# report checks that do not exit 0 (1 = false alarm to be fixed, 2 = undecided on the rewritten code), restore the tree.
cd "$(dirname "$0")/.."
dir="$(realpath "$1")"
for p in "$dir"/R*.diff; do
  git -C /repo apply "$p" 2>/dev/null || { echo "== $(basename $p): does not apply"; continue; }
  echo "== $(basename $p)"
  for c in checks/c[0-9]*.py; do
    id=$(basename $c .py | tr 'c' 'C')
    out=$(./verify $id --no-evidence 2>&1); rc=$?
    if [ $rc -ne 0 ]; then echo "   $id rc=$rc"; echo "$out" | grep -E "^  violation|detail:|UNDECIDED|ANALYSIS-BROKEN|Error" | cut -c1-330 | head -6; fi
  done
  git -C /repo checkout -- .
done
