#!/bin/bash
# tools/mutcamp_one.sh <patch> : run every check on a scratch copy with the patch; print one line: <verdict> <patch> <details>
p="$1"; cd "$(dirname "$0")/.."
out=$(tools/try_scratch.sh "$p" all 2>&1)
k=$(echo "$out" | grep -c "^--- C[0-9]* rc=1")
u=$(echo "$out" | grep -c "^--- C[0-9]* rc=2")
if echo "$out" | grep -q "extraction failed\|patch does not apply"; then v=NOCOMPILE
elif [ $k -gt 0 ]; then v=KILLED
elif [ $u -gt 0 ]; then v=UNDECIDED
else v=SURVIVED; fi
rules=$(echo "$out" | grep "^  violation" | awk '{print $2}' | sort -u | tr '\n' ',')
und=$(echo "$out" | grep "^--- C[0-9]* rc=2" | awk '{print $2}' | tr '\n' ',')
echo "$v $(basename $p) kill=[$rules] undecided=[$und]"
