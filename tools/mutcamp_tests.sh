#!/bin/bash
# tools/mutcamp_tests.sh <worktree> <patch>... : for each patch: apply in the worktree, build, run the 20 tests; print TESTS-PASS / TESTS-FAIL / NOBUILD
wt="$1"; shift
export OMPI_ALLOW_RUN_AS_ROOT=1 OMPI_ALLOW_RUN_AS_ROOT_CONFIRM=1
cd "$wt" || exit 2
[ -d _build ] || (cmake -G Ninja -S . -B _build >/dev/null 2>&1)
for p in "$@"; do
  git checkout -q -- .
  git apply "$p" 2>/dev/null || { echo "NOAPPLY $(basename $p)"; continue; }
  if ! cmake --build _build >/dev/null 2>&1; then echo "NOBUILD $(basename $p)"; continue; fi
  if timeout 900 ctest --test-dir _build -j4 --timeout 120 >/tmp/ctest.$$.log 2>&1; then echo "TESTS-PASS $(basename $p)"; else echo "TESTS-FAIL $(basename $p) $(grep -c Failed /tmp/ctest.$$.log)"; fi
done
git checkout -q -- .
rm -f /tmp/ctest.$$.log
