#!/bin/bash
# tools/try_seed.sh <patch> <CNN> [more CNN...] : apply a seeded patch to /repo, run the named checks, undo the patch
patch="$1"; shift
patch="$(realpath "$patch")"; git -C /repo apply "$patch" || { echo "patch does not apply"; exit 2; }
for c in "$@"; do
  out=$(./verify $c --no-evidence 2>&1); rc=$?
  echo "--- $c rc=$rc: $(echo "$out" | tail -1)"
  echo "$out" | grep -A3 "^  violation\|ANALYSIS-BROKEN" | cut -c1-420
done
git -C /repo checkout -- .
