#!/bin/sh
# builds the libTooling extractor (offline; clang 14 + llvm 14 are pre-installed)
set -e
cd "$(dirname "$0")"
clang++ $(llvm-config-14 --cxxflags) -fno-rtti -O1 pomfacts.cc -o pomfacts.tmp \
  /usr/lib/llvm-14/lib/libclang-cpp.so.14 /usr/lib/llvm-14/lib/libLLVM-14.so
mv pomfacts.tmp pomfacts
