// pomfacts: libTooling fact extractor for the pomerol static checks.
//
// For every function definition (including implicit template instantiations)
// whose expansion location is under one of the --root prefixes, emits:
//   * header (qualified name with template arguments, mangled name, file, lines,
//     params, constness, parent record, ctor initialisers),
//   * the body as a "semantic skeleton" node table (implicit casts, parens,
//     temporaries, cleanups, elidable copies stripped; callees resolved),
//   * the clang::CFG (setAllAlwaysAdd) with elements / terminators referring to
//     node ids.
// Also: records (fields, bases, mutable flags), namespace-scope / static-member
// variables with initialisers, and the list of files in which the macro
// POMEROL_COMPLEX_MATRIX_ELEMENTS is tested.
//
// Output: one JSON document on the file given by --out.

#include "clang/AST/ASTConsumer.h"
#include "clang/AST/ASTContext.h"
#include "clang/AST/Mangle.h"
#include "clang/AST/RecursiveASTVisitor.h"
#include "clang/AST/StmtOpenMP.h"
#include "clang/Analysis/CFG.h"
#include "clang/Frontend/CompilerInstance.h"
#include "clang/Frontend/FrontendAction.h"
#include "clang/Lex/PPCallbacks.h"
#include "clang/Lex/Preprocessor.h"
#include "clang/Tooling/CommonOptionsParser.h"
#include "clang/Tooling/Tooling.h"
#include "llvm/Support/CommandLine.h"
#include "llvm/Support/JSON.h"
#include "llvm/Support/raw_ostream.h"

#include <map>
#include <set>
#include <string>
#include <vector>

using namespace clang;
using namespace clang::tooling;
namespace json = llvm::json;

static llvm::cl::OptionCategory Cat("pomfacts options");
static llvm::cl::opt<std::string> OutFile("out", llvm::cl::desc("output JSON file"),
                                          llvm::cl::Required, llvm::cl::cat(Cat));
static llvm::cl::list<std::string> Roots("root", llvm::cl::desc("source root prefix (repeatable)"),
                                         llvm::cl::cat(Cat));

namespace {

struct Shared {
  json::Array functions;
  json::Array records;
  json::Array globals;
  std::set<std::string> macroFiles;
  std::set<std::string> seenRecords;
};

static bool underRoot(StringRef f) {
  for (auto &r : Roots)
    if (f.startswith(r)) return true;
  return false;
}

class Emitter {
public:
  Emitter(ASTContext &C, Shared &S) : Ctx(C), SM(C.getSourceManager()), Sh(S),
      Mangler(C.createMangleContext()), PP(C.getPrintingPolicy()) {
    PP.SuppressTagKeyword = true;
    PP.Bool = true;
    PP.SuppressUnwrittenScope = true;
  }

  ASTContext &Ctx;
  SourceManager &SM;
  Shared &Sh;
  std::unique_ptr<MangleContext> Mangler;
  PrintingPolicy PP;
  std::map<const Decl *, int> DeclIds;

  // ---- per function state
  json::Array Nodes;
  std::map<const Stmt *, int> Ids;

  int declId(const Decl *D) {
    D = D->getCanonicalDecl();
    auto it = DeclIds.find(D);
    if (it != DeclIds.end()) return it->second;
    int id = (int)DeclIds.size() + 1;
    DeclIds[D] = id;
    return id;
  }

  std::string typeStr(QualType T) {
    if (T.isNull()) return "";
    return T.getCanonicalType().getAsString(PP);
  }
  std::string typeStrW(QualType T) {
    if (T.isNull()) return "";
    return T.getAsString(PP);
  }

  std::string qname(const NamedDecl *D) {
    std::string s;
    llvm::raw_string_ostream os(s);
    D->printQualifiedName(os, PP);
    // append function template args
    if (auto *FD = dyn_cast<FunctionDecl>(D)) {
      if (auto *TA = FD->getTemplateSpecializationArgs()) {
        os << "<";
        bool first = true;
        for (auto &A : TA->asArray()) {
          if (!first) os << ", ";
          first = false;
          A.print(PP, os, true);
        }
        os << ">";
      }
    }
    return os.str();
  }

  std::string mangled(const FunctionDecl *FD) {
    std::string s;
    llvm::raw_string_ostream os(s);
    if (isa<CXXConstructorDecl>(FD))
      Mangler->mangleName(GlobalDecl(cast<CXXConstructorDecl>(FD), Ctor_Complete), os);
    else if (isa<CXXDestructorDecl>(FD))
      Mangler->mangleName(GlobalDecl(cast<CXXDestructorDecl>(FD), Dtor_Complete), os);
    else if (Mangler->shouldMangleDeclName(FD))
      Mangler->mangleName(GlobalDecl(FD), os);
    else
      os << FD->getNameAsString();
    return os.str();
  }

  std::string fileOf(SourceLocation L) {
    L = SM.getExpansionLoc(L);
    if (L.isInvalid()) return "";
    auto *FE = SM.getFileEntryForID(SM.getFileID(L));
    if (!FE) return "";
    llvm::SmallString<256> p(FE->tryGetRealPathName());
    if (p.empty()) p = FE->getName();
    return std::string(p.str());
  }
  unsigned lineOf(SourceLocation L) {
    L = SM.getExpansionLoc(L);
    if (L.isInvalid()) return 0;
    return SM.getExpansionLineNumber(L);
  }

  // ---- skeleton -------------------------------------------------------
  const Stmt *strip(const Stmt *S) {
    while (S) {
      if (auto *E = dyn_cast<ImplicitCastExpr>(S)) { S = E->getSubExpr(); continue; }
      if (auto *E = dyn_cast<ParenExpr>(S)) { S = E->getSubExpr(); continue; }
      if (auto *E = dyn_cast<ExprWithCleanups>(S)) { S = E->getSubExpr(); continue; }
      if (auto *E = dyn_cast<MaterializeTemporaryExpr>(S)) { S = E->getSubExpr(); continue; }
      if (auto *E = dyn_cast<CXXBindTemporaryExpr>(S)) { S = E->getSubExpr(); continue; }
      if (auto *E = dyn_cast<ConstantExpr>(S)) { S = E->getSubExpr(); continue; }
      if (auto *E = dyn_cast<SubstNonTypeTemplateParmExpr>(S)) { S = E->getReplacement(); continue; }
      if (auto *E = dyn_cast<CXXConstructExpr>(S)) {
        // elidable copy / move construction: transparent
        if (!isa<CXXTemporaryObjectExpr>(E) && E->getNumArgs() == 1 &&
            E->getConstructor()->isCopyOrMoveConstructor()) {
          S = E->getArg(0);
          continue;
        }
      }
      break;
    }
    return S;
  }

  int newNode(const Stmt *S, json::Object O) {
    int id = (int)Nodes.size();
    if (S) {
      O["ln"] = (int64_t)lineOf(S->getBeginLoc());
    }
    Nodes.push_back(std::move(O));
    return id;
  }

  json::Value idOrNull(const Stmt *S) {
    if (!S) return nullptr;
    return emit(S);
  }

  json::Object calleeInfo(const FunctionDecl *FD) {
    json::Object O;
    if (!FD) return O;
    O["callee"] = qname(FD);
    O["cname"] = FD->getQualifiedNameAsString();
    O["cm"] = mangled(FD);
    O["cd"] = declId(FD);
    if (auto *MD = dyn_cast<CXXMethodDecl>(FD)) {
      O["cconst"] = MD->isConst();
      O["cvirt"] = MD->isVirtual();
      O["cstatic"] = MD->isStatic();
      O["crec"] = qname(MD->getParent());
    }
    // parameter reference-ness (for effect analysis)
    json::Array pr;
    const FunctionDecl *Pat = FD->getTemplateInstantiationPattern();
    if (Pat && Pat->getNumParams() != FD->getNumParams()) Pat = nullptr;
    unsigned pi = 0;
    for (auto *P : FD->parameters()) {
      QualType T = P->getType();
      std::string k = "val";
      bool fwd = false;
      if (Pat) {
        QualType PT = Pat->getParamDecl(pi)->getType();
        if (PT->isRValueReferenceType() && PT.getNonReferenceType()->getAs<TemplateTypeParmType>()) fwd = true;
      }
      pi++;
      if (fwd) k = T.getNonReferenceType().isConstQualified() ? "cref" : "fwd";
      else if (T->isRValueReferenceType()) k = "rref";
      else if (T->isReferenceType()) k = T.getNonReferenceType().isConstQualified() ? "cref" : "ref";
      else if (T->isPointerType()) k = T->getPointeeType().isConstQualified() ? "cptr" : "ptr";
      pr.push_back(k);
    }
    O["cparams"] = std::move(pr);
    O["cfile"] = fileOf(FD->getLocation());
    return O;
  }

  int emit(const Stmt *S0) {
    if (!S0) return -1;
    auto it0 = Ids.find(S0);
    if (it0 != Ids.end()) return it0->second;
    const Stmt *S = strip(S0);
    auto it = Ids.find(S);
    if (it != Ids.end()) { Ids[S0] = it->second; return it->second; }
    int id = emitCore(S);
    Ids[S] = id;
    // map the whole wrapper chain
    const Stmt *W = S0;
    while (W && W != S) {
      Ids[W] = id;
      const Stmt *N = nullptr;
      if (auto *E = dyn_cast<ImplicitCastExpr>(W)) N = E->getSubExpr();
      else if (auto *E = dyn_cast<ParenExpr>(W)) N = E->getSubExpr();
      else if (auto *E = dyn_cast<ExprWithCleanups>(W)) N = E->getSubExpr();
      else if (auto *E = dyn_cast<MaterializeTemporaryExpr>(W)) N = E->getSubExpr();
      else if (auto *E = dyn_cast<CXXBindTemporaryExpr>(W)) N = E->getSubExpr();
      else if (auto *E = dyn_cast<ConstantExpr>(W)) N = E->getSubExpr();
      else if (auto *E = dyn_cast<SubstNonTypeTemplateParmExpr>(W)) N = E->getReplacement();
      else if (auto *E = dyn_cast<CXXConstructExpr>(W)) N = E->getArg(0);
      W = N;
    }
    return id;
  }

  json::Array emitList(llvm::iterator_range<Stmt::const_child_iterator> R) {
    json::Array A;
    for (const Stmt *C : R) A.push_back(C ? json::Value(emit(C)) : json::Value(nullptr));
    return A;
  }

  json::Object varInfo(const VarDecl *VD) {
    json::Object V;
    V["d"] = declId(VD);
    V["n"] = VD->getNameAsString();
    V["t"] = typeStr(VD->getType());
    V["tw"] = typeStrW(VD->getType());
    V["ref"] = VD->getType()->isReferenceType();
    V["static"] = VD->isStaticLocal();
    if (VD->hasInit()) {
      V["init"] = emit(VD->getInit());
      V["istyle"] = VD->getInitStyle() == VarDecl::CInit ? "c" : (VD->getInitStyle() == VarDecl::CallInit ? "call" : "list");
    } else
      V["init"] = nullptr;
    return V;
  }

  int emitCore(const Stmt *S) {
    json::Object O;
    if (auto *E = dyn_cast<Expr>(S)) O["t"] = typeStr(E->getType());

    if (auto *E = dyn_cast<DeclRefExpr>(S)) {
      const ValueDecl *D = E->getDecl();
      O["k"] = "ref";
      O["d"] = declId(D);
      O["n"] = D->getNameAsString();
      std::string dk = "other";
      if (isa<ParmVarDecl>(D)) dk = "param";
      else if (auto *VD = dyn_cast<VarDecl>(D)) {
        if (VD->isLocalVarDecl()) dk = VD->isStaticLocal() ? "staticlocal" : "local";
        else { dk = "global"; O["q"] = qname(VD); O["gconst"] = VD->getType().isConstQualified(); }
      } else if (auto *EC = dyn_cast<EnumConstantDecl>(D)) {
        dk = "enumerator";
        O["q"] = qname(EC);
        O["v"] = (int64_t)EC->getInitVal().getExtValue();
      } else if (auto *FD = dyn_cast<FunctionDecl>(D)) {
        dk = "func";
        O["q"] = qname(FD);
      } else if (isa<FieldDecl>(D)) dk = "field";
      O["dk"] = dk;
      return newNode(S, std::move(O));
    }
    if (auto *E = dyn_cast<MemberExpr>(S)) {
      O["k"] = "member";
      O["base"] = emit(E->getBase());
      O["arrow"] = E->isArrow();
      const ValueDecl *D = E->getMemberDecl();
      O["n"] = D->getNameAsString();
      O["q"] = qname(D);
      O["d"] = declId(D);
      O["ismethod"] = isa<CXXMethodDecl>(D);
      if (auto *FD = dyn_cast<FieldDecl>(D)) {
        O["mutable"] = FD->isMutable();
        O["rec"] = qname(FD->getParent());
      }
      return newNode(S, std::move(O));
    }
    if (isa<CXXThisExpr>(S)) {
      O["k"] = "this";
      return newNode(S, std::move(O));
    }
    if (auto *E = dyn_cast<CXXOperatorCallExpr>(S)) {
      O["k"] = "call";
      O["ck"] = "op";
      O["op"] = getOperatorSpelling(E->getOperator());
      const FunctionDecl *FD = E->getDirectCallee();
      for (auto &kv : calleeInfo(FD)) O[kv.first] = std::move(kv.second);
      O["ismember"] = FD && isa<CXXMethodDecl>(FD);
      json::Array A;
      for (unsigned i = 0; i < E->getNumArgs(); i++) A.push_back(emit(E->getArg(i)));
      O["args"] = std::move(A);
      return newNode(S, std::move(O));
    }
    if (auto *E = dyn_cast<CXXMemberCallExpr>(S)) {
      O["k"] = "call";
      O["ck"] = "method";
      const FunctionDecl *FD = E->getDirectCallee();
      for (auto &kv : calleeInfo(FD)) O[kv.first] = std::move(kv.second);
      const Expr *Obj = E->getImplicitObjectArgument();
      O["obj"] = Obj ? json::Value(emit(Obj)) : json::Value(nullptr);
      if (auto *ME = dyn_cast<MemberExpr>(E->getCallee()->IgnoreParenImpCasts())) O["arrow"] = ME->isArrow();
      if (!FD) O["calleeexpr"] = emit(E->getCallee());
      json::Array A;
      for (unsigned i = 0; i < E->getNumArgs(); i++) A.push_back(emit(E->getArg(i)));
      O["args"] = std::move(A);
      return newNode(S, std::move(O));
    }
    if (auto *E = dyn_cast<CallExpr>(S)) {
      O["k"] = "call";
      O["ck"] = "func";
      const FunctionDecl *FD = E->getDirectCallee();
      for (auto &kv : calleeInfo(FD)) O[kv.first] = std::move(kv.second);
      if (!FD) O["calleeexpr"] = emit(E->getCallee());
      json::Array A;
      for (unsigned i = 0; i < E->getNumArgs(); i++) A.push_back(emit(E->getArg(i)));
      O["args"] = std::move(A);
      return newNode(S, std::move(O));
    }
    if (auto *E = dyn_cast<CXXConstructExpr>(S)) {
      O["k"] = "construct";
      for (auto &kv : calleeInfo(E->getConstructor())) O[kv.first] = std::move(kv.second);
      O["temp"] = isa<CXXTemporaryObjectExpr>(E);
      O["copy"] = E->getConstructor()->isCopyOrMoveConstructor();
      json::Array A;
      for (unsigned i = 0; i < E->getNumArgs(); i++) A.push_back(emit(E->getArg(i)));
      O["args"] = std::move(A);
      return newNode(S, std::move(O));
    }
    if (auto *E = dyn_cast<CompoundAssignOperator>(S)) {
      O["k"] = "bin";
      O["op"] = E->getOpcodeStr().str();
      O["l"] = emit(E->getLHS());
      O["r"] = emit(E->getRHS());
      return newNode(S, std::move(O));
    }
    if (auto *E = dyn_cast<BinaryOperator>(S)) {
      O["k"] = "bin";
      O["op"] = E->getOpcodeStr().str();
      O["l"] = emit(E->getLHS());
      O["r"] = emit(E->getRHS());
      return newNode(S, std::move(O));
    }
    if (auto *E = dyn_cast<UnaryOperator>(S)) {
      O["k"] = "un";
      O["op"] = UnaryOperator::getOpcodeStr(E->getOpcode()).str();
      O["postfix"] = E->isPostfix();
      O["sub"] = emit(E->getSubExpr());
      return newNode(S, std::move(O));
    }
    if (auto *E = dyn_cast<IntegerLiteral>(S)) {
      O["k"] = "lit";
      O["lk"] = "int";
      O["v"] = (int64_t)E->getValue().getLimitedValue();
      return newNode(S, std::move(O));
    }
    if (auto *E = dyn_cast<FloatingLiteral>(S)) {
      O["k"] = "lit";
      O["lk"] = "float";
      O["v"] = E->getValueAsApproximateDouble();
      // exact source spelling
      bool inv = false;
      StringRef sp = Lexer::getSourceText(CharSourceRange::getTokenRange(E->getSourceRange()), SM, Ctx.getLangOpts(), &inv);
      if (!inv) O["sp"] = sp.str();
      return newNode(S, std::move(O));
    }
    if (auto *E = dyn_cast<CXXBoolLiteralExpr>(S)) {
      O["k"] = "lit";
      O["lk"] = "bool";
      O["v"] = E->getValue();
      return newNode(S, std::move(O));
    }
    if (auto *E = dyn_cast<clang::StringLiteral>(S)) {
      O["k"] = "lit";
      O["lk"] = "str";
      O["v"] = E->isAscii() ? E->getString().str() : std::string("<non-ascii>");
      return newNode(S, std::move(O));
    }
    if (auto *E = dyn_cast<CharacterLiteral>(S)) {
      O["k"] = "lit";
      O["lk"] = "char";
      O["v"] = (int64_t)E->getValue();
      return newNode(S, std::move(O));
    }
    if (isa<CXXNullPtrLiteralExpr>(S) || isa<GNUNullExpr>(S)) {
      O["k"] = "lit";
      O["lk"] = "null";
      O["v"] = 0;
      return newNode(S, std::move(O));
    }
    if (auto *E = dyn_cast<ArraySubscriptExpr>(S)) {
      O["k"] = "index";
      O["base"] = emit(E->getBase());
      O["idx"] = emit(E->getIdx());
      return newNode(S, std::move(O));
    }
    if (auto *E = dyn_cast<ConditionalOperator>(S)) {
      O["k"] = "cond";
      O["c"] = emit(E->getCond());
      O["a"] = emit(E->getTrueExpr());
      O["b"] = emit(E->getFalseExpr());
      return newNode(S, std::move(O));
    }
    if (auto *E = dyn_cast<ExplicitCastExpr>(S)) {
      O["k"] = "cast";
      O["ckind"] = E->getCastKindName();
      O["cls"] = E->getStmtClassName();
      O["sub"] = emit(E->getSubExpr());
      return newNode(S, std::move(O));
    }
    if (auto *E = dyn_cast<CXXNewExpr>(S)) {
      O["k"] = "new";
      O["at"] = typeStr(E->getAllocatedType());
      O["init"] = E->getInitializer() ? json::Value(emit(E->getInitializer())) : json::Value(nullptr);
      O["array"] = E->isArray();
      if (E->isArray() && E->getArraySize() && *E->getArraySize()) O["size"] = emit(*E->getArraySize());
      return newNode(S, std::move(O));
    }
    if (auto *E = dyn_cast<CXXDeleteExpr>(S)) {
      O["k"] = "delete";
      O["sub"] = emit(E->getArgument());
      O["array"] = E->isArrayForm();
      return newNode(S, std::move(O));
    }
    if (auto *E = dyn_cast<CXXThrowExpr>(S)) {
      O["k"] = "throw";
      O["sub"] = E->getSubExpr() ? json::Value(emit(E->getSubExpr())) : json::Value(nullptr);
      if (E->getSubExpr()) O["tt"] = typeStr(E->getSubExpr()->getType());
      return newNode(S, std::move(O));
    }
    if (auto *E = dyn_cast<InitListExpr>(S)) {
      O["k"] = "initlist";
      json::Array A;
      for (unsigned i = 0; i < E->getNumInits(); i++) A.push_back(emit(E->getInit(i)));
      O["items"] = std::move(A);
      return newNode(S, std::move(O));
    }
    if (auto *E = dyn_cast<CXXDefaultArgExpr>(S)) {
      O["k"] = "defarg";
      O["sub"] = emit(E->getExpr());
      return newNode(S, std::move(O));
    }
    if (auto *E = dyn_cast<CXXDefaultInitExpr>(S)) {
      O["k"] = "definit";
      O["sub"] = emit(E->getExpr());
      return newNode(S, std::move(O));
    }
    if (isa<ImplicitValueInitExpr>(S) || isa<CXXScalarValueInitExpr>(S)) {
      O["k"] = "valueinit";
      return newNode(S, std::move(O));
    }
    if (auto *E = dyn_cast<UnaryExprOrTypeTraitExpr>(S)) {
      O["k"] = "sizeof";
      Expr::EvalResult R;
      if (E->EvaluateAsInt(R, Ctx)) O["v"] = (int64_t)R.Val.getInt().getExtValue();
      return newNode(S, std::move(O));
    }
    if (auto *E = dyn_cast<CXXStdInitializerListExpr>(S)) {
      O["k"] = "stdinitlist";
      O["sub"] = emit(E->getSubExpr());
      return newNode(S, std::move(O));
    }
    // ---- statements
    if (auto *D = dyn_cast<DeclStmt>(S)) {
      O["k"] = "decl";
      json::Array V;
      for (auto *Dd : D->decls()) {
        if (auto *VD = dyn_cast<VarDecl>(Dd)) V.push_back(varInfo(VD));
      }
      O["vars"] = std::move(V);
      return newNode(S, std::move(O));
    }
    if (auto *C = dyn_cast<CompoundStmt>(S)) {
      O["k"] = "block";
      O["body"] = emitList(C->children());
      return newNode(S, std::move(O));
    }
    if (auto *I = dyn_cast<IfStmt>(S)) {
      O["k"] = "if";
      if (I->getInit()) O["init"] = emit(I->getInit());
      if (I->getConditionVariableDeclStmt()) O["condvar"] = emit(I->getConditionVariableDeclStmt());
      O["c"] = emit(I->getCond());
      O["then"] = idOrNull(I->getThen());
      O["else"] = idOrNull(I->getElse());
      return newNode(S, std::move(O));
    }
    if (auto *F = dyn_cast<ForStmt>(S)) {
      O["k"] = "for";
      O["init"] = idOrNull(F->getInit());
      O["c"] = idOrNull(F->getCond());
      O["inc"] = idOrNull(F->getInc());
      O["body"] = idOrNull(F->getBody());
      return newNode(S, std::move(O));
    }
    if (auto *F = dyn_cast<CXXForRangeStmt>(S)) {
      O["k"] = "forrange";
      O["var"] = varInfo(F->getLoopVariable());
      O["range"] = emit(F->getRangeInit());
      O["body"] = idOrNull(F->getBody());
      return newNode(S, std::move(O));
    }
    if (auto *W = dyn_cast<WhileStmt>(S)) {
      O["k"] = "while";
      O["c"] = emit(W->getCond());
      O["body"] = idOrNull(W->getBody());
      return newNode(S, std::move(O));
    }
    if (auto *W = dyn_cast<DoStmt>(S)) {
      O["k"] = "do";
      O["c"] = emit(W->getCond());
      O["body"] = idOrNull(W->getBody());
      return newNode(S, std::move(O));
    }
    if (auto *R = dyn_cast<ReturnStmt>(S)) {
      O["k"] = "return";
      O["sub"] = idOrNull(R->getRetValue());
      return newNode(S, std::move(O));
    }
    if (isa<BreakStmt>(S)) { O["k"] = "break"; return newNode(S, std::move(O)); }
    if (isa<ContinueStmt>(S)) { O["k"] = "continue"; return newNode(S, std::move(O)); }
    if (isa<NullStmt>(S)) { O["k"] = "null"; return newNode(S, std::move(O)); }
    if (auto *Sw = dyn_cast<SwitchStmt>(S)) {
      O["k"] = "switch";
      O["c"] = emit(Sw->getCond());
      O["body"] = idOrNull(Sw->getBody());
      return newNode(S, std::move(O));
    }
    if (auto *Cs = dyn_cast<CaseStmt>(S)) {
      O["k"] = "case";
      O["v"] = emit(Cs->getLHS());
      O["sub"] = idOrNull(Cs->getSubStmt());
      return newNode(S, std::move(O));
    }
    if (auto *Cs = dyn_cast<DefaultStmt>(S)) {
      O["k"] = "default";
      O["sub"] = idOrNull(Cs->getSubStmt());
      return newNode(S, std::move(O));
    }
    if (auto *T = dyn_cast<CXXTryStmt>(S)) {
      O["k"] = "try";
      O["body"] = emit(T->getTryBlock());
      json::Array H;
      for (unsigned i = 0; i < T->getNumHandlers(); i++) {
        const CXXCatchStmt *Cst = T->getHandler(i);
        json::Object Ho;
        Ho["type"] = Cst->getExceptionDecl() ? typeStr(Cst->getCaughtType()) : std::string("...");
        Ho["body"] = emit(Cst->getHandlerBlock());
        H.push_back(std::move(Ho));
      }
      O["handlers"] = std::move(H);
      return newNode(S, std::move(O));
    }
    if (auto *D = dyn_cast<OMPExecutableDirective>(S)) {
      O["k"] = "omp";
      O["dir"] = D->getStmtClassName();
      if (D->hasAssociatedStmt()) {
        const Stmt *B = D->getInnermostCapturedStmt()->getCapturedStmt();
        O["body"] = emit(B);
      } else
        O["body"] = nullptr;
      return newNode(S, std::move(O));
    }
    if (auto *LE = dyn_cast<LambdaExpr>(S)) {
      // a closure: the call operator is emitted as a function of its own (after the enclosing one); references inside its
      // body to captured variables keep the declaration ids of the enclosing function
      // It is represented as a call of that function without arguments (flag "lambda"): every summary that follows calls
      // (effects, exception summaries, collectives) then accounts for the body once, at the place where the closure is made.
      O["k"] = "call";
      O["ck"] = "func";
      O["cname"] = "(lambda)";
      O["args"] = json::Array();
      O["lambda"] = true;
      const CXXMethodDecl *CO = LE->getCallOperator();
      if (CO && !CO->isDependentContext() && CO->doesThisDeclarationHaveABody()) {
        O["cm"] = mangled(CO);
        O["qn"] = qname(CO);
        PendingLambdas.push_back(CO);
      }
      json::Array Cs;
      for (const LambdaCapture &C : LE->captures()) {
        json::Object Co;
        if (C.capturesThis()) Co["this"] = true;
        else if (C.capturesVariable()) {
          Co["d"] = declId(C.getCapturedVar());
          Co["n"] = C.getCapturedVar()->getNameAsString();
        }
        Co["byref"] = C.getCaptureKind() == LCK_ByRef;
        Cs.push_back(std::move(Co));
      }
      O["captures"] = std::move(Cs);
      return newNode(S, std::move(O));
    }
    // ---- unknown: keep class name and children so that Python can refuse
    O["k"] = std::string("Other:") + S->getStmtClassName();
    O["children"] = emitList(S->children());
    return newNode(S, std::move(O));
  }

  // ---- CFG -----------------------------------------------------------
  json::Value emitCFG(const FunctionDecl *FD) {
    CFG::BuildOptions BO;
    BO.setAllAlwaysAdd();
    BO.AddInitializers = true;
    BO.AddImplicitDtors = false;
    BO.AddTemporaryDtors = false;
    BO.AddEHEdges = false;
    BO.PruneTriviallyFalseEdges = false;
    std::unique_ptr<CFG> G = CFG::buildCFG(FD, FD->getBody(), &Ctx, BO);
    if (!G) return nullptr;
    json::Object C;
    C["entry"] = (int64_t)G->getEntry().getBlockID();
    C["exit"] = (int64_t)G->getExit().getBlockID();
    json::Array Bs;
    for (const CFGBlock *B : *G) {
      json::Object Bo;
      Bo["id"] = (int64_t)B->getBlockID();
      json::Array El;
      int last = -2;
      for (const CFGElement &E : *B) {
        if (auto CS = E.getAs<CFGStmt>()) {
          int id = emit(CS->getStmt());
          if (id != last) El.push_back(id);
          last = id;
        } else if (auto CI = E.getAs<CFGInitializer>()) {
          const CXXCtorInitializer *I = CI->getInitializer();
          json::Object Io;
          Io["initof"] = I->isAnyMemberInitializer() ? I->getAnyMember()->getNameAsString()
                                                     : (I->isBaseInitializer() ? std::string("<base>") : std::string("<delegating>"));
          Io["e"] = emit(I->getInit());
          El.push_back(std::move(Io));
          last = -2;
        }
      }
      Bo["elems"] = std::move(El);
      if (const Stmt *T = B->getTerminatorStmt()) {
        Bo["tk"] = T->getStmtClassName();
        Bo["ts"] = emit(T);
        const Stmt *TC = B->getTerminatorCondition(true);
        Bo["tc"] = TC ? json::Value(emit(TC)) : json::Value(nullptr);
      }
      json::Array Su;
      for (auto SI = B->succ_begin(); SI != B->succ_end(); ++SI) {
        const CFGBlock *Sb = SI->getReachableBlock();
        if (Sb) Su.push_back((int64_t)Sb->getBlockID());
        else if (SI->getPossiblyUnreachableBlock()) {
          json::Object U;
          U["unreach"] = (int64_t)SI->getPossiblyUnreachableBlock()->getBlockID();
          Su.push_back(std::move(U));
        } else Su.push_back(nullptr);
      }
      Bo["succs"] = std::move(Su);
      if (B->hasNoReturnElement()) Bo["noreturn"] = true;
      if (const Stmt *L = B->getLoopTarget()) Bo["looptarget"] = emit(L);
      Bs.push_back(std::move(Bo));
    }
    C["blocks"] = std::move(Bs);
    return std::move(C);
  }

  void emitFunction(const FunctionDecl *FD) {
    Nodes.clear();
    Ids.clear();
    json::Object F;
    F["qn"] = qname(FD);
    F["name"] = FD->getQualifiedNameAsString();
    F["mangled"] = mangled(FD);
    F["d"] = declId(FD);
    F["file"] = fileOf(FD->getLocation());
    F["line"] = (int64_t)lineOf(FD->getBeginLoc());
    F["endline"] = (int64_t)lineOf(FD->getEndLoc());
    F["ret"] = typeStr(FD->getReturnType());
    F["inst"] = FD->isTemplateInstantiation();
    json::Array Ps;
    for (auto *P : FD->parameters()) {
      json::Object Po;
      Po["d"] = declId(P);
      Po["n"] = P->getNameAsString();
      Po["t"] = typeStr(P->getType());
      Po["tw"] = typeStrW(P->getType());
      if (P->hasDefaultArg() && !P->hasUninstantiatedDefaultArg() && !P->hasUnparsedDefaultArg())
        Po["def"] = emit(P->getDefaultArg());
      Ps.push_back(std::move(Po));
    }
    F["params"] = std::move(Ps);
    if (auto *MD = dyn_cast<CXXMethodDecl>(FD)) {
      F["rec"] = qname(MD->getParent());
      F["const"] = MD->isConst();
      F["virtual"] = MD->isVirtual();
      F["static"] = MD->isStatic();
      F["access"] = (int64_t)MD->getAccess();
    }
    F["kind"] = isa<CXXConstructorDecl>(FD) ? "ctor" : (isa<CXXDestructorDecl>(FD) ? "dtor" : "fn");
    if (auto *CD = dyn_cast<CXXConstructorDecl>(FD)) {
      json::Array In;
      for (auto *I : CD->inits()) {
        json::Object Io;
        if (I->isAnyMemberInitializer()) {
          Io["field"] = I->getAnyMember()->getNameAsString();
          Io["fq"] = qname(I->getAnyMember());
        } else if (I->isBaseInitializer())
          Io["base"] = typeStr(QualType(I->getBaseClass(), 0));
        else
          Io["delegating"] = true;
        Io["written"] = I->isWritten();
        Io["e"] = emit(I->getInit());
        In.push_back(std::move(Io));
      }
      F["inits"] = std::move(In);
    }
    F["body"] = emit(FD->getBody());
    F["cfg"] = emitCFG(FD);
    F["nodes"] = std::move(Nodes);
    Nodes = json::Array();
    Sh.functions.push_back(std::move(F));
    // closures met in this body
    while (!PendingLambdas.empty()) {
      const FunctionDecl *L = PendingLambdas.back();
      PendingLambdas.pop_back();
      if (EmittedLambdas.insert(L).second) emitFunction(L);
    }
  }
  std::vector<const FunctionDecl *> PendingLambdas;
  std::set<const FunctionDecl *> EmittedLambdas;

  void emitRecord(const CXXRecordDecl *RD) {
    std::string q = qname(RD);
    if (!Sh.seenRecords.insert(q).second) return;
    json::Object R;
    R["qn"] = q;
    R["file"] = fileOf(RD->getLocation());
    R["line"] = (int64_t)lineOf(RD->getLocation());
    json::Array Fs;
    for (auto *Fd : RD->fields()) {
      json::Object Fo;
      Fo["n"] = Fd->getNameAsString();
      Fo["t"] = typeStr(Fd->getType());
      Fo["tw"] = typeStrW(Fd->getType());
      Fo["mutable"] = Fd->isMutable();
      Fo["access"] = (int64_t)Fd->getAccess();
      Fo["ref"] = Fd->getType()->isReferenceType();
      Fs.push_back(std::move(Fo));
    }
    R["fields"] = std::move(Fs);
    json::Array Bs;
    for (auto &B : RD->bases()) Bs.push_back(typeStr(B.getType()));
    R["bases"] = std::move(Bs);
    json::Array Ms;
    for (auto *M : RD->methods()) {
      json::Object Mo;
      Mo["qn"] = qname(M);
      Mo["n"] = M->getNameAsString();
      Mo["const"] = M->isConst();
      Mo["virtual"] = M->isVirtual();
      Mo["implicit"] = M->isImplicit();
      Mo["userprovided"] = M->isUserProvided();
      Mo["access"] = (int64_t)M->getAccess();
      Mo["kind"] = isa<CXXConstructorDecl>(M) ? "ctor" : (isa<CXXDestructorDecl>(M) ? "dtor" : "fn");
      if (auto *CD = dyn_cast<CXXConstructorDecl>(M)) Mo["copyctor"] = CD->isCopyConstructor();
      Mo["copyassign"] = M->isCopyAssignmentOperator();
      Ms.push_back(std::move(Mo));
    }
    R["methods"] = std::move(Ms);
    Sh.records.push_back(std::move(R));
  }

  void emitGlobal(const VarDecl *VD) {
    Nodes.clear();
    Ids.clear();
    json::Object G;
    G["qn"] = qname(VD);
    G["d"] = declId(VD);
    G["t"] = typeStr(VD->getType());
    G["file"] = fileOf(VD->getLocation());
    G["line"] = (int64_t)lineOf(VD->getLocation());
    G["const"] = VD->getType().isConstQualified();
    const VarDecl *Def = nullptr;
    const Expr *Init = VD->getAnyInitializer(Def);
    if (Init) {
      G["init"] = emit(Init);
      // constant evaluation where possible
      if (Init->isEvaluatable(Ctx)) {
        Expr::EvalResult R;
        if (Init->EvaluateAsRValue(R, Ctx)) {
          if (R.Val.isInt()) G["cv"] = (int64_t)R.Val.getInt().getExtValue();
          else if (R.Val.isFloat()) G["cv"] = R.Val.getFloat().convertToDouble();
        }
      }
    } else
      G["init"] = nullptr;
    G["nodes"] = std::move(Nodes);
    Nodes = json::Array();
    Sh.globals.push_back(std::move(G));
  }
};

class Visitor : public RecursiveASTVisitor<Visitor> {
public:
  Visitor(Emitter &E) : Em(E) {}
  bool shouldVisitTemplateInstantiations() const { return true; }
  bool shouldVisitImplicitCode() const { return false; }

  bool VisitFunctionDecl(FunctionDecl *FD) {
    if (!FD->doesThisDeclarationHaveABody()) return true;
    if (FD->isDependentContext()) return true;
    if (FD->isDefaulted() || FD->isDeleted()) return true;
    if (!underRoot(Em.fileOf(FD->getLocation()))) return true;
    if (!Seen.insert(FD).second) return true;
    Em.emitFunction(FD);
    return true;
  }
  bool VisitCXXRecordDecl(CXXRecordDecl *RD) {
    if (!RD->isThisDeclarationADefinition()) return true;
    if (RD->isDependentContext()) return true;
    if (RD->isLambda()) return true;
    if (!underRoot(Em.fileOf(RD->getLocation()))) return true;
    Em.emitRecord(RD);
    return true;
  }
  bool VisitVarDecl(VarDecl *VD) {
    if (isa<ParmVarDecl>(VD)) return true;
    if (VD->isLocalVarDecl()) return true;
    if (!VD->isFileVarDecl() && !VD->isStaticDataMember()) return true;
    if (VD->getDeclContext()->isDependentContext()) return true;
    if (!underRoot(Em.fileOf(VD->getLocation()))) return true;
    if (!VD->isThisDeclarationADefinition() && !VD->hasInit()) return true;
    if (!SeenV.insert(VD->getCanonicalDecl()).second && !VD->hasInit()) return true;
    Em.emitGlobal(VD);
    return true;
  }
  Emitter &Em;
  std::set<const FunctionDecl *> Seen;
  std::set<const VarDecl *> SeenV;
};

class MacroCB : public PPCallbacks {
public:
  MacroCB(Shared &S, SourceManager &SM) : Sh(S), SM(SM) {}
  void note(const Token &T) {
    if (T.getIdentifierInfo() && T.getIdentifierInfo()->getName() == "POMEROL_COMPLEX_MATRIX_ELEMENTS") {
      SourceLocation L = SM.getExpansionLoc(T.getLocation());
      if (auto *FE = SM.getFileEntryForID(SM.getFileID(L))) Sh.macroFiles.insert(std::string(FE->tryGetRealPathName()));
    }
  }
  void Ifdef(SourceLocation, const Token &T, const MacroDefinition &) override { note(T); }
  void Ifndef(SourceLocation, const Token &T, const MacroDefinition &) override { note(T); }
  void Defined(const Token &T, const MacroDefinition &, SourceRange) override { note(T); }
  Shared &Sh;
  SourceManager &SM;
};

class Consumer : public ASTConsumer {
public:
  Consumer(Shared &S) : Sh(S) {}
  void HandleTranslationUnit(ASTContext &Ctx) override {
    if (Ctx.getDiagnostics().hasErrorOccurred()) return;
    Emitter Em(Ctx, Sh);
    Visitor V(Em);
    V.TraverseDecl(Ctx.getTranslationUnitDecl());
  }
  Shared &Sh;
};

class Action : public ASTFrontendAction {
public:
  Action(Shared &S) : Sh(S) {}
  std::unique_ptr<ASTConsumer> CreateASTConsumer(CompilerInstance &CI, StringRef) override {
    CI.getPreprocessor().addPPCallbacks(std::make_unique<MacroCB>(Sh, CI.getSourceManager()));
    return std::make_unique<Consumer>(Sh);
  }
  Shared &Sh;
};

class Factory : public FrontendActionFactory {
public:
  Factory(Shared &S) : Sh(S) {}
  std::unique_ptr<FrontendAction> create() override { return std::make_unique<Action>(Sh); }
  Shared &Sh;
};

} // namespace

int main(int argc, const char **argv) {
  auto Exp = CommonOptionsParser::create(argc, argv, Cat);
  if (!Exp) {
    llvm::errs() << llvm::toString(Exp.takeError());
    return 2;
  }
  CommonOptionsParser &OP = Exp.get();
  if (Roots.empty()) Roots.push_back("/repo/");
  ClangTool Tool(OP.getCompilations(), OP.getSourcePathList());
  Shared Sh;
  Factory F(Sh);
  int rc = Tool.run(&F);
  json::Object Doc;
  Doc["sources"] = json::Array(OP.getSourcePathList());
  Doc["functions"] = std::move(Sh.functions);
  Doc["records"] = std::move(Sh.records);
  Doc["globals"] = std::move(Sh.globals);
  json::Array MF;
  for (auto &f : Sh.macroFiles) MF.push_back(f);
  Doc["macro_files"] = std::move(MF);
  Doc["rc"] = rc;
  std::error_code EC;
  llvm::raw_fd_ostream OS(OutFile, EC);
  if (EC) {
    llvm::errs() << "cannot open " << OutFile << "\n";
    return 2;
  }
  OS << json::Value(std::move(Doc));
  OS << "\n";
  return rc ? 2 : 0;
}
