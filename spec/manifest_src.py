"""Source of MANIFEST.json (python3 spec/manifest_src.py > MANIFEST.json)."""
import json

CLAIMED = {
    "C20": dict(
        text="Static analysis (clang AST + CFG dataflow) of Lattice and LatticePresets: validation of label/orbital/spin dominates storage for every factor, "
             "no lattice write can be followed by a rejection (exception summaries discharged at call sites), map look-ups dereferenced only on the found edge, "
             "size guards of presets are not vacuous, preset argument checks dominate construction, storage by order and deep copy; (R7) the extracted bodies of addSite / getSite evaluated on add/look-up histories over two labels (labels are only compared): look-up returns the site added last under the label, unknown labels fail. All CFG paths, both build configurations. User-written copy constructors of the lattice classes take every member from the source.",
        note="Necessary structural conditions; trusts clang's CFG, the skeleton extraction, std::map semantics. Does not decide that stored terms give the intended matrix (C04) nor allocation-failure safety.",
        technique="CFG must-dataflow of branch facts + dominance + exception summaries with call-site discharge (custom libTooling extractor, Python rule engine)",
        ref="DESIGN.md §3 C20"),
    "C18": dict(
        text="Static analysis of IndexClassification: in both ordering modes the loop nest that writes IndicesToInfo enumerates exactly {site} x [0,OrbitalSize) x [0,SpinSize) "
             "(full-range loops, per-site filter only as the exact complement of the range test, no truncating break/return), one counter increment per write from 0 (a slot computed from the loop variables must be a mixed-radix layout: the stride of one variable is the range of the other), "
             "table sized to the sum of sizes, inverse table filled over [0,IndexSize), getInfo/getIndex read under bound / found-edge; IndexInfo::operator< is decided by evaluating its extracted body on every pair of a small domain of (label hash, orbital, spin) triples (the comparator only compares and combines three members): irreflexive, total on distinct triples, antisymmetric, transitive; a counterexample is reported with its witness. All CFG paths.",
        note="Decides the bijection's structural necessary conditions; relabelling invariance of physics (relational, value level) is not decided. Collisions of the label hash itself are noted, not armed.",
        technique="loop-nest shape analysis + branch-fact must-dataflow over clang CFG (custom libTooling extractor)",
        ref="DESIGN.md §3 C18"),
    "C17": dict(
        text="Static analysis for the three UB classes the anchored mechanisms can exhibit: (R1) typestate of every Eigen sparse InnerIterator in the library (accessed only after its operator bool "
             "was tested since construction / last ++, with per-return-value summaries for functions taking iterators by reference); (R2) first/last-element access or address of a possibly empty "
             "sequence, and every pointer handed to an MPI collective; (R3) coherence between a bounds guard and the exclusive extent of what it protects; (R4) ownership: storage freed by a destructor is not shared with a copy of the object — a user-provided copy constructor must not take over the original's pointers (member-wise or element-wise), a class with a compiler-generated copy constructor and a freeing destructor must not be copied anywhere in the analysed code; (R5) no container element erased through the iterator the loop header advances; (R6) IndexClassification::prepare leaves no slot of the index table unwritten and writes none past its extent (the slots are dereferenced right afterwards; rules C18-R1/R2 re-evaluated here). All CFG paths, both build configurations. (R8) every find() result that is dereferenced, library-wide, is dereferenced on the found edge or under a positive count (five look-ups listed as assumed with the rule that establishes their invariant); (R7) serialize() of every type sent between ranks mentions every data member.",
        note="Not a proof of absence of UB: arithmetic overflow, use before prepare/compute, pointer lifetimes and UB outside these mechanisms are not decided. Trusts Eigen/libstdc++ semantics; one class-invariant assumption listed in checks/c17.py.",
        technique="typestate must-dataflow over clang CFG with interprocedural summaries + guard/extent entailment (difference-bound closure)",
        ref="DESIGN.md §3 C17"),
    "C06": dict(
        text="Static SPMD analysis of every library function that has a communicator in scope: (R1) all collectives / point-to-point calls use the given communicator or a split of it (no world communicator); "
             "(R2) the two arms of every rank-dependent branch issue the same collective sequence (operation, communicator, payload, count after local resize, root under the branch equality), loops around collectives "
             "are rank-invariant, message-driven dispatch loops are collective-free; (R3) tables reduced to the root of a sub-communicator are published from that root; (R4) fields written by a distributed part "
             "computation (transitive effect analysis) are all transmitted / set on the other ranks; (R5) the OpenMP parallel-for body writes only its own slot and calls only const, side-effect-free code; (R6) MPI buffer extents. Also (R4): serialize() of every type sent between ranks transmits every data member; (R7) the worker pool covers exactly the ranks that run the worker loop, decided path by path.",
        note="Quantifies over all ranks and both build configurations, but NOT over message schedules: termination of the dispatcher and rounding-level equality of results are not decided. Trusts Boost.MPI semantics (split keeps world-rank order; "
             "serialised broadcasts resize the receiver) and replication of the containers iterated around collectives.",
        technique="SPMD collective matching + rank-taint + effect/sync-set agreement over clang AST/CFG (custom libTooling extractor, Python engines)",
        ref="DESIGN.md §3 C06"),
    "C13": dict(
        text="Static analysis of IndexContainer4 / TwoParticleGFContainer: the constant tables permutations4 (24 distinct permutations, sign = parity) are evaluated from their initialisers; every alias inserted by set() "
             "carries the table entry whose permutation equals the permutation applied to the index quadruple and whose sign is its parity, only when the exchanged indices differ; ElementWithPermFreq::operator() "
             "evaluates (n1,n2,n3,n1+n2-n3)[perm] times sign; every mutator keeps ElementsMap and NonTrivialElements paired (clear both, insert the stored element into both); bulk calls iterate their map completely. Also: (R6) the entry handed back by set()/operator() is the one stored under the requested quadruple (key-level, with a fall-back that interprets set() and compares the identity of the returned entry; look-up results dereferenced on the found edge); (R8) IndexCombination4::operator< is a strict total order consistent with ==/!= (evaluated on all pairs over {0,1,2}^4); the alias evaluation is decided for all 24 permutations x 2 signs.",
        note="Holds for every call history because the rules quantify over all paths of every mutator. Value-level equality with a directly constructed TwoParticleGF additionally needs C02 and is not decided here.",
        technique="constant-table evaluation + key-permutation matching + paired-state effect rule over clang AST/CFG (templates analysed through explicit instantiation)",
        ref="DESIGN.md §3 C13"),
    "C07": dict(
        text="Static analysis of the symmetry analysis: (R1) on every CFG path through the classification loop each Fock state gets exactly one StateBlockIndex entry and one StatesContainer entry with the same block, new blocks "
             "are registered in both maps before the counter advances; (R2) (block, position) addresses round-trip; (R3) an integral of motion is stored only after it commuted with H and with every n_i (full loop, failing edge "
             "returns false); (R4) every throw reachable from Symmetrizer::compute / StatesClassification::compute is excluded at its call site (exception summaries, parameter substitution, entailment); (R5) the three "
             "FieldOperator::prepare siblings build parts and block maps identically; (R6) blocks are keyed by QuantumNumbers whose identity is a hash: it is recomputed from the whole ordered vector after every change of the numbers, and <, ==, != compare the hashes of the two objects. Also: BlockNumber::isCorrect is number >= 0, and the guard of part creation is evaluated for the image-block values -1, 0, 1, 5 on every path (block 0 is an ordinary block); an element read numbers[pos] is not a recomputation of the hash from the whole vector. (R7) Symmetrizer::compute / StatesClassification::compute return at once when Status >= the level they establish.",
        note="Necessary conditions only: that accepted integrals of motion make H block diagonal and operators single-target is a value-level fact and is not decided; two hazards (mapsTo first-state rule, hash-compared quantum numbers) are documented, not armed. Virtual calls summarised through the static callee.",
        technique="CFG path enumeration with pairing rule + exception summaries discharged by branch-fact entailment + sibling-structure comparison",
        ref="DESIGN.md §3 C07"),
    "C16": dict(
        text="Structural necessary conditions of the dispatch protocol, decided on all CFG paths: an order is send(Work, job) + DispatchMap[job]=worker + irecv(worker, Pending) in that worker's slot, one job and one worker popped per order "
             "under both stacks non-empty; the worker re-posts its receive after every completed one, cancels it iff Finish, reports completion with send(boss, Pending) and resets its state, and its members are initialised before the "
             "receive captures them; Finish is sent only when no job is queued and all workers are idle, once per worker; completed workers are re-queued; root/non-root arms disseminating the job map match; the dispatch loop is "
             "collective-free; the std::sort comparator is strict; (R7) MPIMaster::is_finished, evaluated from its extracted body on every pattern of the per-worker `Finish sent` flags (pools of 1..3 workers, stacks empty and non-empty), is true exactly when Finish went to every worker. Also: MPIMaster::swap exchanges every member the delegating constructors do not initialise; fill_stack_ is evaluated on small pools (every task and worker once, WorkerIndices = position in the pool); every call of check_workers reaches the Finish decision (no early return before it). _autorange_tasks(n) is evaluated to be [0..n-1].",
        note="The property itself (exactly-once and termination for every interleaving and across rounds) quantifies over schedules and is NOT decided: that needs model checking of the protocol, a different technique family. Trusts Boost.MPI request semantics.",
        technique="pairing / dominance / typestate rules over clang AST+CFG with branch-fact dataflow; SPMD arm matching",
        ref="DESIGN.md §3 C16"),
    "C01": dict(
        text="Static formula conformance, typed by index space: the Term handed to TermList::add_term in GreensFunctionPart::compute has Residue == <o|c|i><i|c+|o>(w_outer(o)+w_inner(i)) and Pole == E_inner(i)-E_outer(o), "
             "where o is the common outer index of a row-major iterator over c and a column-major iterator over c+, i their common inner index (sympy normal forms over resolved program entities, both build configurations); "
             "Term(z) == R/(z-P); GreensFunction::prepare builds each part from the blocks that the two bimap views connect, under the full stripe test; merge walks advance only the smaller side; the fermionic grid is "
             "i*pi*(2n+1)/beta; TermList merges like poles and drops negligible sums; tolerances <= 1e-8; GFContainer builds element (i,j) from c_i and c+_j and returns it undecorated. Also: copies keep their Status (copy constructors copy the ComputableObject base together with the parts), the container key IndexCombination2 is a strict total order consistent with ==/!= (comparator bodies evaluated on all pairs of a small domain), look-up results of the container are dereferenced on the found edge, no value is returned before the sum over the parts was taken, and a per-item filter of the Lehmann loop must make the skipped residue negligible.",
        note="The Lehmann representation itself is taken from the documentation, not re-derived; numerical accuracy and Eigen's kernels are trusted. Necessary conditions only.",
        technique="expression skeleton -> sympy normal form with atoms resolved to program entities (index-space typing) + CFG branch-fact dataflow",
        ref="DESIGN.md §3 C01"),
    "C14": dict(
        text="Static formula conformance for the bosonic Lehmann sum: Residue == a_oi*b_io*(w_outer(o)-w_inner(i)), Pole == E_inner(i)-E_outer(o) typed by index space; poles with |Pole| < ReduceResonanceTolerance are "
             "collected as ZeroPoleWeight += a*b*w_outer(o) (complementary split); Term(z) == -R/(z-P); both tau branches equal R e^{-tau P}/(1-e^{-beta P}) with non-positive exp arguments; part value == Terms(z) + [|z|<eps] Z0*beta, "
             "of_tau == Terms + Z0; the total sums all parts and subtracts <A><B>*beta only under the flag and only at W=0 (in tau: <A><B>); bosonic grid 2n*i*pi/beta; stripe binding and walks as for G; the three subtractDisconnected overloads agree. Also: no value is returned before the disconnected part was decided; outer states may be skipped only under a condition that makes the residue a*b*(w_o - w_i) negligible; the look-up form of prepare() (find by key) must still test that B maps back to A's starting block; copies keep their Status.",
        note="The Lehmann representation is taken from the documentation; the threshold semantics for nearly degenerate levels (runtime comparison) and numerical accuracy are not decided.",
        technique="expression skeleton -> sympy normal form with index-space typed atoms + sign-domain evaluation of exp arguments + CFG branch facts",
        ref="DESIGN.md §3 C14"),
    "C11": dict(
        text="Claimed at the level of three structural rules: (R1) GreensFunctionPart::Term in imaginary time — both branches are algebraically equal to -R e^{-tau P}/(1+e^{-beta P}), the inverse transform of R/(z-P), and every exp argument "
             "is <= 0 in the branch where it is used for 0<=tau<=beta (the overflow-avoidance mechanism); (R2) part and total values are plain sums over all terms / parts at the same argument, and Vanishing is true initially and cleared iff a part exists; "
             "(R3) completeness of the Lehmann sum the symmetries are statements about: residue/pole formula typed by index space and the element-level merge walk visiting every common inner state exactly once.",
        note="Conjugation symmetry, the 1/z tail, negativity, boundary values and G_ii(beta-) = -<n_i> are value-level consequences of C01 and C09 and are NOT decided here.",
        technique="sympy normal forms of both branches + sign-domain evaluation under the branch condition; loop-shape and dominance rules",
        ref="DESIGN.md §3 C11"),
    "C09": dict(
        text="Static formula and structure check of the Gibbs state: weights(s) == exp(-beta*(E_s - GroundEnergy)) for every state; Z_part accumulates them; DensityMatrix::compute sums Z over ALL blocks in one full loop and normalises all blocks "
             "in a second loop after it; every block gets its own Hamiltonian block, beta and the GLOBAL ground energy, which is the minimum over all blocks (so the exp argument is <= 0: overflow safety); averages are "
             "sum_s w_s sum_f g(Fock(block,f))|v_s(f)|^2 typed by index space (eigen-index vs Fock position of the part's own block); the ensemble average sums A(n,n) w(n) over diagonal blocks only with the block's own data. User-written copy constructors of EnsembleAverage take every member (deep-copy loops over the whole container).",
        note="Value-level facts (weights sum to one to rounding, finiteness beyond the sign argument, traces on the full Fock space) are not decided; Eigen is trusted.",
        technique="sympy normal forms over index-space typed atoms + loop-shape / phase-ordering dominance rules",
        ref="DESIGN.md §3 C09"),
    "C19": dict(
        text="Structural clauses of truncation, on all CFG paths: at the part-creation sites of G, the susceptibility and the ensemble average every path through one iteration of the stripe loop that skips the part has tested isRetained false for ALL blocks whose density-matrix parts the part uses, and the stripe loop is not left early under a retention test; "
             "for the two-particle function the body of the stripe loop is evaluated for all 16 retention patterns of a matching stripe (booleans only): the part is created iff some used block is retained; DensityMatrixPart::truncate is evaluated on every weight vector of up to 3 states below / at / above the tolerance and both prior flag values: "
             "retained whenever some weight exceeds the tolerance; truncateBlocks visits every block; isRetained(b) reads block b. truncateBlocks reaches the loop over the blocks for every tolerance (no early return: truncate() also re-evaluates the flag).",
        note="The eps-proportional error bound (e.g. 2*eps*dim/|Im z|) is numeric and is NOT decided.",
        technique="path enumeration with branch facts (guard-set vs use-set per skipping path) + exhaustive evaluation of the extracted guard / flag code over its finite truth tables; loop-shape rules",
        ref="DESIGN.md §3 C19"),
    "C15": dict(
        text="Static reader/writer agreement of MatsubaraContainer4: the affine index map extracted from fill() composed with the one extracted from operator() is the identity on (n1,n2,n3) for every window size N "
             "(sympy, symbolic in N, same FermionicIndexOffset[B] on both sides); every subscript in the reader is dominated by 0 <= B <= 4N-2 and 0 <= a < rows, 0 <= b < cols (linear entailment against the extents fill() resizes to), "
             "the writer's loops stay inside those extents, N == 0 is special-cased; every miss returns pSource->value(n1,n2,n3); (R5) the pointer that fallback dereferences is bound for every window size: fill() stores it before every return incl. the empty-window one, and Vertex4::compute reaches fill(this, N) on every path that sets Status = Computed; Vertex4::value == chi + [n1=n3] beta G13 G24 - [n2=n3] beta G14 G23, decided path by path: for each of the five equality patterns of (n1,n2,n3) every feasible CFG path to a return yields that expression (so an early return, a dropped or misplaced term are reported with the pattern); operator() reads the storage filled from value().",
        note="Decides transparency structurally for every frequency triple and window size; numerical equality of stored and recomputed values and the caller's choice of G13..G23 are not decided.",
        technique="extraction and symbolic composition of affine index maps (sympy) + linear-arithmetic entailment of bounds over CFG branch facts",
        ref="DESIGN.md §3 C15"),
    "C02": dict(
        text="Static formula and structure conformance of the two-particle Green's function: the four term insertions of addMultiterm carry the coefficients (-C(wj+wk); C(wi+wl); C*beta*wi, C(wk-wi); -C*beta*wj, C(wj-wl)) and poles "
             "(Ej-Ei, Ek-Ej, El-Ek) with the right flags; both term classes evaluate to the documented rational forms incl. the delta branch decided on z1+z2-P1-P2 resp. z2+z3-P2-P3; in TwoParticleGFPart::compute the matrix element is "
             "O1(1,2)O2(2,3)O3(3,4)CX4(4,1)*sign and energies/weights of states 1..4 come from their own blocks (index-space typing of four sparse iterators, reaching-definition inlining); permutations3 is the six permutations with parity; "
             "the part is evaluated at (z1,z2,-z3)[perm]; prepare selects operators by perm[k] and closes the block chain; the frequency-table path accumulates exactly the call the on-demand path sums, compute before evaluation before purge; "
             "merging of like terms (operator+=) averages the poles with the weights held before the merge and adds weights and coefficients (decided by evaluating the extracted operator+= on two symbolic terms, however the arithmetic is written); tolerances set on the container / function reach the parts under their own names; prepare/compute are idempotent under their status guards. Also: (R8) a weakened status guard requires every accumulating part to reset its term lists (interprocedural); (R9) default tolerances equal the documented ones at container, function and part level and the term lists merge within 1e-8 / drop below 1e-16; (R10) the term comparators are strict orders whose equivalence is `same flag, all poles equal within the tolerance` (bodies evaluated on a grid of pole triples); add_term calls are followed through helpers and closures.",
        note="Equality with the triple Fourier integral and behaviour for numerically near-degenerate levels (runtime resonance decision) are not decided. The multi-term table is transcribed from the header documentation.",
        technique="sympy normal forms over index-space typed atoms, symbolic environment (reaching definitions), constant-table evaluation, switch/loop structure rules",
        ref="DESIGN.md §3 C02"),
    "C10": dict(
        text="Static structure of the eigenbasis field operators in both build configurations: FieldOperatorPart::compute fills LeftMat(n,k) = conj(U_to(l,n)) (conj present iff complex build) and RightMat(k,m) = sign*U_from(k,m) with l the inner "
             "position of the image O|K>, k of K, over all eigenstates, stores (LeftMat*RightMat).sparseView in both storage orders with pruning tolerance <= 1e-8, HFrom/HTo bound correctly; the container shortcut assigns to the c part "
             "whose right block is the left block of the c+ entry the ADJOINT (not transpose) of the c+ part's other-major matrix and sets both statuses after computing c+; index-space consistency (eigen vs Fock) wherever eigenvectors are read; "
             "CreationOperator/AnnihilationOperator::prepare create exactly one part for every right block whose image block exists (guarded by isCorrect() and nothing else); (R5) look-ups of a part by its left / right block (block number or quantum numbers, incl. the bimap views) use the map of their own side. Also: (R7) no `already computed` flag of the operator container survives a later change of the operator maps; the creation guard `image exists` is evaluated over block values (shared with C07-R5).",
        note="That the back-transformation gives the Jordan-Wigner matrix and that the CAR hold when assembled over blocks are value-level statements and are not decided; degenerate eigenvectors are Eigen's business.",
        technique="sympy comparison of element formulas per build configuration + key matching of the adjoint shortcut + index-space role typing",
        ref="DESIGN.md §3 C10"),
    "C03": dict(
        text="Structural part only: both branches of HamiltonianPart::compute define the eigen-system (1x1: eigenvalue read from H(0,0) before it is overwritten by the unit eigenvector; general: SelfAdjointEigenSolver with "
             "ComputeEigenvectors, H = eigenvectors(), Eigenvalues = eigenvalues()) in both build configurations; the (Fock position, eigenstate) orientation of H agrees between producer and every reader (getEigenState = column, "
             "getMatrixElement, library-wide index-space role typing); HamiltonianPart::prepare writes <bra|F|ket> for every ket of the block and every image state; ground energy = min over all blocks; eigenvalue look-up by label uses "
             "the label's own block and position; getEigenValues concatenates all blocks.",
        note="The property proper — block spectra = spectrum of the full 2^N matrix, orthonormality, H v = E v — is a value-level statement about Eigen's solver and is NOT decided; this check only guards the code around it.",
        technique="ordering/dominance rules on the CFG, key matching of accessors, index-space role typing",
        ref="DESIGN.md §3 C03"),
    "C05": dict(
        text="Structural necessary conditions of the symbolic algebra, on all CFG paths: in normalize_and_insert every transposition of neighbours flips the sign exactly once under prev > cur, the contraction (under prev == flip(cur)) is emitted "
             "before the swap with the unflipped coefficient and the monomial minus positions n-1,n, equal neighbours annihilate the monomial; every in-place coefficient accumulation is followed by the near-zero erasure; += and -= differ only "
             "in sign; actRight applies factors right to left with the Pauli test before the bit write and the Jordan-Wigner sign over occupied modes in [0,ind); commutator/anticommutator/commutes are AB-BA, AB+BA, AB==BA; the N and S_z "
             "shortcuts count exactly the modes their polynomial forms are built from; equality compares whole monomials (size before three-iterator std::equal). Also: the monomial receiving a contraction is fresh for every contraction; the Pauli test is decided path by path over (creates/annihilates) x (occupied/empty); the accumulated sign is what is returned; commutes() is judged on all its returns (a fast path that answers without forming the products is undecided, not accepted).",
        note="That the recursive bubble sort normal-orders every polynomial correctly (associativity, CAR, agreement with Jordan-Wigner matrices) needs an inductive proof and is NOT decided. Two genuine defects found by R5/R6 were repaired (D13, D14).",
        technique="pairing/ordering rules over clang AST+CFG with branch facts, sibling-structure comparison, typed lint for prefix equality",
        ref="DESIGN.md §3 C05"),
    "C04": dict(
        text="Static analysis of the lattice layer. (R1) each of the 11 Lattice::Term::Presets factories is summarised from its extracted skeleton and equals the monomial written in LatticePresets.h as an operator, for every equality pattern of its arguments "
             "(incl. the documented degenerate/invalid cases); (R2) each of the 11 LatticePresets::add* functions: the emission structure (loops, guards, factory, argument tuple, coefficient) equals the reviewed reference records, and the "
             "extracted summary expanded on bounded layouts (<= 3 orbitals x <= 3 spins, same-site and two-site, amplitudes symbolic or zero) equals the documented operator; (R3) addHopping emits Hopping(1,2,t) and Hopping(2,1,conj t) "
             "(t in the real configuration), all layouts; (R4) TermStorage keeps a full copy under the term's order and IndexHamiltonian::prepare turns every stored term of every order into Value * product of its factors in order, checked on "
             "480+ user terms of 2, 4 and 6 operators incl. coinciding indices; (R5) on the expanded summaries H = H^+, [H_Kanamori(U'=U-2J), S+-] = 0, [H_SS, S+-] = 0. Also: the constructors of Lattice::Term (full and copy) carry every argument into the member of the same role, and the storage keeps its own copy of every term (rule C20-R6 re-evaluated as C04-R6).",
        note="R2/R4/R5 interpret the *extracted summaries* of small loop nests with an independent fermion algebra; pomerol itself is never compiled or run. The for-all-layouts claim of R2 rests on structural identity with the reviewed records; "
             "where a preset is restructured the verdict is bounded to the expanded layouts. The Fock-space matrix of the polynomial is C05/C03. Two genuine defects repaired (D12 documentation, D15).",
        technique="summary extraction over clang AST (custom libTooling extractor) + abstract interpretation of the summaries over a small value domain (symbolic amplitudes) + exact polynomial comparison (sympy) against the documented operators",
        ref="DESIGN.md §3 C04"),
    "C08": dict(
        text="Structural clauses only. The partition enters every later stage through the classification of states, the block-to-block bimaps of the field operators and the stripe selections built from them. Re-evaluated under C08's rule ids: "
             "(R1) each Fock state classified exactly once, addresses round-trip, integrals of motion accepted only after commuting with H and every n_i; (R2) one operator part per right block with an image block and no further filter "
             "(e.g. on coinciding blocks, which only occur under coarser partitions), c/c+/c+c built alike, annihilation part = adjoint for every block pair; (R3) G, chi, the two-particle function and <c+c> create a part for every "
             "pair/chain of connected blocks and bind it to exactly those blocks' data; (R4) eigenstate numbers and Fock positions are never confused inside a block.",
        note="The statement itself is relational (two executions with different partitions agree numerically) and is NOT decided; each rule is a necessary condition whose violation changes the observables for some partition while the default "
             "partition used by the tests is unaffected. The rules are the ones of C07, C10, C01, C14, C02, C09 evaluated at the anchored mechanisms.",
        technique="composition of pairing/dominance, sibling-agreement, index-space typing and walk rules over clang AST+CFG at the bimap and stripe-selection sites",
        ref="DESIGN.md §5, §8.7"),
    "C12": dict(
        text="Structural clauses only, at the two anchored mechanisms: (R1) Vertex4::value == chi + [n1=n3] beta G13(n1) G24(n2) - [n2=n3] beta G14(n1) G23(n2) and the storage is filled from the same formula; (R2) the two-particle multi-term: "
             "poles and six coefficients, evaluation of non-resonant and resonant terms incl. the delta-branch decision, merging of like terms with pre-merge weights, frequency-table path == on-demand path; (R3) G is the plain sum over "
             "parts and terms of R/(z-P) with the Lehmann residue and pole.",
        note="G = (z-h)^{-1} and the vanishing of the vertex for quadratic Hamiltonians are identities between computed values and are NOT decided. Quadratic models have the most degenerate spectra, so these formula sites (resonant "
             "branches, merges, coinciding-frequency terms) are exactly where a slip breaks Wick's theorem without affecting the interacting test models.",
        technique="sympy normal-form comparison of the formula sites (rules of C15, C02, C01, C11 re-evaluated under C12's ids)",
        ref="DESIGN.md §5, §8.7"),
}

NOT_YET = {}

NA = {}


def main():
    import os
    here = os.path.dirname(os.path.abspath(__file__))
    props = [json.loads(l)["id"] for l in open(os.path.join(here, "..", "properties.jsonl"))]
    checks = []
    na = []
    for pid in props:
        if pid in CLAIMED:
            c = CLAIMED[pid]
            checks.append({
                "property_id": pid,
                "quick_cmd": "./verify %s --tier quick" % pid,
                "thorough_cmd": "./verify %s --tier thorough" % pid,
                "evidence_file": "/verif/evidence/%s.json" % pid,
                "replay_cmd_template": "./verify explain {path}",
                "engine": "pomfacts+pv",
                "level_claimed": {"category": "other", "text": c["text"], "design_ref": c["ref"]},
                "level_note": c["note"],
                "technique": c["technique"],
            })
        elif pid in NA:
            na.append({"property_id": pid, "reason": NA[pid]})
        else:
            na.append({"property_id": pid, "reason": NOT_YET.get(pid, "static check designed (DESIGN.md §3) but not built yet in this tree; not claimed until it runs")})
    m = {
        "version": 1,
        "setup_cmd": "sh tool/build.sh",
        "hooks": {
            "guard": "POMEROL_VERIF",
            "enable": "none needed: static analysis reads the sources; no instrumentation is compiled into /repo",
            "baseline_off_cmd": "cmake -G Ninja -S /repo -B /repo/_build >/dev/null && cmake --build /repo/_build && ctest --test-dir /repo/_build -j8 --timeout 900",
            "source_commits": [],
            "add_only": True,
        },
        "engines": [
            {"name": "pomfacts", "path": "tool/pomfacts.cc", "serves_properties": sorted(CLAIMED), "kind_free_text": "clang-14 libTooling extractor: semantic skeleton + clang::CFG of every function and template instantiation, per TU and build configuration"},
            {"name": "pv", "path": "pv/", "serves_properties": sorted(CLAIMED), "kind_free_text": "Python rule engines over the fact database: dominance, must-dataflow of branch facts, typestate, exception summaries, effect sets, SPMD matching, formula normal forms"},
        ],
        "checks": checks,
        "not_applicable": na,
        "notes": "All checks are static: no registered command executes pomerol code. Exit 2 = analysis broken (anchor vanished / unknown idiom), never reported as a verdict. Genuine defects found on the pinned tree were repaired by 'fix:' commits in /repo (known_findings.txt).",
    }
    print(json.dumps(m, indent=1))


main()
