// Extra translation unit analysed together with the repository's own units (never linked, never run):
// explicit instantiations of the header templates that pomerol offers to its users but that no unit of the
// default build instantiates completely (e.g. ElementWithPermFreq<TwoParticleGF>::operator()).
// It is compiled with the flags of the library units, so the rules see the same resolved code a user gets.
#include "pomerol.h"
#include "mpi_dispatcher/mpi_skel.hpp"
#include "pomerol/Vertex4.h"

namespace Pomerol {
template struct ElementWithPermFreq<TwoParticleGF>;
template class IndexContainer4<TwoParticleGF, TwoParticleGFContainer>;
template class IndexContainer2<GreensFunction, GFContainer>;
template class MatsubaraContainer4<Vertex4>;
template class TermList<GreensFunctionPart::Term>;
template class TermList<SusceptibilityPart::Term>;
template class TermList<TwoParticleGFPart::NonResonantTerm>;
template class TermList<TwoParticleGFPart::ResonantTerm>;
}
