"""C14 — dynamical susceptibility equals its definition, including the static limit (DESIGN.md §3 C14)."""
import sympy as sp

from pv.check import run_check
from pv.entail import entails
from pv.expr import Ctx, guard_facts, key_contains
from pv.facts import AnalysisBroken, strip_targs
from pv.formula import Formula
from pv.loops import loop_shape
from checks import lehmann as lh
from checks.lehmann import fld, THIS

SP = "Pomerol::SusceptibilityPart"
SU = "Pomerol::Susceptibility"


def small(F, z):
    return None


def body(chk, db, cfgname):
    r1 = chk.rule("C14-R1", "bosonic Lehmann sum: residue, pole, zero-pole weight, term values, part and total values, bosonic grid", "F5+F6 formula", 12)
    info = lh.check_part_compute(r1, db, cfgname, SP + "::compute", "A", "B", -1)
    lh.check_term_value(r1, db, cfgname, SP, -1, bosonic=True)
    if info:
        f, ctx, at, J, F, rw = info["f"], info["ctx"], info["at"], info["add"], info["F"], info["rw"]
        tol = fld(SP + "::ReduceResonanceTolerance")
        fa = at.get(f.cfg.pos1(J), frozenset())
        pole_key = rw(ctx.key(f.nodes[J]["args"][0])[3])
        # regular term only when |Pole| >= tolerance
        site = SP + "::compute:resonance-split"
        reg = any(x[0] == "<=" and x[1] == tol and x[2][0] == "call" and x[2][1] in ("abs", "std::abs") for x in fa)
        zp = [j for j, n in f.walk(f.body) if ((n["k"] == "bin" and n["op"] == "+=") or (n["k"] == "call" and n["ck"] == "op" and n.get("op") == "+=")) and
              ctx.key(n["l"] if n["k"] == "bin" else n["args"][0]) == fld(SP + "::ZeroPoleWeight")]
        if len(zp) != 1:
            r1.bad(site, f.loc(), "zero-energy poles are not collected into ZeroPoleWeight exactly once (%d sites): degenerate states are lost at W=0 or a 1/0 term is created" % len(zp), cfgname)
        else:
            Z = zp[0]
            zfa = at.get(f.cfg.pos1(Z), frozenset())
            zero = any(x[0] == "<" and x[2] == tol and x[1][0] == "call" and x[1][1] in ("abs", "std::abs") for x in zfa)
            eqidx = entails(zfa, ("==",) + tuple(sorted([lh.idx(info["A"]), lh.idx(info["B"])], key=repr)))
            if reg and zero and eqidx:
                r1.ok(site, f.loc(Z), "|Pole| < ReduceResonanceTolerance -> ZeroPoleWeight, otherwise a regular term", cfgname)
            else:
                r1.bad(site, f.loc(Z), "the split between the zero-energy pole (|Pole| < ReduceResonanceTolerance) and regular terms is not complementary / not under the index match", cfgname)
            zrw = lh.rw_facts(zfa)
            n = f.nodes[Z]
            rhs = n["r"] if n["k"] == "bin" else n["args"][1]
            got = F.conv(zrw(ctx.key(rhs)))
            want = info["a"] * info["b"] * info["wo"]
            site = SP + "::compute:ZeroPoleWeight"
            if F.equal(got, want):
                r1.ok(site, f.loc(Z), "ZeroPoleWeight += a_oi*b_io*w_outer(o)", cfgname)
            else:
                r1.bad(site, f.loc(Z), "zero-pole contribution is %s, expected %s%s" % (got, want, lh.wit(F, got, want)), cfgname)
    # part value at frequency / tau
    for qn, kind in ((SP + "::operator()", "z"), (SP + "::of_tau", "tau")):
        g = db.fn(qn, ptypes=[r"complex"] if kind == "z" else [r"double"])
        gctx = Ctx(g, db)
        F = Formula()
        x = F.name_atom(("param", g.params[0]["d"], g.params[0]["n"]), kind)
        beta = F.name_atom(fld("Pomerol::Thermal::beta"), "beta")
        Zw = F.name_atom(fld(SP + "::ZeroPoleWeight"), "Z0")
        terms = fld(SP + "::Terms")
        rets = [j for j, n in g.walk(g.body) if n["k"] == "return"]
        site = "%s(%s)" % (qn, kind)
        if len(rets) != 1:
            raise AnalysisBroken("%s: expected one return" % site)
        from pv.symenv import env_at, value_key
        rk = value_key(g, gctx, env_at(g, gctx), g.nodes[rets[0]]["sub"], rets[0])
        if kind == "z":
            T = F.name_atom(("op", "()", terms, ("param", g.params[0]["d"], g.params[0]["n"])), "Terms_z")
            # Terms(z) + [|z| < eps] Z0*beta, decided case by case (any form: ?:, if, accumulator)
            from pv.paths import return_cases
            zp = ("param", g.params[0]["d"], g.params[0]["n"])
            cases_ = return_cases(g, gctx)
            if not cases_:
                raise AnalysisBroken("%s: the returning paths cannot be enumerated" % site)
            probs_ = []
            seen_small = seen_large = False
            for c_ in cases_:
                small = large = False
                for x in c_["facts"]:
                    if x[0] in ("<", "<=") and x[1][0] == "call" and x[1][1] in ("abs", "std::abs") and x[1][2] == zp and x[2][0] == "lit" and 0 < float(x[2][1]) <= 1e-10:
                        small = True
                    if x[0] in ("<", "<=") and x[2][0] == "call" and x[2][1] in ("abs", "std::abs") and x[2][2] == zp and x[1][0] == "lit" and 0 < float(x[1][1]) <= 1e-10:
                        large = True
                try:
                    got_ = F.conv(c_["key"])
                except AnalysisBroken:
                    raise
                if small:
                    seen_small = True
                    if not F.equal(got_, T + Zw * beta):
                        probs_.append("at vanishing frequency the value is %s, expected Terms(z) + ZeroPoleWeight*beta" % F.show(got_))
                elif large:
                    seen_large = True
                    if not F.equal(got_, T):
                        probs_.append("away from zero frequency the value is %s, expected Terms(z)" % F.show(got_))
                else:
                    if F.equal(got_, T + Zw * beta):
                        probs_.append("the static contribution ZeroPoleWeight*beta is added at every frequency")
                    elif F.equal(got_, T):
                        probs_.append("the static contribution ZeroPoleWeight*beta is never added")
                    else:
                        raise AnalysisBroken("%s: a returning path does not decide |z| < eps and its value is not recognised" % site)
            if probs_:
                r1.bad(site, g.loc(), "value is not Terms(z) + [|z|<eps] * ZeroPoleWeight * beta: " + "; ".join(sorted(set(probs_))), cfgname)
            elif seen_small and seen_large:
                r1.ok(site, g.loc(), "Terms(z) + [|z|<eps]*ZeroPoleWeight*beta", cfgname)
            else:
                raise AnalysisBroken("%s: the frequency test |z| < eps was not found" % site)
        else:
            T = F.name_atom(("op", "()", terms, ("param", g.params[0]["d"], g.params[0]["n"]), fld("Pomerol::Thermal::beta")), "Terms_tau")
            got = F.conv(rk)
            if F.equal(got, T + Zw):
                r1.ok(site, g.loc(), "Terms(tau, beta) + ZeroPoleWeight", cfgname)
            else:
                r1.bad(site, g.loc(), "imaginary-time value is %s, expected Terms(tau,beta) + ZeroPoleWeight" % got, cfgname)
    # total: sum over parts, disconnected part
    for qn, ptypes, kind in ((SU + "::operator()", [r"complex"], "z"), (SU + "::of_tau", [r"double"], "tau")):
        g = lh.check_sum_over_parts(r1, db, cfgname, qn, 1, ptypes, "of_tau")
        gctx = Ctx(g, db)
        gat = guard_facts(g, gctx)
        # subtractions from the value that is returned (a `-=` on anything else, e.g. on the argument, is not the disconnected part)
        retvars = {gctx.key(m["sub"], inline=False)[:2] for _, m in g.walk(g.body) if m["k"] == "return" and m.get("sub") is not None and gctx.key(m["sub"], inline=False)[0] == "var"}
        subs = [j for j, n in g.walk(g.body) if ((n["k"] == "call" and n["ck"] == "op" and n.get("op") == "-=") or (n["k"] == "bin" and n["op"] == "-="))
                and (not retvars or gctx.key(n["args"][0] if n["k"] == "call" else n["l"], inline=False)[:2] in retvars)]
        site = "%s:disconnected" % qn
        if len(subs) != 1:
            r1.bad(site, g.loc(), "the disconnected part is subtracted %d times" % len(subs), cfgname)
            continue
        S = subs[0]
        n = g.nodes[S]
        rhs = n["args"][1] if n["k"] == "call" else n["r"]
        F = Formula()
        a_, b_ = F.name_atom(fld(SU + "::ave_A"), "aveA"), F.name_atom(fld(SU + "::ave_B"), "aveB")
        beta = F.name_atom(fld("Pomerol::Thermal::beta"), "beta")
        got = F.conv(gctx.key(rhs))
        want = a_ * b_ * beta if kind == "z" else a_ * b_
        fa = gat.get(g.cfg.pos1(S), frozenset())
        flag = ("true", fld(SU + "::SubtractDisconnected")) in fa
        z = ("param", g.params[0]["d"], g.params[0]["n"])
        atzero = any(x[0] == "<" and x[1] == ("call", "abs", z) or (x[0] == "<" and x[1] == ("call", "std::abs", z)) for x in fa)
        probs = []
        if not F.equal(got, want):
            probs.append("subtracts %s, expected %s" % (got, want))
        if not flag:
            probs.append("subtraction is not conditional on SubtractDisconnected")
        if kind == "z" and not atzero:
            probs.append("subtraction is applied at every frequency, it belongs to W_n = 0 only")
        if kind == "tau" and atzero:
            probs.append("subtraction in tau is restricted to small tau")
        # no value may be returned before the subtraction was decided, unless the flag is known to be off on that path
        for r_ in lh.returns_skipping(g, gctx, S, lambda q_: ("false", fld(SU + "::SubtractDisconnected")) in gat.get(g.cfg.pos1(q_), frozenset())):
            probs.append("the value returned at line %s leaves out the disconnected part although SubtractDisconnected may be set (early return%s)" % (
                g.loc(r_).rsplit(":", 1)[-1], " for a vanishing function: its connected part is 0 but <A><B> still has to be subtracted" if ("true", fld(SU + "::Vanishing")) in gat.get(g.cfg.pos1(r_), frozenset()) else ""))
        if probs:
            r1.bad(site, g.loc(S), "; ".join(probs), cfgname)
        else:
            r1.ok(site, g.loc(S), "-= %s under SubtractDisconnected%s" % (want, " and |z|<eps" if kind == "z" else ""), cfgname)
    lh.check_matsubara(r1, db, cfgname, SU + "::operator()", False)
    lh.check_matsubara(r1, db, cfgname, SP + "::operator()", False)

    r2 = chk.rule("C14-R2", "block stripe binding and walks of Susceptibility::prepare / SusceptibilityPart::compute", "F5 index spaces + F1", 4)
    c = lh.check_prepare(r2, r2, db, cfgname, SU, SP, "A", "B")
    if info:
        lh.check_walk(r2, cfgname, info, SP + "::compute")
    lh.check_termlist(r2, db, cfgname, SP + "::Term")

    r3 = chk.rule("C14-R3", "the three ways of supplying <A>,<B> agree (A's average first) and set the flag", "F1 dominance", 3)
    subs = db.fn(SU + "::subtractDisconnected", allow_many=True)
    byn = {}
    for s_ in subs:
        byn[(len(s_.params), s_.params[0]["t"] if s_.params else "")] = s_
    core = [s_ for s_ in subs if len(s_.params) == 2 and "complex" in s_.params[0]["t"]]
    ea = [s_ for s_ in subs if len(s_.params) == 2 and "EnsembleAverage" in s_.params[0]["t"]]
    noarg = [s_ for s_ in subs if len(s_.params) == 0]
    if not (len(core) == 1 and len(ea) == 1 and len(noarg) == 1):
        raise AnalysisBroken("Susceptibility::subtractDisconnected: expected three overloads")
    g = core[0]
    gctx = Ctx(g, db)
    pa, pb = [("param", p["d"], p["n"]) for p in g.params]
    asg = {}
    for j, n in g.walk(g.body):
        if n["k"] == "bin" and n["op"] == "=" or (n["k"] == "call" and n["ck"] == "op" and n.get("op") == "="):
            l = n["l"] if n["k"] == "bin" else n["args"][0]
            r = n["r"] if n["k"] == "bin" else n["args"][1]
            asg[gctx.key(l)] = gctx.key(r)
    site = SU + "::subtractDisconnected(ComplexType,ComplexType)"
    if asg.get(fld(SU + "::ave_A")) == pa and asg.get(fld(SU + "::ave_B")) == pb and asg.get(fld(SU + "::SubtractDisconnected")) == ("lit", 1):
        r3.ok(site, g.loc(), "sets the flag, ave_A = first argument, ave_B = second", cfgname)
    else:
        r3.bad(site, g.loc(), "does not store (first -> ave_A, second -> ave_B) and set SubtractDisconnected", cfgname)
    g = ea[0]
    gctx = Ctx(g, db)
    ea_, eb_ = [("param", p["d"], p["n"]) for p in g.params]
    calls = [j for j in g.calls(cname=SU + "::subtractDisconnected")]
    site = SU + "::subtractDisconnected(EnsembleAverage&,EnsembleAverage&)"
    good = False
    for j in calls:
        k = gctx.key(j)
        if len(k) == 5 and k[3] == ("mcall", "Pomerol::EnsembleAverage::getResult", ea_) and k[4] == ("mcall", "Pomerol::EnsembleAverage::getResult", eb_):
            preps = [x for x in g.calls(cname="Pomerol::EnsembleAverage::prepare")]
            objs = {gctx.key(g.nodes[x]["obj"]) for x in preps}
            if objs == {ea_, eb_} and all(g.cfg.dominates(g.cfg.pos1(x), g.cfg.pos1(j)) for x in preps):
                good = True
        elif len(k) == 5 and k[3][0] == "field" and k[4][0] == "field":
            good = k[3][2] == ea_ and k[4][2] == eb_
    direct = False
    swapped = False
    if not calls:
        # not forwarded: the members are assigned here
        asg2 = {}
        for j, n in g.walk(g.body):
            if n["k"] == "bin" and n["op"] == "=" or (n["k"] == "call" and n["ck"] == "op" and n.get("op") == "="):
                l = n["l"] if n["k"] == "bin" else n["args"][0]
                r = n["r"] if n["k"] == "bin" else n["args"][1]
                asg2[gctx.key(l)] = (gctx.key(r), j)
        ra, rb = ("mcall", "Pomerol::EnsembleAverage::getResult", ea_), ("mcall", "Pomerol::EnsembleAverage::getResult", eb_)
        va, vb, vf = asg2.get(fld(SU + "::ave_A")), asg2.get(fld(SU + "::ave_B")), asg2.get(fld(SU + "::SubtractDisconnected"))
        preps = [x for x in g.calls(cname="Pomerol::EnsembleAverage::prepare")]
        objs = {gctx.key(g.nodes[x]["obj"]) for x in preps}
        if va and vb and vf and va[0] == ra and vb[0] == rb and vf[0] == ("lit", 1) and objs == {ea_, eb_} and all(g.cfg.dominates(g.cfg.pos1(x), g.cfg.pos1(va[1])) and g.cfg.dominates(g.cfg.pos1(x), g.cfg.pos1(vb[1])) for x in preps):
            direct = True
        elif va and vb and va[0] == rb and vb[0] == ra:
            swapped = True
    if good or direct:
        r3.ok(site, g.loc(), "prepares both averages and %s (A.getResult(), B.getResult())" % ("forwards" if good else "stores"), cfgname)
    elif calls or swapped:
        r3.bad(site, g.loc(), "does not forward (average of A, average of B) in this order after preparing both", cfgname)
    else:
        r3.unknown(site, g.loc(), "the averages are neither forwarded to the (ComplexType, ComplexType) overload nor assigned to ave_A / ave_B in a recognised form", cfgname)
    g = noarg[0]
    gctx = Ctx(g, db)
    site = SU + "::subtractDisconnected()"
    good = False
    for j in g.calls(cname=SU + "::subtractDisconnected"):
        k = gctx.key(j, inline=False)
        if len(k) == 5 and k[3][0] == "var" and k[4][0] == "var":
            da, db_ = gctx.decls[k[3][1]], gctx.decls[k[4][1]]
            ka, kb = gctx.key(da["init"]), gctx.key(db_["init"])
            if ka[0] == "ctor" and kb[0] == "ctor" and fld(SU + "::A") in ka and fld(SU + "::B") in kb:
                good = True
    if good:
        r3.ok(site, g.loc(), "EnsembleAverage of A first, of B second", cfgname)
    else:
        r3.bad(site, g.loc(), "the averages of A and B are not passed in this order", cfgname)
    r_idem = chk.rule("C14-R4", "prepare()/compute() are idempotent: the early-return level is the level the function establishes", "F1 pairing", 3)
    from checks.lehmann import check_status_guards
    check_status_guards(r_idem, db, cfgname, ("Pomerol::Susceptibility", "Pomerol::EnsembleAverage"))
    from checks.lehmann import check_copy_ctors_complete
    check_copy_ctors_complete(r_idem, db, cfgname, ("Pomerol::Susceptibility",))
    chk.undecided.append("equality with int_0^beta <T A(tau) B(0)> e^{iWt} dtau at the value level; the threshold semantics of |Pole| < tolerance for nearly degenerate levels")


if __name__ == "__main__":
    run_check("C14", "dynamical susceptibility: Lehmann structure and static limit", body)
