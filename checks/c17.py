"""C17 — no out-of-bounds access / UB in the anchored mechanisms (DESIGN.md §3 C17)."""
from pv.check import run_check
from pv.entail import contradicts, entails
from pv.expr import Ctx, guard_facts, key_contains, key_vars
from pv.facts import AnalysisBroken, strip_targs
from pv.throws import Throws
from pv.tstate import IterTypestate

# container field -> exclusive extent (field of the same object), frozen by reading the classes
EXTENTS = {
    "Pomerol::StatesClassification::StateBlockIndex": "Pomerol::StatesClassification::StateSize",
    "Pomerol::IndexClassification::IndicesToInfo": "Pomerol::IndexClassification::IndexSize",
    "Pomerol::DynamicIndexCombination::Indices": "Pomerol::DynamicIndexCombination::N",
    "Pomerol::Symmetrizer::QuantumNumbers::numbers": "Pomerol::Symmetrizer::QuantumNumbers::amount",
}
# extents that are exclusive upper bounds of a *label space* (valid labels are 0..E-1)
LABEL_EXTENTS = ("Pomerol::StatesClassification::StateSize", "Pomerol::IndexClassification::IndexSize",
                 "Pomerol::DynamicIndexCombination::N")
SELF_SIZED = ("Pomerol::StatesClassification::StatesContainer",)

ASSUMED_NONEMPTY = {
    # (function, container rendering): reason
    ("Pomerol::Symmetrizer::IndexPermutation::calculateCycleLength", "Combinations"):
        "class invariant: the only constructor pushes one combination before calling this method (not on the documented workflow)",
}


def lib_functions(db):
    return sorted([f for f in db.fns.values() if ("/src/" in f.file or "/include/" in f.file) and f.d.get("cfg") is not None
                   and f.body is not None and f.body >= 0], key=lambda f: (f.file, f.line, f.mangled))


class SerializeOnly:
    """forwards only the serialize() instances of C06-R4 to a rule of this check"""
    def __init__(self, rule):
        self.rule = rule
        self.rid = rule.rid
        self.instances = rule.instances

    def _fw(self, kind, site, *a):
        if "::serialize:" in site:
            getattr(self.rule, kind)(site, *a)

    def ok(self, site, *a):
        self._fw("ok", site, *a)

    def bad(self, site, *a):
        self._fw("bad", site, *a)

    def unknown(self, site, *a):
        self._fw("unknown", site, *a)

    def guard(self, *a, **k):
        return self.rule.guard(*a, **k)


def body(chk, db, cfgname):
    thr = Throws(db)
    fns = lib_functions(db)

    # ------------------------------------------------------------------ R1
    r1 = chk.rule("C17-R1", "sparse InnerIterator accessed only after its validity test (typestate)", "F2 typestate", 11)
    ts = IterTypestate(db)
    seen_vars = 0
    for f in fns:
        iv = ts.iter_vars(f)
        if not iv:
            continue
        res = ts.analyse(f, entry_checked=True)
        by_var = {}
        for nid, d, ok, m in res["accesses"]:
            by_var.setdefault(d, []).append((nid, ok, m))
        for d, (nm, kind) in sorted(iv.items(), key=lambda kv: kv[1][0]):
            seen_vars += 1
            acc = by_var.get(d, [])
            badacc = [(nid, m) for nid, ok, m in acc if not ok]
            site = "%s:%s" % (f.qn, nm)
            if badacc:
                nid, m = badacc[0]
                r1.bad(site, f.loc(nid), "%s.%s() is evaluated on a path on which the iterator was advanced (or constructed) and not re-tested: "
                       "when the inner vector is exhausted this reads past the stored indices/values (%d such accesses: lines %s)" % (
                           nm, m, len(badacc), ",".join(str(f.nodes[x]["ln"]) for x, _ in badacc)), cfgname)
            else:
                r1.ok(site, f.loc(), "%d accesses, each dominated by a validity test since the last ++%s" % (len(acc), " (reference parameter: callers must pass a tested iterator)" if kind == "param" else ""), cfgname)
        for nid, cf, pas in res["calls"]:
            if cf is None:
                continue
            summ = ts.summary(cf)
            for (d, ok), p in zip(pas, [q for q in cf.params if q["d"] in ts.iter_vars(cf)]):
                if p["d"] in summ["requires"]:
                    site = "%s:call(%s):%s" % (f.qn, cf.qn, iv[d][0])
                    if ok:
                        r1.ok(site, f.loc(nid), "callee reads the iterator before testing it; it is tested at the call", cfgname)
                    else:
                        r1.bad(site, f.loc(nid), "%s is handed to %s, which reads it before testing it, without a dominating validity test" % (iv[d][0], cf.qn), cfgname)

    # ------------------------------------------------------------------ R2
    r2 = chk.rule("C17-R2", "no first/last-element access of a possibly empty sequence; MPI buffers taken with .data()", "F8 guards", 2)
    for f in fns:
        ctx = None
        for j, n in f.walk(f.body):
            what = None
            cont = None
            if n["k"] == "un" and n["op"] == "&":
                s = f.nodes[n["sub"]]
                if s["k"] == "call" and s["ck"] == "op" and s["op"] == "[]" and strip_targs(s.get("cname") or "").startswith("std::vector::"):
                    what, cont = "&%s[%s]" % (f.s(s["args"][0]), f.s(s["args"][1])), s["args"][0]
                    idx = s["args"][1]
                    if not (f.nodes[idx]["k"] == "lit" and f.nodes[idx]["v"] == 0):
                        what = None   # general subscripts are not this rule
            elif n["k"] == "call" and n["ck"] == "method" and strip_targs(n.get("cname") or "") in (
                    "std::vector::front", "std::vector::back", "std::list::front", "std::list::back"):
                what, cont = f.s(j), n["obj"]
            elif (n["k"] == "un" and n["op"] == "*") or (n["k"] == "call" and n["ck"] == "op" and n["op"] == "*" and len(n["args"]) == 1):
                sub = n["sub"] if n["k"] == "un" else n["args"][0]
                s = f.nodes[sub]
                if s["k"] == "call" and s["ck"] == "method" and strip_targs(s.get("cname") or "") in (
                        "std::vector::begin", "std::vector::rbegin", "std::list::begin", "std::list::rbegin", "std::set::begin", "std::map::begin"):
                    what, cont = "*" + f.s(sub), s["obj"]
            if what is None:
                continue
            if not f.cfg.pos(j) and f.cfg.pos1(j) is None:
                continue
            ctx = ctx or thr.ctx(f)
            ck = ctx.key(cont)
            site = "%s:%s" % (f.qn, what)
            if nonempty_at(f, ctx, thr, j, cont, ck):
                r2.ok(site, f.loc(j), "sequence is non-empty on every path to the access (dominating push_back / size test)", cfgname)
            elif (f.name, f.s(cont)) in ASSUMED_NONEMPTY:
                r2.ok(site, f.loc(j), "assumed: " + ASSUMED_NONEMPTY[(f.name, f.s(cont))], cfgname)
            else:
                r2.bad(site, f.loc(j), "%s is evaluated although %s may be empty here (no dominating non-emptiness fact): operator[] / front() / *begin() on an "
                       "empty sequence is undefined behaviour (reference binding to a null pointer); use .data()" % (what, f.s(cont)), cfgname)
    # buffers handed to MPI collectives
    for f in fns:
        for j in f.calls():
            n = f.nodes[j]
            cn = strip_targs(n.get("cname") or "")
            if cn not in ("boost::mpi::reduce", "boost::mpi::broadcast", "boost::mpi::all_reduce", "boost::mpi::gather", "boost::mpi::scatter"):
                continue
            for ai, a in enumerate(n["args"]):
                t = f.nodes[a].get("t", "")
                if not t.endswith("*") or "communicator" in t:
                    continue
                an = f.nodes[a]
                site = "%s:%s(arg %d: %s)" % (f.qn, cn.split("::")[-1], ai, f.s(a)[:40])
                if an["k"] == "call" and an["ck"] == "method" and strip_targs(an.get("cname") or "").split("::")[-1] == "data":
                    r2.ok(site, f.loc(j), "buffer pointer obtained with .data() (well defined for empty containers)", cfgname)
                elif an["k"] == "un" and an["op"] == "&":
                    pass   # judged above as a first-element address
                else:
                    r2.ok(site, f.loc(j), "pointer argument is not derived from a container element", cfgname)

    # ------------------------------------------------------------------ R3
    r3 = chk.rule("C17-R3", "bounds guards agree with the extent of what they protect (exclusive upper bounds)", "F8 guards", 8)
    for f in fns:
        ctx = None
        # (a) guarded subscripts on containers with a frozen extent
        for j, n in f.walk(f.body):
            if not (n["k"] == "call" and n["ck"] == "op" and n["op"] == "[]"):
                continue
            ctx = ctx or thr.ctx(f)
            bk = ctx.key(n["args"][0])
            ik = ctx.key(n["args"][1])
            ext = None
            if bk[0] == "field" and bk[1] in EXTENTS:
                ext = ("field", EXTENTS[bk[1]], bk[2])
            elif strip_targs(n.get("cname") or "").startswith("std::vector::") and (
                    (bk[0] == "field" and bk[1] in SELF_SIZED) or (bk[0] == "op" and bk[1] == "[]" and bk[2][0] == "field" and bk[2][1] in SELF_SIZED)):
                ext = ("mcall", "std::vector::size", bk)
            if ext is None:
                continue
            p = f.cfg.pos1(j)
            if p is None:
                continue
            fa = thr.facts(f).get(p, frozenset())
            rel = [x for x in fa if x[0] in ("<", "<=", "==", "!=") and related(x, ik, ext)]
            if not rel:
                continue       # unguarded subscript: trusted internal use, not an instance of this rule
            site = "%s:%s[%s]" % (f.qn, f.s(n["args"][0]), f.s(n["args"][1]))
            if entails(fa, ("<", ik, ext)):
                r3.ok(site, f.loc(j), "guard implies index < %s" % short(ext), cfgname)
            else:
                r3.bad(site, f.loc(j), "the subscript is guarded, but the guard does not imply index < %s (off by one: index == extent passes)" % short(ext), cfgname)
        # (b) rejecting guards against a label extent must reject label == extent
        for tsite in thr.direct(f):
            for alt in tsite.alts:
                for x in alt:
                    if x[0] not in ("<", "<="):
                        continue
                    for side, other in ((x[1], x[2]), (x[2], x[1])):
                        if side[0] == "field" and side[1] in LABEL_EXTENTS and side[2] == ("this",) and other[0] != "lit":
                            site = "%s:reject(%s)" % (f.sig, pretty_fact(x))
                            if x[1] == side and x[0] == "<":
                                # throws iff extent < label : label == extent is accepted
                                r3.bad(site, tsite.fn.loc(tsite.node), "the rejecting guard fires only for label > %s; label == %s (one past the last valid label) is accepted and then used as an index" % (
                                    short(side), short(side)), cfgname)
                            elif x[1] == side and x[0] == "<=":
                                r3.ok(site, tsite.fn.loc(tsite.node), "rejects every label >= %s" % short(side), cfgname)
    # ------------------------------------------------------------------ R4
    # What a destructor frees must be owned by that object alone.  For every class whose destructor deletes storage reached
    # through a member, the ways of copying the object are examined: a user-provided copy constructor (copying is a supported
    # operation) must not hand the same pointers to the copy; a compiler-generated one does, which is a double free as soon as
    # the class is copied anywhere in the analysed code.
    r4 = chk.rule("C17-R4", "storage freed by a destructor is not shared with a copy of the object (no double free / use after free through the copy constructor)", "F3 ownership", 4)
    from pv.loops import enclosing_loops, loop_shape
    for qn, rec in sorted(db.records.items()):
        if not qn.startswith("Pomerol::") and not qn.startswith("pMPI::"):
            continue
        dt = [x for x in db.fns.values() if x.rec == qn and x.qn.split("::")[-1].startswith("~") and x.body is not None and x.body >= 0]
        if not dt:
            continue
        d = dt[0]
        dctx = Ctx(d, db)
        freed = {}
        for j, n in d.walk(d.body):
            if n["k"] != "delete":
                continue
            keys = [dctx.key(n["sub"])]
            for L_ in enclosing_loops(d, j):
                shp = loop_shape(d, dctx, L_)
                keys += [shp.get(x) for x in ("start", "bound") if isinstance(shp.get(x), tuple)]
            fl = set()
            for k_ in keys:
                key_contains(k_, lambda y: fl.add(y[1]) if (y[0] == "field" and len(y) == 3 and y[2] == ("this",)) else False)
            if not fl:
                raise AnalysisBroken("%s: the operand of `delete` is not reached through a member" % d.qn)
            for x in fl:
                freed.setdefault(x, j)
        if not freed:
            continue
        cc = [m for m in rec.get("methods", []) if m.get("copyctor")]
        for fq, j in sorted(freed.items()):
            site = "%s:%s" % (qn, fq.split("::")[-1])
            short_f = fq.split("::")[-1]
            user = [x for x in db.fns.values() if x.rec == qn and x.qn == qn + "::" + qn.split("::")[-1] and len(x.params) == 1
                    and strip_targs(x.params[0].get("t") or "").replace("const ", "").replace("&", "").strip().split("::")[-1] == qn.split("::")[-1]
                    and x.body is not None and x.body >= 0]
            if user:
                c = user[0]
                cctx = Ctx(c, db)
                src = ("param", c.params[0]["d"], c.params[0]["n"])
                shallow = None
                ini = [i_ for i_ in c.d.get("inits", []) if i_.get("fq") == fq and i_.get("written")]
                for i_ in ini:
                    if key_contains(cctx.key(i_["e"]), lambda y: y[0] == "field" and y[1] == fq and y[2] == src):
                        k_ = cctx.key(i_["e"])
                        # `new T(*other.p)` copies what is pointed to; taking other.p itself (or the container of pointers) shares it
                        if not key_contains(k_, lambda y: y[0] == "new"):
                            shallow = c.loc(i_["e"])
                for jj, nn in c.walk(c.body):
                    if nn["k"] == "bin" and nn["op"] == "=" or (nn["k"] == "call" and nn.get("ck") == "op" and nn.get("op") == "=" and len(nn.get("args", [])) == 2):
                        l_, r_ = (nn["l"], nn["r"]) if nn["k"] == "bin" else nn["args"]
                        if cctx.key(l_) == ("field", fq, ("this",)) and cctx.key(r_) in (("field", fq, src),):
                            shallow = c.loc(jj)
                    # element-wise filling of the member:  member.push_back(x) / insert(x) inside a loop over the source's member
                    if nn["k"] == "call" and nn.get("ck") == "method" and nn.get("obj") is not None and cctx.key(nn["obj"]) == ("field", fq, ("this",)) \
                            and strip_targs(nn.get("cname") or "").split("::")[-1] in ("push_back", "push_front", "insert", "emplace_back", "emplace"):
                        over_src = False
                        for L_ in enclosing_loops(c, jj):
                            shp = loop_shape(c, cctx, L_)
                            if any(isinstance(shp.get(x), tuple) and key_contains(shp[x], lambda y: y == ("field", fq, src)) for x in ("start", "bound")):
                                over_src = True
                        for a_ in nn["args"]:
                            ak = cctx.key(a_)
                            if key_contains(ak, lambda y: y[0] == "new"):
                                continue
                            if over_src or key_contains(ak, lambda y: y == ("field", fq, src)):
                                shallow = c.loc(jj)
                if shallow:
                    r4.bad(site, shallow, "the copy constructor gives the copy the same %s as the original, and ~%s deletes what it holds (line %s): the second destructor frees the storage again, and the survivor uses freed objects" % (
                        short_f, qn.split("::")[-1], d.loc(j).rsplit(":", 1)[-1]), cfgname)
                else:
                    r4.ok(site, c.loc(), "the copy constructor does not take over the original's %s (freed in %s)" % (short_f, d.loc(j)), cfgname)
            elif cc and all(m.get("implicit") for m in cc):
                # compiler-generated member-wise copy: shares the pointers.  Is the class copied anywhere?
                copies = []
                for g in fns:
                    for jj, nn in g.walk(g.body):
                        if nn["k"] == "construct" and nn.get("copy") and strip_targs(nn.get("crec") or "") == qn:
                            copies.append(g.loc(jj))
                if copies:
                    r4.bad(site, copies[0], "%s is copied here with the compiler-generated copy constructor, which shares %s; ~%s deletes it in both objects" % (qn, short_f, qn.split("::")[-1]), cfgname)
                else:
                    r4.ok(site, d.loc(j), "member-wise copyable but never copied in the library (objects of this class are held by reference); %s freed once" % short_f, cfgname)
            else:
                r4.ok(site, d.loc(j), "not copy-constructible", cfgname)
    # ------------------------------------------------------------------ R5
    # erase() inside a loop whose header advances the same iterator: after `it = c.erase(it)` the header's ++it skips the element
    # that followed the erased one (and increments end() when the last element was erased); after a plain `c.erase(it)` the header
    # increments an invalidated iterator.
    r5 = chk.rule("C17-R5", "no container element is erased through the iterator that the enclosing loop's header advances (skipped elements, increment of end() / of an invalidated iterator)", "F2 typestate", 1)
    nloops = 0
    for f in fns:
        ctx = None
        for j, n in f.walk(f.body):
            if n["k"] != "for" or n.get("inc") is None:
                continue
            ctx = ctx or Ctx(f, db)
            shp = loop_shape(f, ctx, j)
            if shp["var"] is None or not (isinstance(shp.get("start"), tuple) and shp["start"][0] == "mcall" and shp["start"][1].split("::")[-1] in ("begin", "cbegin", "rbegin")):
                continue
            nloops += 1
            v = shp["var"]
            for jj, nn in f.walk(n["body"]):
                if nn["k"] == "call" and nn.get("ck") == "method" and strip_targs(nn.get("cname") or "").split("::")[-1] == "erase" and nn.get("args"):
                    ak = ctx.key(nn["args"][0], inline=False)
                    while isinstance(ak, tuple) and ak[0] in ("cast", "ctor") and len(ak) == 3:
                        ak = ak[2]
                    if ak[:2] != v[:2]:
                        continue
                    same_container = any(isinstance(shp.get(x_), tuple) and key_contains(shp[x_], lambda y: y == ctx.key(nn["obj"])) for x_ in ("start", "bound"))
                    if not same_container:
                        continue
                    site = "%s:erase-in-loop@%s" % (f.sig, f.loc(jj).rsplit(":", 1)[-1])
                    par = f.nodes[f.parent_map().get(jj)] if f.parent_map().get(jj) is not None else {}
                    reassigned = (par.get("k") == "bin" and par.get("op") == "=") or (par.get("k") == "call" and par.get("op") == "=")
                    r5.bad(site, f.loc(jj), ("the iterator is re-assigned from erase() and then advanced again by the loop header (`%s`): the element after every erased one is never visited, and erasing the last element increments end()" if reassigned else
                                             "the element is erased through the loop iterator, which the loop header (`%s`) then increments although it was invalidated") % f.s(n["inc"])[:30], cfgname)
    r5.ok("library:iterator-loops", "/repo/src", "%d iterator loops with the advance in the header examined, none erases through its own iterator" % nloops, cfgname) if not any(i["status"] == "violation" and i["config"] == cfgname for i in r5.instances) else None

    # ------------------------------------------------------------------ R6: the index tables of IndexClassification (anchor file of this property)
    # A slot of IndicesToInfo that the enumeration leaves unwritten is a null pointer that prepare() itself dereferences when
    # it builds the inverse table; a slot written twice leaks and hides another.  The deciding rules are C18-R1 / C18-R2 (full
    # enumeration without a truncating exit, tables sized / filled / read as inverses); they are re-evaluated here under this
    # property's id because the consequence of breaking them is exactly this property's subject (null dereference, heap overrun).
    r6 = chk.rule("C17-R6", "IndexClassification::prepare leaves no slot of the index table unwritten and writes none past its extent (the slots are dereferenced right afterwards)", "F8 guards + F1 (rules C18-R1, C18-R2)", 8)
    from pv.check import ViewCheck
    from checks import c18
    c18.body(ViewCheck(chk, {"C18-R1": r6, "C18-R2": r6}), db, cfgname)

    # ------------------------------------------------------------------ R7: members of objects received from another rank
    r7 = chk.rule("C17-R7", "no data member of an object that is sent between ranks by value is left out of its serialize(): the receiving rank would read it uninitialised (rule C06-R4, serialize instances)", "F4 effect vs sync set (rule C06-R4)", 3)
    from checks import c06
    c06.body(ViewCheck(chk, {"C06-R4": SerializeOnly(r7)}), db, cfgname)

    # ------------------------------------------------------------------ R8: look-up results dereferenced only when found
    # every `container.find(key)` whose result is dereferenced, library-wide: the dereference must be on the edge where the
    # result differs from end() (or under a positive count(key)); the inverted test dereferences end() exactly for the keys
    # that are absent.  Five look-ups rely on an invariant established elsewhere and are listed as assumed, with the rule
    # that establishes it.
    ASSUMED_FOUND = {
        "Pomerol::FieldOperator::getPartFromRightIndex": "block maps are filled for every part by prepare() (C07-R5); callers pass blocks taken from those maps",
        "Pomerol::FieldOperator::getPartFromLeftIndex": "block maps are filled for every part by prepare() (C07-R5); callers pass blocks taken from those maps",
        "Pomerol::StatesClassification::getQuantumNumbers": "every block number handed out by getBlockNumber(state) was registered in BlockToQuantum by compute() (C07-R1)",
    }
    r8 = chk.rule("C17-R8", "a look-up result (find) is dereferenced only where it is known to differ from end() (found edge or positive count)", "F2 typestate", 12)
    for g in sorted(fns, key=lambda x: (x.file, x.line)):
        if g.body is None or g.body < 0:
            continue
        gctx = None
        gat = None
        nsite = 0
        for j, n in g.walk(g.body):
            if not (n["k"] == "call" and n.get("ck") == "op" and n.get("op") in ("->", "*") and n.get("args")):
                continue
            gctx = gctx or thr.ctx(g)
            try:
                k = gctx.key(n["args"][0])
            except AnalysisBroken:
                continue
            if not (k[0] == "mcall" and k[1].split("::")[-1] == "find" and len(k) == 4):
                continue
            pj = g.cfg.pos1(j)
            if pj is None or pj[0] not in g.cfg.reachable():
                continue        # (dead code after a throw)
            gat = gat or thr.facts(g)
            fa = gat.get(pj, frozenset())
            nsite += 1
            site = "%s/%d:deref-find#%d" % (g.qn, len(g.params), nsite)
            is_end = lambda y: isinstance(y, tuple) and y[0] == "mcall" and y[1].split("::")[-1] in ("end", "cend") and len(y) == 3 and y[2] == k[2]
            ne = any(x[0] == "!=" and k in x[1:] and any(is_end(y) for y in x[1:]) for x in fa)
            eq = any(x[0] == "==" and k in x[1:] and any(is_end(y) for y in x[1:]) for x in fa)
            cnt = any((x[0] == "true" and isinstance(x[1], tuple) and x[1][0] == "mcall" and x[1][1].split("::")[-1] == "count" and x[1][2:] == k[2:]) or
                      (x[0] in ("<", "!=") and any(isinstance(y, tuple) and y[0] == "mcall" and y[1].split("::")[-1] == "count" and y[2:] == k[2:] for y in x[1:]) and ("lit", 0) in x[1:]) for x in fa)
            if ne or cnt:
                r8.ok(site, g.loc(j), "dereferenced on the found edge" if ne else "dereferenced under a positive count of the same key", cfgname)
            elif eq:
                r8.bad(site, g.loc(j), "the result of %s is dereferenced on the edge where it EQUALS end() (test inverted): end() is dereferenced for every key that is absent, and present keys take the not-found path" % g.s(n["args"][0])[:70], cfgname)
            elif strip_targs(g.name) in ASSUMED_FOUND:
                r8.ok(site, g.loc(j), "assumed found: " + ASSUMED_FOUND[strip_targs(g.name)], cfgname)
            elif any(x[0] in ("true", "false") and isinstance(x[1], tuple) and x[1][0] in ("call", "mcall") and key_contains(x[1], lambda y: y == k[3]) for x in fa):
                r8.unknown(site, g.loc(j), "the look-up is dereferenced under a test of the same key through a helper (%s): whether that establishes presence is not analysed" % str([x[1][1] for x in fa if x[0] in ("true", "false") and isinstance(x[1], tuple) and x[1][0] in ("call", "mcall") and key_contains(x[1], lambda y: y == k[3])][0])[:60], cfgname)
            else:
                # no test at all: whether the key is always present is an invariant of the surrounding code (as for the assumed
                # look-ups above), not something this rule can refute -- undecided, not a defect
                r8.unknown(site, g.loc(j), "the result of %s is dereferenced without a test against end() (or count); that the key is always present is not established by this rule" % g.s(n["args"][0])[:70], cfgname)

    chk.undecided.append("arithmetic overflow (1<<IndexSize), use before prepare/compute, lifetime of leaked raw pointers; UB classes outside the anchored mechanisms")
    chk.note("assumed (not checked): FieldOperator::getPartFrom*Index look-ups rely on the bimap invariant established by prepare (C07-R5)")


def related(fact, a, b):
    def has(k, x):
        return key_contains(k, lambda y: y == x)
    return (has(fact[1], a) and has(fact[2], b)) or (has(fact[1], b) and has(fact[2], a))


def short(k):
    if k[0] == "field":
        return k[1].split("::")[-1]
    if k[0] == "mcall":
        return "%s.size()" % short(k[2]) if k[2][0] in ("field", "op") else "size()"
    if k[0] == "op" and k[1] == "[]":
        return "%s[..]" % short(k[2])
    return str(k[0])


def pretty_fact(x):
    from checks.c20 import fact_str
    return fact_str(x)


def nonempty_at(f, ctx, thr, node, cont, ck):
    """non-emptiness of container key `ck` at `node`: branch facts or a dominating push_back
    with no clear/erase/pop/resize/assign on the path."""
    p = f.cfg.pos1(node)
    fa = thr.facts(f).get(p, frozenset())
    size_keys = [("mcall", "std::vector::size", ck), ("mcall", "std::list::size", ck)]
    empty_keys = [("mcall", "std::vector::empty", ck), ("mcall", "std::list::empty", ck)]
    for sk in size_keys:
        if entails(fa, ("<", ("lit", 0), sk)) or entails(fa, ("!=", ("lit", 0), sk)) or ("true", sk) in fa:
            return True
    for ek in empty_keys:
        if ("false", ek) in fa:
            return True
    # flags whose origin is such a test are inlined by Ctx.key (single-assignment locals): handled by the facts above.
    GEN = ("push_back", "emplace_back", "push_front")
    KILL = ("clear", "erase", "pop_back", "pop_front", "resize", "assign", "swap")

    def is_on(nid, names):
        n = f.nodes[nid]
        if n["k"] == "call" and n["ck"] == "method" and n.get("obj") is not None:
            short_ = strip_targs(n.get("cname") or "").split("::")[-1]
            if short_ in names and ctx.key(n["obj"]) == ck:
                return True
        return False

    def transfer(st, b, i, e):
        nid = e[2] if isinstance(e, tuple) else e
        if is_on(nid, GEN):
            return True
        if is_on(nid, KILL):
            return False
        n = f.nodes[nid]
        if n["k"] in ("call", "construct"):
            cp = n.get("cparams") or []
            for ai, a in enumerate(n["args"]):
                if ai < len(cp) and cp[ai] == "ref" and ctx.key(a) == ck:
                    return False
        return st

    IN, at = f.cfg.forward(False, transfer, None, lambda a, b: a and b)
    return bool(at.get(p, False))


if __name__ == "__main__":
    run_check("C17", "no out-of-bounds access / UB in the anchored mechanisms", body)
