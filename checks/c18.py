"""C18 — index bookkeeping is a bijection (DESIGN.md §3 C18)."""
import sympy as sp

from pv.check import run_check
from pv.entail import entails
from pv.expr import Ctx, guard_facts, key_contains
from pv.facts import AnalysisBroken
from pv.loops import enclosing_loops, loop_shape, stmts_of

IC = "Pomerol::IndexClassification::"
THIS = ("this",)


def site_keys(itvar):
    """accepted spellings of 'the Site the iterator points to'."""
    sec = [("field", "std::pair::second", ("op", "->", itvar)), ("field", "std::pair::second", ("op", "*", itvar)),
           ("field", "std::pair::second", ("un", "*", itvar))]
    return [("un", "*", s) for s in sec] + [("deref", s) for s in sec]


def field_of_site(name, itvar):
    out = []
    for s in site_keys(itvar):
        out.append(("field", "Pomerol::Lattice::Site::" + name, s))
    # it->second->SpinSize : member with arrow: key is field(name, <pointer key>)
    for p in (("field", "std::pair::second", ("op", "->", itvar)), ("field", "std::pair::second", ("op", "*", itvar))):
        out.append(("field", "Pomerol::Lattice::Site::" + name, p))
    return out


def label_keys(itvar):
    return [("field", "std::pair::first", ("op", "->", itvar)), ("field", "std::pair::first", ("op", "*", itvar))]


def lh_subkeys(k):
    yield k
    if isinstance(k, tuple):
        for x in k:
            if isinstance(x, tuple):
                for y in lh_subkeys(x):
                    yield y


def body(chk, db, cfgname):
    f = db.fn(IC + "prepare", nparams=1)
    ctx = Ctx(f, db)
    at = guard_facts(f, ctx)
    sites = ("field", IC + "Sites", THIS)
    i2i = ("field", IC + "IndicesToInfo", THIS)
    isize = ("field", IC + "IndexSize", THIS)

    r1 = chk.rule("C18-R1", "enumeration of (site, orbital, spin) covers exactly the index range, no truncating exit", "F8 guards + F1", 8)
    writes = []
    for j, n in f.walk(f.body):
        if n["k"] == "bin" and n["op"] == "=":
            lk = ctx.key(n["l"], inline=False)
            if lk[0] == "op" and lk[1] == "[]" and lk[2] == i2i:
                writes.append(j)
    if len(writes) < 2:
        raise AnalysisBroken("IndexClassification::prepare: expected a write to IndicesToInfo in each ordering mode, found %d" % len(writes))
    # the counter
    counters = set()
    for W in writes:
        lk = ctx.key(f.nodes[W]["l"], inline=False)
        counters.add(lk[3])
    if len(counters) != 1 or list(counters)[0][0] != "var":
        # a slot computed from the loop variables (base + orbital*K + spin): in a mixed-radix layout the stride of the outer
        # variable must be the range of the inner one; another stride is positive evidence of colliding / skipped slots
        from pv.formula import Formula
        for W in writes:
            lk = ctx.key(f.nodes[W]["l"], inline=False)
            if lk[3][0] == "var":
                continue
            shapes_ = [loop_shape(f, ctx, L) for L in enclosing_loops(f, W)]
            idxl = [s_ for s_ in shapes_ if s_["kind"] == "index" and s_["start"] == ("lit", 0) and s_["rel"] == "<"]
            if len(idxl) != 2:
                continue
            Fm = Formula()
            inner, outer_ = idxl[0], idxl[1]
            vi, vo = Fm.name_atom(inner["var"], inner["var"][2]), Fm.name_atom(outer_["var"], outer_["var"][2])
            def _nm(k_):
                k2 = ctx.key_of_var(k_) if hasattr(ctx, "key_of_var") else k_
                while isinstance(k2, tuple) and k2[0] == "cast":
                    k2 = k2[2]
                return k2[1].split("::")[-1] if isinstance(k2, tuple) and k2[0] == "field" else None
            for b_ in (inner["bound"], outer_["bound"]):
                if _nm(b_):
                    Fm.name_atom(b_, _nm(b_))
            for sub_ in lh_subkeys(ctx.key(f.nodes[W]["l"], inline=True)[3]):
                if isinstance(sub_, tuple) and sub_ and sub_[0] == "field" and sub_[1].startswith("Pomerol::Lattice::Site::"):
                    Fm.name_atom(sub_, sub_[1].split("::")[-1])
            Bi, Bo = Fm.conv(inner["bound"]), Fm.conv(outer_["bound"])
            e_ = sp.expand(Fm.conv(ctx.key(f.nodes[W]["l"], inline=True)[3]))
            ci, co = e_.coeff(vi, 1), e_.coeff(vo, 1)
            rest = sp.expand(e_ - ci * vi - co * vo)
            if rest.has(vi) or rest.has(vo) or ci == 0 or co == 0:
                continue
            if (sp.simplify(ci - 1) == 0 and sp.simplify(co - Bi) == 0) or (sp.simplify(co - 1) == 0 and sp.simplify(ci - Bo) == 0):
                continue
            r1.bad(IC + "prepare:slot", f.loc(W), "the slot is computed as %s with %s in [0, %s) and %s in [0, %s): the stride of one variable is not the range of the other, so different (orbital, spin) pairs share a slot and other slots stay empty whenever %s differs from %s" % (
                e_, vo, Bo, vi, Bi, co if sp.simplify(ci - 1) == 0 else ci, Bi if sp.simplify(ci - 1) == 0 else Bo), cfgname)
            return
        raise AnalysisBroken("IndexClassification::prepare: writes do not use one running index variable")
    cur = list(counters)[0]
    cdecl = ctx.decls[cur[1]]
    site0 = IC + "prepare:counter"
    incs = ctx.mut.get(cur[1], [])
    good = cdecl.get("init") is not None and ctx.key(cdecl["init"]) == ("lit", 0)
    if good and len(incs) == len(writes):
        r1.ok(site0, f.loc(cdecl["declnode"]), "running index starts at 0 and is modified only by the %d increments paired with the writes" % len(incs), cfgname)
    else:
        r1.bad(site0, f.loc(cdecl["declnode"]), "the running index does not start at 0 or is modified other than once per write (%d modifications, %d writes)" % (len(incs), len(writes)), cfgname)

    for wi, W in enumerate(writes):
        mode = "order_spins" if any(("true", ("param", f.params[0]["d"], f.params[0]["n"])) == fa for fa in at.get(f.cfg.pos1(W), ())) else "site-major"
        sname = IC + "prepare[%s]" % mode
        loops = enclosing_loops(f, W)
        shapes = [loop_shape(f, ctx, L) for L in loops]
        itl = [s for s in shapes if s["kind"] == "iter" and s["bound"] == sites]
        if len(itl) != 1:
            raise AnalysisBroken("%s: the write is not inside exactly one iterator loop over Sites" % sname)
        itvar = itl[0]["var"]
        n = f.nodes[W]
        rk = ctx.key(n["r"])
        if not (rk[0] == "new" and rk[2][0] == "ctor" and len(rk[2]) == 5):
            raise AnalysisBroken("%s: right-hand side is not new IndexInfo(label, orbital, spin): %s" % (sname, f.s(n["r"])))
        lab, orb, spin = rk[2][2], rk[2][3], rk[2][4]
        strip = lambda k: k[2] if k[0] == "cast" else k
        orb, spin = strip(orb), strip(spin)
        # ---- (a) the stored triple is (label of the site loop, orbital loop var, spin loop var)
        idx = {s["var"][:2]: s for s in shapes if s["kind"] == "index"}
        okargs = lab in label_keys(itvar) and orb[:2] in idx and spin[:2] in idx and orb[:2] != spin[:2]
        if okargs:
            r1.ok(sname + ":triple", f.loc(W), "stores (it->first, %s, %s) from the enclosing loops" % (orb[2], spin[2]), cfgname)
        else:
            r1.bad(sname + ":triple", f.loc(W), "the stored IndexInfo is not (site label, orbital loop variable, spin loop variable): %s" % f.s(n["r"]), cfgname)
            continue
        so, ss = idx[orb[:2]], idx[spin[:2]]
        # ---- (b) counter incremented right after the write
        par = f.parent_map().get(W)
        sib = stmts_of(f, par) if par is not None else []
        nxt = sib[sib.index(W) + 1] if W in sib and sib.index(W) + 1 < len(sib) else None
        isinc = nxt is not None and nxt in incs
        if isinc:
            r1.ok(sname + ":advance", f.loc(W), "write is immediately followed by the increment of the running index", cfgname)
        else:
            r1.bad(sname + ":advance", f.loc(W), "the running index is not advanced immediately after the write (slot reused or skipped)", cfgname)
        # ---- (c) ranges: orbital loop and spin loop are full-range for the site
        problems = []
        if not (so["start"] == ("lit", 0) and so["rel"] == "<" and so["bound"] in field_of_site("OrbitalSize", itvar)):
            problems.append("orbital loop is not [0, OrbitalSize of the site): %s" % f.s(so["node"]))
        inner_spin = ss["bound"] in field_of_site("SpinSize", itvar)
        if not (ss["start"] == ("lit", 0) and ss["rel"] == "<"):
            problems.append("spin loop does not start at 0 with '<': %s" % f.s(ss["node"]))
        elif not inner_spin:
            # bound must be the maximum of SpinSize over the same map
            b = ss["bound"]
            if not (b[0] == "var" and max_idiom(f, ctx, b, sites)):
                problems.append("spin loop bound %s is neither the site's SpinSize nor the maximum of SpinSize over all sites" % f.s(f.nodes[ss["node"]]["c"]))
        fa = at.get(f.cfg.pos1(W), frozenset())
        if not any(entails(fa, ("<", spin, g)) for g in field_of_site("SpinSize", itvar)):
            problems.append("at the write, spin < SpinSize of the site is not established")
        if not any(entails(fa, ("<", orb, g)) for g in field_of_site("OrbitalSize", itvar)):
            problems.append("at the write, orbital < OrbitalSize of the site is not established")
        if problems:
            r1.bad(sname + ":range", f.loc(W), "; ".join(problems), cfgname)
        else:
            r1.ok(sname + ":range", f.loc(W), "orbital and spin ranges are exactly those of the site", cfgname)
        # ---- (d) no truncating exit, only the exact complement filter may skip an iteration
        outer = loops[-1]
        bad_exit = None
        for s in shapes:
            for (e, kind) in list(s["exits"]) + list(s.get("continues", [])):
                if kind == "continue":
                    # accepted: 'if (spin >= SpinSize(site)) continue;' directly in the site loop
                    efa = at.get(f.cfg.pos1(e), frozenset())
                    if s is itl[0] and any(entails(efa, ("<=", g, spin)) for g in field_of_site("SpinSize", itvar)) and \
                            len([x for x in efa if x not in at.get(f.cfg.pos1(itl[0]["body"]) or (0, 0), frozenset())]) >= 1:
                        continue
                    bad_exit = (e, "an iteration of the %s loop is skipped under a condition that is not the site's own range test" % loop_name(s, so, ss, itl[0]))
                elif kind == "stop-condition":
                    bad_exit = (e, "the %s loop has an additional stop condition (%s): it ends at the first %s for which the condition fails, the remaining %s are never enumerated" % (
                        loop_name(s, so, ss, itl[0]), f.s(e)[:80], "site" if s is itl[0] else "value", "sites" if s is itl[0] else "values"))
                else:
                    bad_exit = (e, "'%s' leaves the %s loop early: the remaining %s are never enumerated although they may still have this spin/orbital (sites are ordered by label, not by size)" % (
                        kind, loop_name(s, so, ss, itl[0]), "sites" if s is itl[0] else "values"))
        # extra conditions guarding the write
        allowed = set()
        for g in field_of_site("SpinSize", itvar):
            allowed.add(("<", spin, g))
        for g in field_of_site("OrbitalSize", itvar):
            allowed.add(("<", orb, g))
        extra = []
        base = at.get(f.cfg.pos1(f.nodes[outer]["init"]), frozenset()) if f.nodes[outer].get("init") is not None else frozenset()
        for x in fa:
            if x in allowed or x in base:
                continue
            if x[0] in ("true", "false") and x[1] == ("param", f.params[0]["d"], f.params[0]["n"]):
                continue
            if x[0] == "!=" and (key_contains(x, lambda k: k == itvar)):
                continue
            if x[0] == "<" and x[1][:2] in (orb[:2], spin[:2]) and x[2] in (so["bound"], ss["bound"]):
                continue
            extra.append(x)
        if bad_exit:
            r1.bad(sname + ":no-truncation", f.loc(bad_exit[0]), bad_exit[1], cfgname)
        elif extra:
            r1.bad(sname + ":no-truncation", f.loc(W), "the write is additionally guarded by %s: some (site, orbital, spin) triples are not enumerated" % (extra[:2],), cfgname)
        else:
            r1.ok(sname + ":no-truncation", f.loc(outer), "no break/return in the nest; per-site filter (if any) is the exact complement of the range test", cfgname)

    # ---- sizes: IndexSize = sum Orb*Spin over Sites; resize before the writes; inverse table over [0, IndexSize)
    r2 = chk.rule("C18-R2", "look-up tables are sized, filled and read as mutual inverses", "F1 dominance", 5)
    acc = [j for j, n in f.walk(f.body) if n["k"] == "bin" and n["op"] == "+=" and ctx.key(n["l"]) == isize]
    from pv.loops import sum_over, is_element
    ctor = [g for g in db.fns_named(IC + "IndexClassification") if g.kind == "ctor"]
    zero_init = any(i.get("field") == "IndexSize" and Ctx(g, db).key(i["e"]) == ("lit", 0) for g in ctor for i in g.d.get("inits", []))
    so_ = sum_over(f, ctx, sites) if len(acc) == 1 else {"status": "unknown", "why": "%d accumulations into IndexSize" % len(acc)}
    if so_["status"] == "ok" and ctx.key(f.nodes[so_["acc"]]["l"] if f.nodes[so_["acc"]]["k"] == "bin" else f.nodes[so_["acc"]]["args"][0]) != isize:
        so_ = {"status": "unknown", "why": "the accumulation over the sites does not target IndexSize"}
    if so_["status"] == "unknown":
        r2.unknown(IC + "prepare:IndexSize", f.loc(), "the size computation is written in a form that is not analysed (%s)" % so_["why"], cfgname)
    elif so_["status"] == "partial":
        r2.bad(IC + "prepare:IndexSize", f.loc(so_["node"]), "IndexSize is not the sum of OrbitalSize*SpinSize over all sites: " + so_["why"], cfgname)
    else:
        rk = ctx.key(so_["term"])
        shp_ = so_["loop"]

        def fld_of(k, nm):
            return k[0] == "field" and k[1] == "Pomerol::Lattice::Site::" + nm and (is_element(k[2], shp_, sites) or (k[2][0] == "field" and k[2][1] == "std::pair::second" and is_element(k[2][2], shp_, sites))
                                                                                   or (k[2][0] in ("un", "op") and k[2][1] == "*" and k[2][2][0] == "field" and k[2][2][1] == "std::pair::second" and is_element(k[2][2][2], shp_, sites)))
        prod = rk[0] == "op" and rk[1] == "*" and len(rk) == 4 and ((fld_of(rk[2], "OrbitalSize") and fld_of(rk[3], "SpinSize")) or (fld_of(rk[3], "OrbitalSize") and fld_of(rk[2], "SpinSize")))
        if prod and zero_init and not so_["filtered"]:
            r2.ok(IC + "prepare:IndexSize", f.loc(acc[0]), "IndexSize = sum over all sites of OrbitalSize*SpinSize (initialised 0 in the constructor)", cfgname)
        elif so_["filtered"]:
            r2.bad(IC + "prepare:IndexSize", f.loc(acc[0]), "IndexSize is not the sum of OrbitalSize*SpinSize over all sites: some sites are skipped", cfgname)
        elif not zero_init:
            r2.bad(IC + "prepare:IndexSize", f.loc(acc[0]), "IndexSize is not the sum of OrbitalSize*SpinSize over all sites: it does not start at 0", cfgname)
        else:
            r2.bad(IC + "prepare:IndexSize", f.loc(acc[0]), "IndexSize is not the sum of OrbitalSize*SpinSize over all sites: the term added per site is %s" % f.s(so_["term"])[:60], cfgname)
    rs = [j for j, n in f.walk(f.body) if n["k"] == "call" and n["ck"] == "method" and (n.get("cname") or "").endswith("::resize") and ctx.key(n["obj"]) == i2i]
    good = len(rs) == 1 and ctx.key(f.nodes[rs[0]]["args"][0]) == isize and all(f.cfg.dominates(f.cfg.pos1(rs[0]), f.cfg.pos1(W)) for W in writes) \
        and all(f.cfg.dominates_block(f.cfg.loop_blocks(enclosing_loops(f, a)[0])[0], f.cfg.pos1(rs[0])[0])
                and f.cfg.pos1(rs[0])[0] not in f.cfg.loop_blocks(enclosing_loops(f, a)[0])[1] for a in acc)
    if good:
        r2.ok(IC + "prepare:resize", f.loc(rs[0]), "IndicesToInfo.resize(IndexSize) after the size is known and before every write", cfgname)
    else:
        r2.bad(IC + "prepare:resize", f.loc(), "IndicesToInfo is not resized to IndexSize between the size computation and the writes", cfgname)
    inv = ("field", IC + "InfoToIndices", THIS)
    good = False
    for j, n in f.walk(f.body):
        if n["k"] == "bin" and n["op"] == "=":
            lk = ctx.key(n["l"], inline=False)
            if lk[0] == "op" and lk[1] == "[]" and lk[2] == inv:
                L = enclosing_loops(f, j)
                if len(L) == 1:
                    s = loop_shape(f, ctx, L[0])
                    if s["kind"] == "index" and s["start"] == ("lit", 0) and s["rel"] == "<" and s["bound"] == isize and not s["exits"]:
                        v = s["var"]
                        if lk[3] in (("un", "*", ("op", "[]", i2i, v)),) and ctx.key(n["r"], inline=False)[:2] == v[:2]:
                            if all(f.cfg.dominates(f.cfg.pos1(W), f.cfg.pos1(j)) or True for W in writes):
                                good = True
    if good:
        r2.ok(IC + "prepare:inverse", f.loc(), "InfoToIndices[*IndicesToInfo[i]] = i for every i in [0, IndexSize)", cfgname)
    else:
        r2.bad(IC + "prepare:inverse", f.loc(), "the inverse table is not filled as InfoToIndices[*IndicesToInfo[i]] = i over [0, IndexSize)", cfgname)
    from pv.paths import return_cases
    from pv.entail import contradicts
    # getInfo(i): every returning path has established i < IndexSize and returns *IndicesToInfo[i] (any spelling of the element)
    g = db.fn(IC + "getInfo", nparams=1)
    gctx = Ctx(g, db)
    pk = ("param", g.params[0]["d"], g.params[0]["n"])
    elem_forms = (("op", "[]", i2i, pk), ("mcall", "std::vector::at", i2i, pk), ("mcall", "std::vector::operator[]", i2i, pk),
                  ("un", "*", ("op", "+", ("mcall", "std::vector::begin", i2i), pk)), ("op", "*", ("op", "+", ("mcall", "std::vector::begin", i2i), pk)),
                  ("un", "*", ("op", "+", ("mcall", "std::vector::cbegin", i2i), pk)), ("op", "*", ("op", "+", ("mcall", "std::vector::cbegin", i2i), pk)))
    with r2.guard(IC + "getInfo", g.loc(), cfgname):
        cases = return_cases(g, gctx)
        if not cases:
            raise AnalysisBroken("getInfo: the returning paths cannot be enumerated")
        probs = []
        for c_ in cases:
            k_ = c_["key"]
            inner = k_[2] if (k_[0] in ("un", "op") and len(k_) == 3 and k_[1] == "*") else None
            if inner not in elem_forms:
                raise AnalysisBroken("getInfo: the returned expression is not a dereference of IndicesToInfo[in] in a recognised spelling")
            if not entails(frozenset(c_["facts"]), ("<", pk, isize)):
                probs.append("IndicesToInfo[in] is read on a path that has not established in < IndexSize")
        if probs:
            r2.bad(IC + "getInfo", g.loc(), "; ".join(sorted(set(probs))), cfgname)
        else:
            r2.ok(IC + "getInfo", g.loc(), "IndicesToInfo[in] is read under in < IndexSize and *IndicesToInfo[in] is returned", cfgname)
    # getIndex(info): the stored index on the found edge, IndexSize on the not-found edge -- whatever the form (if/else, ?:, flag)
    g = db.fn(IC + "getIndex", nparams=1)
    gctx = Ctx(g, db)
    pk = ("param", g.params[0]["d"], g.params[0]["n"])
    fk = ("mcall", "std::map::find", inv, pk)
    ek = ("mcall", "std::map::end", inv)
    ne = ("!=",) + tuple(sorted([fk, ek], key=repr))
    eq = ("==",) + ne[1:]
    found_forms = (("field", "std::pair::second", ("op", "->", fk)), ("field", "std::pair::second", ("op", "*", fk)), ("field", "std::pair::second", ("un", "*", fk)))
    with r2.guard(IC + "getIndex", g.loc(), cfgname):
        cases = return_cases(g, gctx)
        if not cases:
            raise AnalysisBroken("getIndex: the returning paths cannot be enumerated")
        probs = []
        nfound = 0
        for c_ in cases:
            k_, fs_ = c_["key"], frozenset(c_["facts"])
            if ne in fs_:
                if k_ in found_forms:
                    nfound += 1
                elif k_ == isize:
                    probs.append("IndexSize (`unknown`) is returned although the look-up succeeded")
                else:
                    raise AnalysisBroken("getIndex: value returned on the found edge is not the stored index in a recognised spelling")
            elif eq in fs_:
                if k_ in found_forms:
                    probs.append("the look-up result is dereferenced on the not-found edge")
                elif k_ != isize:
                    probs.append("an unknown combination does not yield IndexSize")
            else:
                raise AnalysisBroken("getIndex: a returning path does not decide whether the look-up succeeded")
        if probs or not nfound:
            r2.bad(IC + "getIndex", g.loc(), "getIndex(info) does not return the stored index on the found edge / IndexSize on the not-found edge: " + ("; ".join(sorted(set(probs))) or "no path returns the stored index"), cfgname)
        else:
            r2.ok(IC + "getIndex", g.loc(), "returns InfoToIndices.find(in)->second on the found edge, IndexSize otherwise", cfgname)
    # ------------------------------------------------------------------ R3: the key order of the inverse table separates all triples
    r3 = chk.rule("C18-R3", "IndexInfo::operator< is a lexicographic order on (label, orbital, spin): distinct triples are distinct keys of the inverse table", "F8 guards", 1)
    check_lt(r3, db, cfgname, chk.tier == "thorough")
    chk.undecided.append("invariance of physical results under relabelling / ordering mode (relational, value level)")
    chk.note("IndexInfo::operator< orders by a hash of the site label: a hash collision would merge two sites; none can be exhibited statically (information only)")


def check_lt(r3, db, cfgname, thorough=False):
    """IndexInfo::operator< must be a strict weak order under which two IndexInfo are equivalent only if they agree in
    (label hash, orbital, spin).  The comparator only compares / combines three members, so evaluating its extracted body
    on all pairs over a small domain (2 hashes x 4 orbitals x 4 spins: every relative order of every member occurs, and
    enough range to expose packed keys) decides it however it is written; a counterexample is reported with its witness."""
    from pv.summ import Interp, Obj, Thrown
    lt = db.fn(IC + "IndexInfo::operator<", nparams=1)
    II = IC + "IndexInfo::"
    site = IC + "IndexInfo::operator<"
    with r3.guard(site, lt.loc(), cfgname):
        vals = [(h, o, s_) for h in ((1, 2, 3) if thorough else (1, 2)) for o in range(6 if thorough else 4) for s_ in range(6 if thorough else 4)]

        def mk(v):
            return Obj("IndexInfo", **{II + "SiteLabelHash": v[0], II + "Orbital": v[1], II + "Spin": v[2], II + "SiteLabel": "site%d" % v[0]})
        less = {}
        ip = Interp(db, {})
        for x in vals:
            for y in vals:
                try:
                    r_ = ip.call_fn(lt, [mk(y)], this=mk(x))
                except Thrown as t:
                    raise AnalysisBroken("operator< throws (%s) on ordinary values" % t.tt)
                less[(x, y)] = bool(r_)
                ip.steps = 0
        fmt = lambda v: "(hash %d, orbital %d, spin %d)" % v
        bad = None
        for x in vals:
            if less[(x, x)]:
                bad = "it is not irreflexive: %s < itself" % fmt(x)
                break
        if bad is None:
            for x in vals:
                for y in vals:
                    if x != y and not less[(x, y)] and not less[(y, x)]:
                        bad = "%s and %s are different indices but neither is less than the other: they are equivalent keys of the inverse table, one of them is lost" % (fmt(x), fmt(y))
                        break
                    if x != y and less[(x, y)] and less[(y, x)]:
                        bad = "%s < %s and %s < %s both hold: not an order (std::map with this comparator is undefined)" % (fmt(x), fmt(y), fmt(y), fmt(x))
                        break
                if bad:
                    break
        if bad is None:
            # transitivity (a total, antisymmetric, irreflexive relation can still be cyclic)
            for x in vals:
                lx = [y for y in vals if less[(x, y)]]
                for y in lx:
                    for z in vals:
                        if less[(y, z)] and not less[(x, z)]:
                            bad = "%s < %s < %s but not %s < %s: the relation is not transitive" % (fmt(x), fmt(y), fmt(z), fmt(x), fmt(z))
                            break
                    if bad:
                        break
                if bad:
                    break
        if bad:
            r3.bad(site, lt.loc(), "operator< is not an order that separates all (label, orbital, spin) triples: " + bad, cfgname)
        else:
            r3.ok(site, lt.loc(), "strict total order on %d sample triples covering every relative order of hash, orbital and spin (comparator body interpreted)" % len(vals), cfgname)


def _keyval(k, env):
    """integer value of key k under env (key -> int); None if a construct is not understood"""
    if k in env:
        return env[k]
    if k[0] == "lit" and isinstance(k[1], int):
        return k[1]
    if k[0] == "cast":
        return _keyval(k[2], env)
    if k[0] == "op" and len(k) == 4:
        a, b = _keyval(k[2], env), _keyval(k[3], env)
        if a is None or b is None:
            return None
        try:
            return {"+": a + b, "-": a - b, "*": a * b, "<<": a << b, ">>": a >> b, "|": a | b, "&": a & b, "^": a ^ b,
                    "%": a % b if b else None, "/": a // b if b else None}.get(k[1])
        except (ValueError, TypeError):
            return None
    return None


def loop_name(s, so, ss, it):
    return "site" if s is it else ("orbital" if s is so else ("spin" if s is ss else "enclosing"))


def max_idiom(f, ctx, var, sites):
    """var (a local) = max over the map `sites` of SpinSize: init 0, updated in a full iterator loop by the max idiom."""
    d = ctx.decls.get(var[1])
    if d is None or d.get("init") is None or ctx.key(d["init"]) != ("lit", 0):
        return False
    muts = ctx.mut.get(var[1], [])
    if len(muts) != 1:
        return False
    j = muts[0]
    n = f.nodes[j]
    L = enclosing_loops(f, j)
    if len(L) != 1:
        return False
    s = loop_shape(f, ctx, L[0])
    if not (s["kind"] == "iter" and s["bound"] == sites and not s["exits"]):
        return False
    cands = field_of_site("SpinSize", s["var"])
    v = ("var", var[1], var[2])
    if n["k"] == "bin" and n["op"] == "=":
        rk = ctx.key(n["r"])
        rk = rk[2] if rk[0] == "cast" else rk
        if rk[0] == "cond":
            c, a, b = rk[1], rk[2], rk[3]
            for S in cands:
                if (c in (("op", ">", S, v), ("op", "<", v, S), ("op", ">=", S, v), ("op", "<=", v, S)) and a == S and b == v) or \
                   (c in (("op", "<", S, v), ("op", ">", v, S), ("op", "<=", S, v), ("op", ">=", v, S)) and a == v and b == S):
                    return True
        if rk[0] == "call" and rk[1] == "std::max" and v in rk[2:] and set(rk[2:]) & set(cands):
            return True
        if rk in cands:
            fa = guard_facts(f, ctx).get(f.cfg.pos1(j), frozenset())
            if any(("<", v, S) in fa for S in cands):
                return True
    return False


if __name__ == "__main__":
    run_check("C18", "index bookkeeping bijection", body)
