"""C16 — job dispatcher: structural necessary conditions (DESIGN.md §3 C16).
The statement itself (each job exactly once, every rank leaves the loop, for ALL message interleavings)
quantifies over schedules and is NOT decided here; that needs a model checker (another technique family)."""
from pv.check import run_check
from pv.entail import entails
from pv.expr import Ctx, guard_facts, key_contains
from pv.facts import AnalysisBroken, strip_targs
from pv.loops import enclosing_loops, loop_shape, stmts_of, no_early_exit
from pv.spmd import Spmd, comm_roots, msg_tainted, rank_tainted
from checks.c06 import match_arms
from checks.c20 import fact_str

M = "pMPI::MPIMaster::"
W = "pMPI::MPIWorker::"
THIS = ("this",)


def fld(n):
    return ("field", n, THIS)


def enumk(q):
    return lambda k: isinstance(k, tuple) and k[0] == "enum" and k[1] == q


def has_enum(key, q):
    return key_contains(key, enumk(q))


def body(chk, db, cfgname):
    # ================================================================== R1
    r1 = chk.rule("C16-R1", "an order = send(Work, job) + DispatchMap[job]=worker + completion receive posted for that worker; order() pops one job and one worker per order", "F1 pairing", 5)
    f = db.fn(M + "order_worker", nparams=2)
    ctx = Ctx(f, db)
    wk, jb = [("param", p["d"], p["n"]) for p in f.params]
    comm = fld(M + "Comm")
    sends = [j for j, n in f.walk(f.body) if n["k"] == "call" and strip_targs(n.get("cname") or "") == "boost::mpi::communicator::send"]
    site = M + "order_worker:send"
    good = False
    for j in sends:
        k = ctx.key(j)
        if k[2] == comm and len(k) == 6 and k[3] == wk and has_enum(k[4], "pMPI::Work") and k[5] == jb:
            good = True
    if good:
        r1.ok(site, f.loc(sends[0]), "Comm.send(worker, Work, job)", cfgname)
    else:
        r1.bad(site, f.loc(), "order_worker does not send (Work, job) to the worker it was given", cfgname)
    site = M + "order_worker:dispatch-map"
    asg = [j for j, n in f.walk(f.body) if n["k"] == "bin" and n["op"] == "=" and ctx.key(n["l"])[:3] == ("op", "[]", fld(M + "DispatchMap"))]
    if len(asg) == 1 and ctx.key(f.nodes[asg[0]]["l"])[3] == jb and ctx.key(f.nodes[asg[0]]["r"]) == wk:
        r1.ok(site, f.loc(asg[0]), "DispatchMap[job] = worker", cfgname)
    else:
        r1.bad(site, f.loc(asg[0]) if asg else f.loc(), "the job-to-rank map is not recorded as DispatchMap[job] = worker (the returned map would not name the rank that ran the job)", cfgname)
    site = M + "order_worker:completion-receive"
    good = False
    for j, n in f.walk(f.body):
        if n["k"] == "call" and n["ck"] == "op" and n["op"] == "=":
            k = ctx.key(j)
            l, r = k[2], k[3]
            if l == ("op", "[]", fld(M + "wait_statuses"), ("op", "[]", fld(M + "WorkerIndices"), wk)) and r[0] == "mcall" and \
                    r[1] == "boost::mpi::communicator::irecv" and r[2] == comm and r[3] == wk and has_enum(r[4], "pMPI::Pending"):
                good = True
    if good:
        r1.ok(site, f.loc(), "wait_statuses[WorkerIndices[worker]] = Comm.irecv(worker, Pending)", cfgname)
    else:
        r1.bad(site, f.loc(), "no completion receive (irecv(worker, Pending)) is stored in the slot of that worker: the master never learns that the job finished (no re-queueing, no Finish)", cfgname)
    g = db.fn(M + "order", nparams=0)
    gctx = Ctx(g, db)
    gat = guard_facts(g, gctx)
    calls = g.calls(cname=M + "order_worker")
    site = M + "order:pop-both"
    if len(calls) != 1:
        raise AnalysisBroken("MPIMaster::order: expected one call of order_worker")
    C = calls[0]
    fa = gat.get(g.cfg.pos1(C), frozenset())
    ne_w = ("false", ("mcall", "std::stack::empty", fld(M + "WorkerStack"))) in fa
    ne_j = ("false", ("mcall", "std::stack::empty", fld(M + "JobStack"))) in fa
    k = gctx.key(C)
    tops = k[3] == ("mcall", "std::stack::top", fld(M + "WorkerStack")) and k[4] == ("mcall", "std::stack::top", fld(M + "JobStack"))
    L = enclosing_loops(g, C)
    pops = {"WorkerStack": 0, "JobStack": 0}
    if L:
        # per path through one iteration (body and, for a for-loop, its increment): one pop of each stack, after the order
        from pv import paths as P_
        hdr, plist = P_.loop_body_paths(g, L[0])
        per_path = []
        for path in plist:
            ids = P_.nodes_on_path(g, path[1:])
            if C not in ids:
                continue
            cnt = {"WorkerStack": 0, "JobStack": 0}
            for j in ids[ids.index(C) + 1:]:
                n = g.nodes[j]
                if n["k"] == "call" and strip_targs(n.get("cname") or "") == "std::stack::pop":
                    ok_ = gctx.key(n["obj"])
                    if ok_[0] == "field":
                        cnt[ok_[1].split("::")[-1]] = cnt.get(ok_[1].split("::")[-1], 0) + 1
            early = [j for j in ids[:ids.index(C)] if g.nodes[j]["k"] == "call" and strip_targs(g.nodes[j].get("cname") or "") == "std::stack::pop"]
            if early:
                cnt["popped-before-the-order"] = len(early)
            per_path.append(cnt)
        if per_path and all(c_ == per_path[0] for c_ in per_path):
            pops = per_path[0]
        elif per_path:
            pops = {"paths disagree": 1}
    if ne_w and ne_j and tops and pops == {"WorkerStack": 1, "JobStack": 1}:
        r1.ok(site, g.loc(C), "under both stacks non-empty: order_worker(WorkerStack.top(), JobStack.top()), then exactly one pop of each", cfgname)
    else:
        r1.bad(site, g.loc(C), "order() does not pair one job with one idle worker per iteration (non-empty tests: worker %s job %s; tops passed: %s; pops: %s) — a job would be ordered twice or dropped" % (ne_w, ne_j, tops, pops), cfgname)
    site = M + "fill_stack_:all-jobs"
    h = db.fn(M + "fill_stack_", nparams=0)
    hctx = Ctx(h, db)
    good = 0
    for j, n in h.walk(h.body):
        if n["k"] == "for":
            # descending loop i = N-1 .. 0 pushing X[i]
            ini = h.nodes[n["init"]]["vars"][0] if n.get("init") is not None and h.nodes[n["init"]]["k"] == "decl" else None
            if ini is None:
                continue
            v = ("var", ini["d"], ini["n"])
            st = hctx.key(ini["init"])
            c = hctx.cmp_fact(n["c"], True)
            inc = h.nodes[n["inc"]]
            for (bound, vec, stack) in ((fld(M + "Ntasks"), fld(M + "task_numbers"), fld(M + "JobStack")), (fld(M + "Nprocs"), fld(M + "worker_pool"), fld(M + "WorkerStack"))):
                if st == ("op", "-", bound, ("lit", 1)) and c == [("<=", ("lit", 0), v)] and inc["k"] == "un" and inc["op"] == "--":
                    for jj, nn in h.walk(n["body"]):
                        if nn["k"] == "call" and strip_targs(nn.get("cname") or "") == "std::stack::push" and hctx.key(nn["obj"]) == stack and \
                                hctx.key(nn["args"][0], inline=False) == ("op", "[]", vec, v):
                            good += 1
    # verdict by evaluating the extracted body on small pools (the body only copies elements and counts): every task number
    # and every worker is on its stack exactly once, and WorkerIndices maps each worker to its position in worker_pool (the
    # slot of its completion request).  Any loop form gives the same result; the shape analysis above is the fall-back.
    fill_verdict = None
    try:
        from pv.summ import Interp, Obj, Thrown, DMap
        for tasks_, pool_ in (([], [4]), ([7], [4, 2]), ([7, 5, 9], [4, 2, 6]), ([7, 5, 9, 1], [3])):
            this_ = Obj("MPIMaster", **{M + "Ntasks": len(tasks_), M + "Nprocs": len(pool_), M + "task_numbers": list(tasks_), M + "worker_pool": list(pool_),
                                        M + "JobStack": [], M + "WorkerStack": [], M + "WorkerIndices": DMap(lambda: 0)})
            Interp(db, {}).call_fn(h, [], this=this_)
            js, ws, wi = this_.f[M + "JobStack"], this_.f[M + "WorkerStack"], this_.f[M + "WorkerIndices"]
            if sorted(js) != sorted(tasks_):
                fill_verdict = "with tasks %s the job stack becomes %s: not every task exactly once" % (tasks_, js)
            elif sorted(ws) != sorted(pool_):
                fill_verdict = "with the pool %s (and %d tasks) the stack of idle workers becomes %s: not every worker exactly once (a worker that is never idle never gets Finish / the all-idle test can never hold)" % (pool_, len(tasks_), ws)
            elif any(wi.get(w_) != p_ for p_, w_ in enumerate(pool_)):
                fill_verdict = "WorkerIndices does not map each worker to its position in worker_pool (%s for the pool %s): completion requests are stored in the wrong slot" % (dict(wi), pool_)
            if fill_verdict:
                break
        if fill_verdict is None:
            fill_verdict = "ok"
    except (AnalysisBroken, Thrown) as e_:
        fill_verdict = None
        fill_err = str(e_)
    if fill_verdict == "ok":
        r1.ok(site, h.loc(), "every task number and every worker of the pool is pushed once; WorkerIndices[worker_pool[p]] = p (evaluated on 4 pools%s)" % ("; descending full-range loops" if good == 2 else ""), cfgname)
    elif fill_verdict is not None:
        r1.bad(site, h.loc(), "fill_stack_ does not push every task / worker exactly once: " + fill_verdict, cfgname)
    elif good == 2:
        r1.ok(site, h.loc(), "every task number and every worker of the pool is pushed once (descending full-range loops)", cfgname)
    else:
        r1.unknown(site, h.loc(), "fill_stack_: loop form not recognised and the body could not be interpreted (%s)" % fill_err, cfgname)

    # ------------------------------------------------------------------ _autorange_tasks(n): the job ids 0 .. n-1, each once
    site = "pMPI::_autorange_tasks:all-ids"
    at_ = [x for x in db.fns.values() if x.name == "pMPI::_autorange_tasks" and x.body is not None and x.body >= 0]
    if len(at_) == 1:
        with r1.guard(site, at_[0].loc(), cfgname):
            from pv.summ import Interp as _I, Thrown as _T
            badn = None
            for n_ in (0, 1, 3, 5):
                try:
                    out_ = _I(db, {}).call_fn(at_[0], [n_])
                except _T as e_:
                    raise AnalysisBroken("_autorange_tasks throws (%s)" % e_.tt)
                if not isinstance(out_, list) or [int(x) for x in out_] != list(range(n_)):
                    badn = (n_, out_)
                    break
            if badn:
                r1.bad(site, at_[0].loc(), "_autorange_tasks(%d) yields %s instead of the job ids 0..%d: jobs are dispatched under wrong / repeated ids" % (badn[0], badn[1], badn[0] - 1), cfgname)
            else:
                r1.ok(site, at_[0].loc(), "_autorange_tasks(n) == [0, 1, ..., n-1] (evaluated for n = 0, 1, 3, 5)", cfgname)

    # ------------------------------------------------------------------ the delegating constructors: build a complete master, swap it in
    # MPIMaster(comm, ntasks, include_boss) and MPIMaster(comm, tasks, include_boss) initialise Comm only, construct a fully
    # initialised temporary and swap() it into *this.  A member that swap() leaves out stays uninitialised in every master that
    # mpi_skel::run creates (Nprocs, the stacks, the request table ...).
    site = M + "swap:every-member"
    swp = db.fn(M + "swap", nparams=1)
    with r1.guard(site, swp.loc(), cfgname):
        sctx = Ctx(swp, db)
        other = ("param", swp.params[0]["d"], swp.params[0]["n"])
        swapped = set()
        for j in swp.calls():
            n_ = swp.nodes[j]
            short_ = strip_targs(n_.get("cname") or "").split("::")[-1]
            ks_ = []
            if short_ == "swap" and n_.get("ck") == "func" and len(n_["args"]) == 2:
                ks_ = [sctx.key(a_, inline=False) for a_ in n_["args"]]
            elif short_ == "swap" and n_.get("ck") == "method" and n_.get("obj") is not None and len(n_["args"]) == 1:
                ks_ = [sctx.key(n_["obj"], inline=False), sctx.key(n_["args"][0], inline=False)]
            if len(ks_) == 2 and all(k_[0] == "field" and len(k_) == 3 for k_ in ks_) and ks_[0][1] == ks_[1][1] and {ks_[0][2], ks_[1][2]} == {("this",), other}:
                swapped.add(ks_[0][1].split("::")[-1])
        allf = [f_["n"] for f_ in db.records["pMPI::MPIMaster"]["fields"]]
        deleg = [c_ for c_ in db.fns_named("pMPI::MPIMaster::MPIMaster") if c_.kind == "ctor" and c_.body is not None and c_.body >= 0 and
                 any(strip_targs(c_.nodes[j].get("cname") or "") == "pMPI::MPIMaster::swap" for j in c_.calls())]
        if not deleg:
            raise AnalysisBroken("no constructor of MPIMaster delegates through swap()")
        if not swapped:
            raise AnalysisBroken("MPIMaster::swap does not exchange members one by one (another form of swap): not analysed")
        missing_ = {}
        for c_ in deleg:
            own = {i_.get("field") for i_ in c_.d.get("inits", []) if i_.get("field") and i_.get("written")}
            miss = [f_ for f_ in allf if f_ not in swapped and f_ not in own]
            if miss:
                missing_[c_.sig] = miss
        if not missing_:
            r1.ok(site, swp.loc(), "swap() exchanges %d members; with the ones the delegating constructors initialise themselves that is every member of MPIMaster" % len(swapped), cfgname)
        else:
            sig_, miss = sorted(missing_.items())[0]
            r1.bad(site, swp.loc(), "member(s) %s are neither exchanged by swap() nor initialised by the delegating constructor %s: they keep an indeterminate value in every master built from (communicator, tasks, include_boss)" % (
                ", ".join(miss), sig_[:80]), cfgname)

    # ================================================================== R2
    r2 = chk.rule("C16-R2", "worker state machine: receive re-posted after every order, cancelled iff Finish; completion report resets the state; members initialised before the receive captures them", "F2 typestate", 5)
    f = db.fn(W + "receive_order", nparams=0)
    ctx = Ctx(f, db)
    at = guard_facts(f, ctx)
    status = fld(W + "Status")
    req = fld(W + "req")
    site = W + "receive_order:only-when-pending"
    tests = [j for j, n in f.walk(f.body) if n["k"] == "call" and strip_targs(n.get("cname") or "") == "boost::mpi::request::test"]
    if len(tests) != 1:
        raise AnalysisBroken("receive_order: expected one req.test()")
    fa = at.get(f.cfg.pos1(tests[0]), frozenset())
    if any(x[0] == "==" and status in (x[1], x[2]) and (has_enum(x[1], "pMPI::Pending") or has_enum(x[2], "pMPI::Pending")) for x in fa):
        r2.ok(site, f.loc(tests[0]), "the receive is polled only while Status == Pending", cfgname)
    else:
        r2.bad(site, f.loc(tests[0]), "the receive is polled although the worker is not Pending (a working rank would consume the next order and lose the current job)", cfgname)
    # after a successful test: status from tag, receive re-posted, cancelled iff finished
    stset = [j for j, n in f.walk(f.body) if n["k"] == "bin" and n["op"] == "=" and ctx.key(n["l"]) == status]
    repost = [j for j, n in f.walk(f.body) if n["k"] == "call" and n["ck"] == "op" and n["op"] == "=" and ctx.key(n["args"][0]) == req]
    site = W + "receive_order:repost"
    good = False
    if len(stset) == 1 and len(repost) == 1:
        rk = ctx.key(f.nodes[repost[0]]["args"][1])
        sk = ctx.key(f.nodes[stset[0]]["r"])
        tagged = key_contains(sk, lambda k: k[0] == "mcall" and k[1] == "boost::mpi::status::tag")
        okr = rk[0] == "mcall" and rk[1] == "boost::mpi::communicator::irecv" and rk[2] == fld(W + "Comm") and rk[3] == fld(W + "boss") and rk[5] == fld(W + "current_job_")
        fa2 = at.get(f.cfg.pos1(repost[0]), frozenset())
        succeeded = any(x[0] == "true" and key_contains(x[1], lambda k: k[0] == "mcall" and k[1] == "boost::mpi::request::test") for x in fa2) or \
            any(x[0] == "true" and x[1][0] == "mcall" and "optional" in x[1][1] for x in fa2)
        samepath = f.cfg.pos1(stset[0])[0] == f.cfg.pos1(repost[0])[0]
        good = tagged and okr and succeeded and samepath
    if good:
        r2.ok(site, f.loc(repost[0]), "on a completed receive: Status = tag, then req = Comm.irecv(boss, any tag, current_job_)", cfgname)
    else:
        r2.bad(site, f.loc(), "after a completed receive the worker does not (always) take its state from the message tag and re-post the receive into current_job_: the next order is never seen (hang) or arrives in a stale buffer", cfgname)
    site = W + "receive_order:cancel-iff-finish"
    canc = [j for j, n in f.walk(f.body) if n["k"] == "call" and strip_targs(n.get("cname") or "") == "boost::mpi::request::cancel"]
    good = False
    if len(canc) == 1 and repost:
        fa3 = at.get(f.cfg.pos1(canc[0]), frozenset())
        fin = any((x[0] == "true" and x[1][0] == "mcall" and x[1][1] == W + "is_finished") or
                  (x[0] == "==" and status in (x[1], x[2]) and (has_enum(x[1], "pMPI::Finish") or has_enum(x[2], "pMPI::Finish"))) for x in fa3)
        good = fin and f.cfg.dominates(f.cfg.pos1(repost[0]), f.cfg.pos1(canc[0]))
    if good:
        r2.ok(site, f.loc(canc[0]), "the re-posted receive is cancelled exactly when the state became Finish", cfgname)
    else:
        r2.bad(site, f.loc(canc[0]) if canc else f.loc(), "the outstanding receive is not cancelled exactly under Finish (dangling request at exit, or cancelled while more orders follow)", cfgname)
    g = db.fn(W + "report_job_done", nparams=0)
    gctx = Ctx(g, db)
    site = W + "report_job_done"
    snd = [j for j, n in g.walk(g.body) if n["k"] == "call" and strip_targs(n.get("cname") or "") == "boost::mpi::communicator::send"]
    rst = [j for j, n in g.walk(g.body) if n["k"] == "bin" and n["op"] == "=" and gctx.key(n["l"]) == status and has_enum(gctx.key(n["r"]), "pMPI::Pending")]
    good = False
    if len(snd) == 1 and len(rst) == 1:
        k = gctx.key(snd[0])
        good = k[2] == fld(W + "Comm") and k[3] == fld(W + "boss") and has_enum(k[4], "pMPI::Pending") and len(k) == 5
    if good:
        r2.ok(site, g.loc(), "Comm.send(boss, Pending) and Status = Pending", cfgname)
    else:
        r2.bad(site, g.loc(), "completion is not reported as send(boss, Pending) with the state reset to Pending (the master's irecv(worker, Pending) never completes)", cfgname)
    # member initialisation order
    rec = db.records.get("pMPI::MPIWorker")
    if rec is None:
        raise AnalysisBroken("record pMPI::MPIWorker not found")
    order = [x["n"] for x in rec["fields"]]
    ctor = [x for x in db.fns_named("pMPI::MPIWorker::MPIWorker") if x.kind == "ctor" and len(x.params) == 2]
    if len(ctor) != 1:
        raise AnalysisBroken("MPIWorker constructor not found")
    c = ctor[0]
    cctx = Ctx(c, db)
    site = "pMPI::MPIWorker::MPIWorker:init-order"
    problems = []
    for ini in c.d.get("inits", []):
        fn_ = ini.get("field")
        if fn_ is None:
            continue
        k = cctx.key(ini["e"])
        used = set()
        key_contains(k, lambda y: (used.add(y[1].split("::")[-1]) if (y[0] == "field" and len(y) == 3 and y[2] == THIS) else None) and False)
        for u in used:
            if u in order and order.index(u) > order.index(fn_):
                problems.append("%s is initialised from %s, which is declared (hence initialised) after it" % (fn_, u))
    if problems:
        r2.bad(site, c.loc(), "; ".join(problems) + ": the non-blocking receive captures / reads an uninitialised member", cfgname)
    else:
        r2.ok(site, c.loc(), "every member used by an initialiser (Comm, boss, current_job_) is declared before the member it initialises (req, id)", cfgname)

    # ================================================================== R3
    r3 = chk.rule("C16-R3", "Finish is sent only when no job is left and all workers are idle, at most once per worker; every completed worker is re-queued", "F1 dominance", 3)
    f = db.fn(M + "check_workers", nparams=0)
    ctx = Ctx(f, db)
    at = guard_facts(f, ctx)
    sends = [j for j, n in f.walk(f.body) if n["k"] == "call" and strip_targs(n.get("cname") or "") == "boost::mpi::communicator::send" and has_enum(ctx.key(j), "pMPI::Finish")]
    if not sends:
        raise AnalysisBroken("check_workers: no send of Finish")
    for sj in sends:
        fa = at.get(f.cfg.pos1(sj), frozenset())
        site = M + "check_workers:finish-condition"
        c1 = ("true", ("mcall", "std::stack::empty", fld(M + "JobStack"))) in fa
        c2 = entails(fa, ("<=", fld(M + "Nprocs"), ("mcall", "std::stack::size", fld(M + "WorkerStack"))))
        if c1 and c2:
            r3.ok(site, f.loc(sj), "Finish is sent under JobStack.empty() and WorkerStack.size() >= Nprocs", cfgname)
        else:
            r3.bad(site, f.loc(sj), "Finish can be sent while %s: a worker leaves the loop although work remains / is in flight" % (
                "jobs are still queued" if not c1 else "not all workers are idle"), cfgname)
        site = M + "check_workers:finish-once"
        k = ctx.key(sj)
        L = enclosing_loops(f, sj)
        shp = loop_shape(f, ctx, L[0]) if L else None
        once = False
        full = shp is not None and shp["kind"] == "index" and shp["start"] == ("lit", 0) and shp["rel"] == "<" and shp["bound"] == fld(M + "Nprocs") and not shp["exits"]
        if full:
            v = shp["var"]
            flag = ("op", "[]", fld(M + "workers_finish"), v)
            guarded = any(x[0] == "false" and key_contains(x[1], lambda y: y == flag) for x in fa)
            setj = [j for j, n in f.walk(f.nodes[L[0]]["body"]) if (n["k"] in ("bin", "call")) and ctx.key(j, inline=False)[:3] == ("op", "=", flag) and ctx.key(j, inline=False)[3] == ("lit", 1)]
            to_right = k[3] == ("op", "[]", fld(M + "worker_pool"), v)
            once = guarded and to_right and len(setj) == 1 and f.cfg.pos1(setj[0])[0] == f.cfg.pos1(sj)[0]
        if once:
            r3.ok(site, f.loc(sj), "for every i < Nprocs: sent to worker_pool[i] only if !workers_finish[i], and the flag is set on the same path", cfgname)
        else:
            r3.bad(site, f.loc(sj), "Finish is not sent exactly once to every worker of the pool (flag test / flag update / full loop over the pool missing): a second Finish overlaps the next dispatch round, or a worker never receives it", cfgname)
    # liveness side of the same decision: the Finish decision is taken on EVERY call of check_workers (the caller spins on it);
    # a return before it -- "nothing changed since the last call" -- means that a round with no job (nothing ever changes) or a
    # round whose last completion was seen in an earlier call never sends Finish
    site = M + "check_workers:finish-decided-every-call"
    from checks.lehmann import early_exits_before
    ee = early_exits_before(f, sends[0])
    # a return taken exactly when the Finish condition does not hold IS the decision (guard-clause form of the same test):
    # every alternative under which it is taken must contain `jobs are left` or `not all workers idle`
    def _is_decision(rnode):
        par = None
        for a_ in f.ancestors(rnode):
            if f.nodes[a_]["k"] == "if":
                par = a_
                break
        if par is None:
            return False
        inthen = any(x_ == rnode for x_, _ in f.walk(f.nodes[par]["then"]))
        alts = ctx.cmp_dnf(f.nodes[par]["c"], inthen)
        if not alts:
            return False
        jobs_left = ("false", ("mcall", "std::stack::empty", fld(M + "JobStack")))
        for alt in alts:
            busy = False
            try:
                busy = entails(frozenset(alt), ("<", ("mcall", "std::stack::size", fld(M + "WorkerStack")), fld(M + "Nprocs")))
            except Exception:
                busy = False
            if not (jobs_left in alt or busy):
                return False
        return True
    ee = [r_ for r_ in ee if not _is_decision(r_)]
    if ee:
        fa_ = at.get(f.cfg.pos1(ee[0]), frozenset())
        from checks.c20 import fact_str as _fs
        about_done = any(key_contains(("x",) + tuple(y for y in x[1:] if isinstance(y, tuple)), lambda y: y == fld(M + "workers_finish") or (y[0] == "mcall" and y[1].endswith("::is_finished"))) for x in fa_)
        if about_done:
            r3.unknown(site, f.loc(ee[0]), "check_workers returns early under a condition on the Finish flags themselves (%s): whether nothing is left to send then is not analysed" % "; ".join(sorted(str(_fs(x))[:60] for x in fa_)), cfgname)
        else:
            r3.bad(site, f.loc(ee[0]), "check_workers can return before the `no job left and all workers idle` decision (when {%s}): in a round without jobs, or when the deciding state was reached in an earlier call, Finish is never sent and no rank leaves the dispatch loop" % (
                "; ".join(sorted(str(_fs(x))[:60] for x in fa_)) or "a condition holds"), cfgname)
    else:
        r3.ok(site, f.loc(sends[0]), "every call reaches the Finish decision", cfgname)
    site = M + "check_workers:requeue"
    good = False
    for j, n in f.walk(f.body):
        if n["k"] == "call" and strip_targs(n.get("cname") or "") == "std::stack::push" and ctx.key(n["obj"]) == fld(M + "WorkerStack"):
            L = enclosing_loops(f, j)
            shp = loop_shape(f, ctx, L[0]) if L else None
            if shp and shp["kind"] == "index" and shp["start"] == ("lit", 0) and shp["bound"] == fld(M + "Nprocs") and not shp["exits"]:
                v = shp["var"]
                fa = at.get(f.cfg.pos1(j), frozenset())
                tested = any(x[0] == "true" and key_contains(x[1], lambda y: y[0] == "mcall" and y[1] == "boost::mpi::request::test" and y[2] == ("op", "[]", fld(M + "wait_statuses"), v)) for x in fa)
                if tested and ctx.key(n["args"][0], inline=False) == ("op", "[]", fld(M + "worker_pool"), v):
                    good = True
    if good:
        r3.ok(site, f.loc(), "for every i < Nprocs: worker_pool[i] is pushed back iff wait_statuses[i].test() completed", cfgname)
    else:
        r3.bad(site, f.loc(), "a worker whose completion message arrived is not re-queued (or the wrong worker is)", cfgname)

    # ================================================================== R4
    r4 = chk.rule("C16-R4", "dissemination of the job map: root and non-root issue matching broadcasts; the dispatch loop is collective-free", "F3 SPMD", 6)
    sp = Spmd(db)
    runs = [x for x in db.fns.values() if strip_targs(x.name) == "pMPI::mpi_skel::run"]
    if len(runs) < 3:
        raise AnalysisBroken("expected three instantiations of mpi_skel::run, found %d" % len(runs))
    for f in sorted(runs, key=lambda x: x.qn):
        ctx = sp.ctx(f)
        items = sp.seq(f, f.body)
        nb = 0
        for it in items:
            if it["kind"] == "branch" and rank_tainted(it["cond"]) and it["then"] and it["else"]:
                nb += 1
                why = match_arms(f, sp, ctx, f.nodes[it["node"]], it["then"], it["else"])
                site = "%s:job-map-broadcast" % f.qn
                if why is None:
                    r4.ok(site, f.loc(it["node"]), "root and non-root arms broadcast (jobs, workers) from the same root on the same communicator", cfgname)
                else:
                    r4.bad(site, f.loc(it["node"]), "the job map is not disseminated consistently: " + why, cfgname)
        if nb == 0:
            r4.bad("%s:job-map-broadcast" % f.qn, f.loc(), "no matching pair of broadcast arms found: the job map is not disseminated to the other ranks", cfgname)
        # the two broadcast vectors are the dispatch map, unzipped in ONE iteration order, and re-zipped on the other ranks
        with r4.guard("%s:job-map-unzip" % f.qn, f.loc(), cfgname):
            check_unzip(r4, f, sp, ctx, items, cfgname)
        # the map returned on non-root ranks is rebuilt from the two broadcast vectors
        site = "%s:dispatch-loop" % f.qn
        loops = [j for j, n in f.walk(f.body) if n["k"] in ("for", "while", "do") and n.get("c") is not None and msg_tainted(ctx.key(n["c"]))]
        if len(loops) != 1:
            raise AnalysisBroken("%s: expected one message-driven dispatch loop" % f.qn)
        inner = sp.seq(f, f.nodes[loops[0]]["body"])
        if inner:
            first = next(Spmd.flat(inner))
            r4.bad(site, f.loc(first["node"]), "collective %s inside the dispatch loop, whose iteration count differs between ranks" % first["op"], cfgname)
        else:
            r4.ok(site, f.loc(loops[0]), "no collective inside the message-driven loop", cfgname)

    # ================================================================== R5
    r5 = chk.rule("C16-R5", "the complexity comparator handed to std::sort is a strict weak order", "F8 guards", 3)
    for f in sorted(runs, key=lambda x: x.qn):
        ctx = sp.ctx(f)
        sorts = f.calls(callee_re=r"^std::sort")
        for sj in sorts:
            n = f.nodes[sj]
            if len(n["args"]) != 3:
                continue
            ftype = f.nodes[n["args"][2]].get("t", "")
            bodies = [x for x in db.fns.values() if ftype and ftype in x.qn and x.qn.startswith(f.qn) and any(m["k"] == "return" and m.get("sub") is not None and
                      x.nodes[m["sub"]]["k"] == "bin" for m in x.nodes)]
            # a closure as comparator: its call operator is a function of its own
            an = f.nodes[n["args"][2]]
            for _ in range(4):
                if an["k"] == "construct" and an.get("args"):
                    an = f.nodes[an["args"][0]]
                elif an["k"] == "cast":
                    an = f.nodes[an["sub"]]
                else:
                    break
            if not bodies and an["k"] == "call" and an.get("lambda") and an.get("cm") in db.fns:
                bodies = [db.fns[an["cm"]]]
            if not bodies and an["k"] == "ref" and an.get("dk") == "local" and ctx.decls.get(an["d"], {}).get("init") is not None:
                ln = f.nodes[ctx.decls[an["d"]]["init"]]
                while ln["k"] in ("construct", "cast") and (ln.get("args") or ln.get("sub") is not None):
                    ln = f.nodes[ln["args"][0] if ln["k"] == "construct" else ln["sub"]]
                if ln["k"] == "call" and ln.get("lambda") and ln.get("cm") in db.fns:
                    bodies = [db.fns[ln["cm"]]]
            site = "%s:sort-comparator" % f.qn
            if not bodies:
                raise AnalysisBroken("%s: comparator body for %s not found" % (f.qn, ftype))
            for b in bodies:
                for m in b.nodes:
                    if m["k"] == "return" and m.get("sub") is not None and b.nodes[m["sub"]]["k"] == "bin":
                        op = b.nodes[m["sub"]]["op"]
                        bctx = Ctx(b, db)
                        l, r = bctx.key(b.nodes[m["sub"]]["l"]), bctx.key(b.nodes[m["sub"]]["r"])
                        if op in ("<", ">") and l != r:
                            r5.ok(site, b.loc(m["sub"]), "comparator returns a strict comparison (%s)" % op, cfgname)
                        else:
                            r5.bad(site, b.loc(m["sub"]), "comparator uses '%s': not a strict weak ordering — std::sort has undefined behaviour as soon as two jobs have equal complexity" % op, cfgname)

    r6 = chk.rule("C16-R6", "every rank that runs the worker loop is enrolled in the master's worker pool (so that it receives Finish)", "F1 full-range", 3)
    check_pool(r6, db, cfgname, sp, runs)

    r7 = chk.rule("C16-R7", "the master reports finished exactly when Finish has been sent to every worker of its pool (the dedicated-master loop `while(!is_finished())` neither leaves workers polling nor spins forever)", "F4 state predicate, interpreted over all flag patterns", 1)
    check_master_finished(r7, db, cfgname, 6 if chk.tier == "thorough" else 3)

    chk.undecided.append("exactly-once execution and termination for every interleaving of messages and job executions, and across consecutive rounds on one communicator (schedule quantifier: needs model checking of the protocol, a different technique family)")
    chk.trusted.append("Boost.MPI request semantics (test() of a completed non-blocking receive returns the status once)")


def check_unzip(r4, f, sp, ctx, items, cfgname):
    site = "%s:job-map-unzip" % f.qn
    br = [it for it in items if it["kind"] == "branch" and rank_tainted(it["cond"]) and it["then"] and it["else"]]
    if len(br) != 1:
        raise AnalysisBroken("expected one root / non-root dissemination branch")
    root_arm, other_arm = br[0]["then"], br[0]["else"]
    # which arm is the root's? the one whose condition fact makes rank == ROOT
    tf = ctx.cmp_fact(br[0]["condnode"], True)
    if not any(x[0] == "==" for x in tf):
        root_arm, other_arm = other_arm, root_arm
    rb = [x for x in Spmd.flat(root_arm) if x["op"] == "boost::mpi::broadcast"]
    ob = [x for x in Spmd.flat(other_arm) if x["op"] == "boost::mpi::broadcast"]
    if len(rb) != 2 or len(ob) != 2:
        raise AnalysisBroken("expected two broadcasts (jobs, workers) in each arm")
    vj, vw = rb[0]["payload"], rb[1]["payload"]
    if vj[0] != "var" or vw[0] != "var":
        raise AnalysisBroken("broadcast payloads are not local vectors")

    def sources(v):
        """how vector v is filled: list of (kind, key of the stored value, enclosing loop node)"""
        out = []
        dv = ctx.decls.get(v[1], {})
        if dv.get("init") is not None:
            ik = ctx.key(dv["init"])
            # vector(n) / vector(n, x): sized only;  vector(other container): copy
            n_ = f.nodes[dv["init"]]
            if n_["k"] == "construct" and n_["args"] and "vector" in (f.nodes[n_["args"][0]].get("t") or ""):
                out.append(("copy", ctx.key(n_["args"][0]), None))
            elif n_["k"] != "construct" and "vector" in (n_.get("t") or ""):
                out.append(("copy", ik, None))      # copy-initialised from another container (elided copy constructor)
        for m in ctx.mut.get(v[1], []):
            mn = f.nodes[m]
            L = enclosing_loops(f, m)
            if mn["k"] == "bin" and mn["op"] == "=":
                out.append(("elem", ctx.key(mn["r"], inline=False), L[0] if L else None, ctx.key(mn["l"], inline=False)))
            elif mn["k"] == "call" and strip_targs(mn.get("cname") or "").endswith("::push_back"):
                out.append(("push", ctx.key(mn["args"][0], inline=False), L[0] if L else None))
            elif mn["k"] == "call" and strip_targs(mn.get("cname") or "").split("::")[-1] in ("reserve",):
                continue
            elif mn["k"] == "call" and sp.classify(f, m) is not None:
                continue      # the broadcast itself
            else:
                out.append(("other", ctx.key(m, inline=False), None))
        return out
    sj, sw_ = sources(vj), sources(vw)

    def it_of(src, which):
        k = src[1]
        if k[0] == "field" and k[1] == "std::pair::" + which and k[2][0] == "op" and k[2][1] in ("->", "*") and k[2][2][0] == "var":
            return k[2][2]
        return None
    fj = [s_ for s_ in sj if s_[0] in ("elem", "push")]
    fw = [s_ for s_ in sw_ if s_[0] in ("elem", "push")]
    copies = [s_ for s_ in sj + sw_ if s_[0] in ("copy", "other")]
    if len(fj) == 1 and len(fw) == 1 and not copies:
        ij, iw = it_of(fj[0], "first"), it_of(fw[0], "second")
        same_loop = fj[0][2] is not None and fj[0][2] == fw[0][2]
        if ij is not None and iw is not None and ij[:2] == iw[:2] and same_loop:
            # the iterator walks the map the root returns
            dv = ctx.decls.get(ij[1], {})
            src = ctx.key(dv["init"]) if dv.get("init") is not None else None
            while src is not None and src[0] in ("ctor", "cast") and len(src) == 3:
                src = src[2]
            ok_src = src is not None and src[0] == "mcall" and src[1] == "std::map::begin"
            lpn = f.nodes[fj[0][2]]
            in_loop = {x for part in ("body", "inc") if lpn.get(part) is not None for x, _ in f.walk(lpn[part])}
            adv = [m for m in ctx.mut.get(ij[1], []) if m in in_loop]
            if ok_src and len(adv) == 1:
                r4.ok(site, f.loc(fj[0][2]), "jobs[i] = it->first and workers[i] = it->second from the same iterator over the dispatch map, advanced once per entry", cfgname)
            else:
                r4.bad(site, f.loc(fj[0][2]), "the iterator that feeds jobs[] and workers[] does not walk the dispatch map one entry per element", cfgname)
        elif ij is None or iw is None:
            raise AnalysisBroken("jobs / workers are not filled from ->first / ->second of a map iterator")
        else:
            r4.bad(site, f.loc(), "jobs[] and workers[] are filled from different iterators / loops: element i of one does not belong to element i of the other", cfgname)
    else:
        srcs_j = sorted({fact_str(("true", s_[1])) for s_ in sj})
        srcs_w = sorted({fact_str(("true", s_[1])) for s_ in sw_})
        if copies and (fj or fw or len(copies) == 2):
            r4.bad(site, f.loc(), "the job ids are taken from %s while the worker ids are taken from %s: the two sequences are in different orders (hand-out order vs. map order), so the map rebuilt on the other ranks "
                   "as job_map[jobs[i]] = workers[i] pairs jobs with the wrong ranks" % (srcs_j, srcs_w), cfgname)
        else:
            raise AnalysisBroken("cannot resolve how the broadcast vectors are filled")
    # non-root: job_map[jobs[i]] = workers[i] for all i, with jobs / workers the vectors received in the same positions
    oj, ow = ob[0]["payload"], ob[1]["payload"]
    site2 = "%s:job-map-rezip" % f.qn
    good = False
    for j, n in f.walk(f.body):
        if n["k"] == "bin" and n["op"] == "=":
            lk = ctx.key(n["l"], inline=False)
            rk = ctx.key(n["r"], inline=False)
            if lk[0] == "op" and lk[1] == "[]" and lk[3][0] == "op" and lk[3][1] == "[]" and lk[3][2][:2] == oj[:2] and rk[0] == "op" and rk[1] == "[]" and rk[2][:2] == ow[:2] and lk[3][3] == rk[3]:
                L = enclosing_loops(f, j)
                shp = loop_shape(f, ctx, L[0]) if L else None
                if shp is not None and shp["kind"] == "index" and shp["start"] == ("lit", 0) and no_early_exit(shp) and shp["bound"] in (("mcall", "std::vector::size", oj), ("mcall", "std::vector::size", ow)):
                    good = True
    if good:
        r4.ok(site2, f.loc(), "job_map[jobs[i]] = workers[i] for every received i", cfgname)
    else:
        r4.bad(site2, f.loc(), "the non-root ranks do not rebuild the map as job_map[jobs[i]] = workers[i] over all received entries (first broadcast = job ids, second = worker ids)", cfgname)


def check_pool(r6, db, cfgname, sp, runs):
    """every rank that runs the worker loop is enrolled in the master's worker pool"""
    # ================================================================== R6
    aw = [x for x in db.fns.values() if x.name == "pMPI::_autorange_workers"]
    if len(aw) != 1:
        raise AnalysisBroken("pMPI::_autorange_workers not found")
    f = aw[0]
    ctx = Ctx(f, db)
    at = guard_facts(f, ctx)
    commp = [p for p in f.params if "communicator" in p["t"]]
    boss = [p for p in f.params if p["t"] == "bool"]
    site = "pMPI::_autorange_workers:pool"
    good = False
    why = "no loop over the ranks of the communicator pushing them into the pool"
    if commp and boss:
        ck = ("param", commp[0]["d"], commp[0]["n"])
        bk = ("param", boss[0]["d"], boss[0]["n"])
        for j, n in f.walk(f.body):
            if n["k"] == "call" and strip_targs(n.get("cname") or "") == "std::vector::push_back":
                L = enclosing_loops(f, j)
                if not L:
                    continue
                shp = loop_shape(f, ctx, L[0])
                if shp["kind"] != "index" or shp["start"] != ("lit", 0) or shp["rel"] != "<" or shp["bound"] != ("mcall", "boost::mpi::communicator::size", ck) or shp["exits"]:
                    why = "the loop that enrols workers does not run over every rank p in [0, comm.size()) (extra stop condition or early exit): ranks left out never receive Finish and spin forever in mpi_skel::run"
                    continue
                v = shp["var"]
                if ctx.key(n["args"][0], inline=False)[:2] != v[:2]:
                    why = "the value pushed into the pool is not the rank p"
                    continue
                # the only admissible filter: skip the boss when include_boss is false.  Decided path by path: every feasible
                # path through one iteration that does not push p must have established `include_boss is false` and `p == comm.rank()`.
                from pv import paths as P_
                hdr_, plist_ = P_.loop_body_paths(f, L[0])
                if not plist_:
                    raise AnalysisBroken("_autorange_workers: the paths of the enrolment loop cannot be enumerated")
                extra = None
                isrank_ = lambda y: y[0] == "mcall" and y[1] == "boost::mpi::communicator::rank" and y[2] == ck
                for pth in plist_:
                    ids_ = P_.nodes_on_path(f, pth[1:])
                    if j in ids_:
                        continue
                    pf_ = P_.path_facts(f, ctx, pth)
                    if not P_.feasible(pf_):
                        continue
                    noboss = any(x == ("false", bk) or (x[0] == "==" and bk in x[1:] and ("lit", 0) in x[1:]) for x in pf_)
                    isboss = any(x[0] == "==" and key_contains(x[1], isrank_) != key_contains(x[2], isrank_) and
                                 (key_contains(x[1], lambda y: y[:2] == v[:2]) or key_contains(x[2], lambda y: y[:2] == v[:2])) for x in pf_)
                    if not (noboss and isboss):
                        extra = sorted(fact_str(x) for x in pf_ if key_contains(x, lambda y: y[:2] == v[:2]) and not (x[0] == "<" and x[1][:2] == v[:2]))
                        break
                if extra is not None:
                    why = "a rank is left out of the pool on a path that is not `the boss, when include_boss is false` (conditions on that path: %s)" % ("; ".join(extra)[:200] or "none")
                    continue
                good = True
    if good:
        r6.ok(site, f.loc(), "every rank of the communicator (except the boss when include_boss is false) is enrolled", cfgname)
    else:
        r6.bad(site, f.loc(), why, cfgname)
    for f in sorted(runs, key=lambda x: x.qn):
        ctx = sp.ctx(f)
        site = "%s:master-includes-all-ranks" % f.qn
        news = [j for j, n in f.walk(f.body) if n["k"] == "new" and n["at"] == "pMPI::MPIMaster"]
        good = False
        for j in news:
            k = ctx.key(j)
            a = k[2]
            commk = [("param", p["d"], p["n"]) for p in f.params if "communicator" in p["t"]][0]
            if a[0] == "ctor" and len(a) == 5 and a[2] == commk and a[4] == ("lit", 1):
                good = True
        # the converse: every rank that is in the pool runs the worker loop (otherwise the Finish sent to it stays queued in
        # the communicator and is matched by the first receive of the next dispatch round on it)
        wl = [j for j, n in f.walk(f.body) if n["k"] in ("for", "while") and any(nn["k"] in ("decl",) and any("MPIWorker" in (v.get("t") or "") for v in nn["vars"]) for jj, nn in f.walk(j) if nn["k"] == "decl")]
        wdecl = [j for j, n in f.walk(f.body) if n["k"] == "decl" and any("MPIWorker" in (v.get("t") or "") for v in n["vars"])]
        site2 = "%s:every-rank-runs-the-worker-loop" % f.qn
        if not wdecl:
            r6.unknown(site2, f.loc(), "no MPIWorker is declared in the run function (form not analysed)", cfgname)
        else:
            fa_w = guard_facts(f, ctx).get(f.cfg.pos1(wdecl[0]), frozenset())
            isrank = lambda y: y[0] == "mcall" and y[1] == "boost::mpi::communicator::rank"
            dep = [x for x in fa_w if key_contains(x, isrank)]
            # conditions that the must-dataflow cannot express as one fact (a || b): look at the enclosing if statements
            prev_ = wdecl[0]
            for a_ in f.ancestors(wdecl[0]):
                an = f.nodes[a_]
                if an["k"] == "if" and key_contains(ctx.key(an["c"]), isrank):
                    inthen = prev_ == an.get("then") or any(jj == wdecl[0] for jj, _ in f.walk(an["then"]))
                    dep.append(("true" if inthen else "false", ctx.key(an["c"])))
                prev_ = a_
            if dep:
                r6.bad(site2, f.loc(wdecl[0]), "the worker loop is entered only when %s, but the master enrols every rank of the communicator and sends each of them Finish: on a rank that skips the loop the message stays queued and is taken for the first order of the next dispatch round on this communicator, which then never ends" % (
                    " and ".join(sorted(fact_str(x) for x in dep))[:160]), cfgname)
            else:
                r6.ok(site2, f.loc(wdecl[0]), "the worker is created and polled on every rank (no rank-dependent condition guards the loop)", cfgname)
        if good:
            r6.ok(site, f.loc(), "MPIMaster(comm, jobs, include_boss=true): every rank, including the root, runs the worker loop and is in the pool", cfgname)
        else:
            r6.bad(site, f.loc(), "the master is not created over the communicator of the run with include_boss = true, although every rank (the root included) polls an MPIWorker until Finish", cfgname)
    for c in [x for x in db.fns_named("pMPI::MPIMaster::MPIMaster") if x.kind == "ctor" and len(x.params) == 3 and x.params[2]["t"] == "bool"]:
        ctx = Ctx(c, db)
        site = "%s:pool-from-communicator" % c.sig
        ck = ("param", c.params[0]["d"], c.params[0]["n"])
        bk = ("param", c.params[2]["d"], c.params[2]["n"])
        good = False
        for j, n in c.walk(c.body):
            if n["k"] in ("construct",) and strip_targs(n.get("crec") or "") == "pMPI::MPIMaster" and len(n["args"]) == 3:
                wk = ctx.key(n["args"][1])
                if wk[0] == "call" and wk[1] == "pMPI::_autorange_workers" and len(wk) >= 4 and wk[2] == ck and wk[3] == bk and ctx.key(n["args"][0]) == ck:
                    good = True
        if good:
            r6.ok(site, c.loc(), "delegates with _autorange_workers(comm, include_boss) over the same communicator", cfgname)
        else:
            r6.bad(site, c.loc(), "the worker pool is not _autorange_workers(comm, include_boss) of the constructor's own communicator (the pool depends on something else than the set of ranks)", cfgname)




def check_master_finished(r7, db, cfgname, maxn=3):
    """MPIMaster::is_finished() only counts / compares the per-worker `Finish sent` flags, so its extracted body is evaluated for
    every flag pattern of pools of 1..3 workers, with the job and idle-worker stacks empty and non-empty: it must be true exactly
    when every flag is set, and must not depend on the stacks (check_workers sends Finish and sets the flags in the same step,
    which C16-R3 decides)."""
    import itertools
    from pv.summ import Interp, Obj, Thrown
    M = "pMPI::MPIMaster"
    f = db.fn(M + "::is_finished", nparams=0)
    site = M + "::is_finished"
    with r7.guard(site, f.loc(), cfgname):
        cases = 0
        for n in range(1, maxn + 1):
            for flags in itertools.product((False, True), repeat=n):
                for jobs in ([], [7]):
                    for idle in range(n + 1):
                        this = Obj("MPIMaster", **{M + "::workers_finish": list(flags), M + "::Nprocs": n, M + "::Ntasks": 3, M + "::JobStack": list(jobs),
                                                   M + "::WorkerStack": list(range(idle)), M + "::worker_pool": list(range(n)), M + "::wait_statuses": [None] * n})
                        ip = Interp(db, {})
                        try:
                            got = ip.call_fn(f, [], this=this)
                        except Thrown as t:
                            raise AnalysisBroken("is_finished throws %s" % t.tt)
                        cases += 1
                        if bool(got) != all(flags):
                            r7.bad(site, f.loc(), "with %d worker(s), Finish %s, %s job(s) waiting and %d idle worker(s) is_finished() is %s: %s" % (
                                n, ("sent to " + ", ".join(str(i) for i, x in enumerate(flags) if x)) if any(flags) else "sent to nobody", len(jobs), idle, bool(got),
                                "a dedicated master leaves its loop without sending Finish, the workers poll forever" if got else "the master never leaves its loop"), cfgname)
                            return
        r7.ok(site, f.loc(), "true iff every worker's `Finish sent` flag is set, independent of the stacks (%d interpreted states)" % cases, cfgname)



if __name__ == "__main__":
    run_check("C16", "job dispatcher (structural necessary conditions)", body)
