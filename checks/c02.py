"""C02 — two-particle Green's function: structure of both evaluation paths (DESIGN.md §3 C02).
Not decided: equality with the triple Fourier integral; behaviour at numerically near-degenerate levels
(the resonance decision compares runtime values)."""
import sympy as sp

from pv.check import run_check
from pv.entail import entails
from pv.expr import ASSIGN_OPS, Ctx, guard_facts, key_contains, key_subst
from pv.facts import AnalysisBroken, strip_targs
from pv.formula import Formula
from pv.loops import enclosing_loops, loop_shape, no_early_exit
from pv.symenv import env_at, value_key
from checks import lehmann as lh
from checks.lehmann import fld, THIS
from checks.c07 import deconv
from checks.c13 import parity

P = "Pomerol::TwoParticleGFPart"
G2 = "Pomerol::TwoParticleGF"
NR = P + "::NonResonantTerm"
RT = P + "::ResonantTerm"


def pk(f, i):
    return ("param", f.params[i]["d"], f.params[i]["n"])


def _merge_by_interpretation(r6, db, f, cls, coeffs, cfgname):
    """operator+= of a term is straight-line arithmetic on its members (possibly through helpers): its extracted body is
    evaluated on two symbolic terms (weights W, W' as positive integers, poles and coefficients as symbols) and the
    members afterwards are compared with the documented merge.  Decides the rule however the arithmetic is written."""
    from pv.summ import Interp, Obj, Thrown
    W, W2 = sp.Symbol("W", positive=True, integer=True), sp.Symbol("W'", positive=True, integer=True)
    P = [sp.Symbol("P%d" % i, real=True) for i in range(3)]
    Q = [sp.Symbol("P'%d" % i, real=True) for i in range(3)]
    C = {c: sp.Symbol(c) for c in coeffs}
    C2 = {c: sp.Symbol(c + "'") for c in coeffs}

    def mk(w, poles, cs):
        fl = {cls + "::Weight": w, cls + "::Poles": list(poles), cls + "::isz4": sp.Symbol("isz4"), cls + "::isz1z2": sp.Symbol("isz1z2")}
        for c in coeffs:
            fl[cls + "::" + c] = cs[c]
        return Obj(cls.split("::")[-1], **fl)
    a, b = mk(W, P, C), mk(W2, Q, C2)
    ip = Interp(db, {})
    try:
        ip.call_fn(f, [b], this=a)
    except Thrown as t:
        raise AnalysisBroken("%s::operator+= throws %s" % (cls, t.tt))
    for i in range(3):
        site = "%s::operator+=:Poles[%d]" % (cls, i)
        got = a.f[cls + "::Poles"][i]
        want_ = (W * P[i] + W2 * Q[i]) / (W + W2)
        if sp.simplify(sp.sympify(got) - want_) == 0:
            r6.ok(site, f.loc(), "== (W P + W' P')/(W + W') (interpreted summary)", cfgname)
        else:
            r6.bad(site, f.loc(), "merged pole %d is %s, expected %s (the weights before the merge, W and W', must be used)" % (i, sp.simplify(got), want_), cfgname)
    for fldname, want_ in [("Weight", W + W2)] + [(c, C[c] + C2[c]) for c in coeffs]:
        site = "%s::operator+=:%s" % (cls, fldname)
        got = a.f[cls + "::" + fldname]
        if sp.simplify(sp.sympify(got) - want_) == 0:
            r6.ok(site, f.loc(), "== %s (interpreted summary)" % want_, cfgname)
        else:
            r6.bad(site, f.loc(), "after the merge %s is %s, expected %s" % (fldname, got, want_), cfgname)
    site = "%s::operator+=:argument-unchanged" % cls
    if b.f[cls + "::Weight"] == W2 and b.f[cls + "::Poles"] == Q and all(b.f[cls + "::" + c] == C2[c] for c in coeffs):
        r6.ok(site, f.loc(), "the merged-in term is left as it was", cfgname)
    else:
        r6.bad(site, f.loc(), "the merged-in term is modified by the merge", cfgname)



def _term_values_by_interpretation(r2, db, f, cls, cfgname):
    """Value of a non-resonant / resonant term decided by interpreting operator() on a symbolic term, once per case
    (isz4 or not; isz1z2 or not, on / off resonance).  The resonance test itself is a case split: the comparison of
    |Diff| with the Kronecker tolerance is answered by the case, any other ordering of symbolic values is not analysed."""
    from pv.summ import Interp, Obj, Thrown
    z1, z2, z3 = sp.symbols("z1 z2 z3")
    P = list(sp.symbols("P1 P2 P3", real=True))
    tol = sp.Symbol("tol", positive=True)
    if cls == NR:
        C = sp.Symbol("C")
        for flagv, nm, want_ in ((True, "isz4", C / ((z1 - P[0]) * (z1 + z2 + z3 - P[0] - P[1] - P[2]) * (z3 - P[2]))),
                                 (False, "!isz4", C / ((z1 - P[0]) * (z2 - P[1]) * (z3 - P[2])))):
            this = Obj("NonResonantTerm", **{cls + "::Coeff": C, cls + "::Poles": list(P), cls + "::isz4": flagv, cls + "::Weight": 1})
            ip = Interp(db, {})
            try:
                got = ip.call_fn(f, [z1, z2, z3], this=this)
            except Thrown as t:
                raise AnalysisBroken("operator() throws %s" % t.tt)
            site = "%s::operator():%s" % (cls, nm)
            if sp.simplify(sp.sympify(got) - want_) == 0:
                r2.ok(site, f.loc(), "== %s (interpreted summary)" % want_, cfgname)
            else:
                r2.bad(site, f.loc(), "value is %s, expected %s (interpreted summary)" % (sp.simplify(got), want_), cfgname)
        return
    R, N = sp.symbols("R N")
    for flagv, br in ((True, "z1z2"), (False, "z2z3")):
        D = (z1 + z2 - P[0] - P[1]) if flagv else (z2 + z3 - P[1] - P[2])
        results = {}
        for resonant in (True, False):
            def oracle(fr, i, op, a, b, D=D, resonant=resonant):
                # |D| < tol is the case `resonant`
                small, big = (a, b) if op in ("<", "<=") else (b, a)
                if op in ("<", "<=", ">", ">=") and sp.simplify(small - sp.Abs(D)) == 0 and sp.simplify(big - tol) == 0:
                    return resonant
                if op in ("<", "<=", ">", ">=") and sp.simplify(big - sp.Abs(D)) == 0 and sp.simplify(small - tol) == 0:
                    return not resonant
                raise AnalysisBroken("the resonance decision compares %s with %s: not |%s| against the Kronecker tolerance (form not analysed)" % (a, b, D))
            this = Obj("ResonantTerm", **{cls + "::ResCoeff": R, cls + "::NonResCoeff": N, cls + "::Poles": list(P), cls + "::isz1z2": flagv, cls + "::Weight": 1})
            ip = Interp(db, {})
            ip.oracle = oracle
            try:
                results[resonant] = sp.sympify(ip.call_fn(f, [z1, z2, z3, tol], this=this))
            except Thrown as t:
                raise AnalysisBroken("operator() throws %s" % t.tt)
        den = (z1 - P[0]) * (z3 - P[2])
        site = "%s::operator():%s" % (cls, br)
        probs = []
        if sp.simplify(results[True] - R / den) != 0:
            probs.append("on resonance (|%s| below the tolerance) the value is %s, expected R/((z1-P1)(z3-P3))" % (D, sp.simplify(results[True])))
        if sp.simplify(results[False] - N / D / den) != 0:
            probs.append("off resonance the value is %s, expected N/((%s)(z1-P1)(z3-P3))" % (sp.simplify(results[False]), D))
        if probs:
            r2.bad(site, f.loc(), "; ".join(probs) + " (interpreted summary)", cfgname)
        else:
            r2.ok(site, f.loc(), "(|D|<tol ? R : N/D)/((z1-P1)(z3-P3)) with D = %s (interpreted summary)" % D, cfgname)



def interp_multiterm(db, f, syms):
    """evaluate the extracted body of addMultiterm on symbolic arguments (every tolerance comparison answered `not
    negligible`); returns the terms that reach the lists as (class, list, coefficients, poles, flag)"""
    from pv.summ import Interp, Obj, Thrown
    out = []

    def mk(cls, ncoef):
        def ctor(fr, i, args):
            if len(args) != ncoef + 4:
                fr.bad(i, "%s constructed from %d arguments" % (cls, len(args)))
            return Obj(cls, coefs=[sp.sympify(a) for a in args[:ncoef]], poles=[sp.sympify(a) for a in args[ncoef:ncoef + 3]], flag=int(bool(args[ncoef + 3])))
        return ctor

    def add(fr, i, obj, args):
        if not (isinstance(obj, Obj) and obj.cls == "termlist" and len(args) == 1 and isinstance(args[0], Obj) and args[0].cls in (NR, RT)):
            fr.bad(i, "add_term on something else than one of the two term lists")
        t_ = args[0]
        out.append((t_.cls, obj.f["of"], t_.f["coefs"], t_.f["poles"], t_.f["flag"]))
        return None
    prims = {"construct " + NR: mk(NR, 1), "construct " + RT: mk(RT, 2), "Pomerol::TermList::add_term": add}
    this = Obj("part", **{P + "::NonResonantTerms": Obj("termlist", of=NR), P + "::ResonantTerms": Obj("termlist", of=RT),
                          P + "::CoefficientTolerance": sp.Symbol("tol", positive=True), P + "::ReduceResonanceTolerance": sp.Symbol("rtol", positive=True)})
    ip = Interp(db, prims)
    ip.oracle = lambda fr, i, op, a, b: op in (">", ">=")       # |coefficient| > tolerance: the coefficient counts
    try:
        ip.call_fn(f, list(syms), this=this)
    except Thrown as t:
        raise AnalysisBroken("%s: interpreted summary throws %s at %s" % (f.qn, t.tt, t.where))
    return out


def body(chk, db, cfgname):
    # ================================================================== R1
    r1 = chk.rule("C02-R1", "multi-term of Hafermann et al.: poles and the six coefficients handed to the term lists", "F6 formula", 6)
    f = db.fn(P + "::addMultiterm", nparams=10)
    with r1.guard(P + "::addMultiterm", f.loc(), cfgname):
        ctx = Ctx(f, db)
        envs = env_at(f, ctx)
        F = Formula()
        names = ["C", "beta", "Ei", "Ej", "Ek", "El", "wi", "wj", "wk", "wl"]
        S = {nm: F.name_atom(pk(f, i), nm) for i, nm in enumerate(names)}
        C, beta = S["C"], S["beta"]
        want_poles = [S["Ej"] - S["Ei"], S["Ek"] - S["Ej"], S["El"] - S["Ek"]]
        want = {
            (NR, 0): [-C * (S["wj"] + S["wk"])],
            (NR, 1): [C * (S["wi"] + S["wl"])],
            (RT, 1): [C * beta * S["wi"], C * (S["wk"] - S["wi"])],
            (RT, 0): [-C * beta * S["wj"], C * (S["wj"] - S["wl"])],
        }
        label = {(NR, 0): "C2 (z1,z2,z3 form)", (NR, 1): "C4 (z4 form)", (RT, 1): "R12/N12 (z1+z2 resonance)", (RT, 0): "R23/N23 (z2+z3 resonance)"}
        lists = {NR: fld(P + "::NonResonantTerms"), RT: fld(P + "::ResonantTerms")}
        seen = set()
        for j in f.calls():
            n = f.nodes[j]
            if strip_targs(n.get("cname") or "") != "Pomerol::TermList::add_term":
                continue
            tk = value_key(f, ctx, envs, n["args"][0], j)
            lst = ctx.key(n["obj"])
            if tk[0] != "ctor" or tk[1] not in (NR, RT):
                raise AnalysisBroken("addMultiterm: add_term argument is not a (Non)ResonantTerm constructor call")
            ncoef = 1 if tk[1] == NR else 2
            coefs, poles, flag = tk[2:2 + ncoef], tk[2 + ncoef:5 + ncoef], tk[5 + ncoef]
            if flag[0] != "lit":
                raise AnalysisBroken("addMultiterm: term flag is not a literal")
            key = (tk[1], int(flag[1]))
            site = "%s::addMultiterm:%s" % (P, label.get(key, str(key)))
            seen.add(key)
            probs = []
            if lst != lists[tk[1]]:
                probs.append("the term is added to the wrong list")
            for i, (g_, w_) in enumerate(zip([F.conv(c) for c in coefs], want[key])):
                if not F.equal(g_, w_):
                    probs.append("coefficient %d is %s, expected %s%s" % (i + 1, g_, w_, lh.wit(F, g_, w_)))
            for i, (g_, w_) in enumerate(zip([F.conv(p_) for p_ in poles], want_poles)):
                if not F.equal(g_, w_):
                    probs.append("pole P%d is %s, expected %s" % (i + 1, g_, w_))
            if probs:
                r1.bad(site, f.loc(j), "; ".join(probs), cfgname)
            else:
                r1.ok(site, f.loc(j), "coefficients %s, poles (Ej-Ei, Ek-Ej, El-Ek)" % ", ".join(str(w) for w in want[key]), cfgname)
        missing = [key for key in want if key not in seen]
        if missing:
            # the add_term calls may sit in helpers / closures (addNonResonant(C, flag), ...): evaluate the extracted body on
            # symbolic arguments with every coefficient taken as non-negligible and compare what reaches the two lists
            delegated = any(n_.get("lambda") or (n_["k"] == "call" and n_.get("ck") in ("func", "method") and (db.callee_fn(n_) is not None) and db.callee_fn(n_).body is not None
                                                  and strip_targs(n_.get("cname") or "") != "Pomerol::TermList::add_term" and (db.callee_fn(n_).file or "").startswith(f.file.rsplit("/src/", 1)[0]))
                            for _, n_ in f.walk(f.body) if n_["k"] == "call")
            got_terms = None
            if delegated:
                try:
                    got_terms = interp_multiterm(db, f, [S[nm] for nm in names])
                except AnalysisBroken as e_:
                    r1.unknown(P + "::addMultiterm:delegated", f.loc(), "the terms are added through helpers / closures and the body could not be interpreted: %s" % e_, cfgname)
                    missing = []
            for key in missing:
                site = "%s::addMultiterm:%s" % (P, label[key])
                if got_terms is None:
                    r1.bad(site, f.loc(), "this part of the multi-term is never added", cfgname)
                    continue
                mine = [t_ for t_ in got_terms if (t_[0], t_[4]) == key]
                if len(mine) != 1:
                    r1.bad(site, f.loc(), "this part of the multi-term is added %d times (interpreted summary)" % len(mine), cfgname)
                    continue
                cls_, lst_, coefs_, poles_, _fl = mine[0]
                probs = []
                if lst_ != cls_:
                    probs.append("the term is added to the wrong list")
                for i, (g_, w_) in enumerate(zip(coefs_, want[key])):
                    if not F.equal(g_, w_):
                        probs.append("coefficient %d is %s, expected %s" % (i + 1, g_, w_))
                for i, (g_, w_) in enumerate(zip(poles_, want_poles)):
                    if not F.equal(g_, w_):
                        probs.append("pole P%d is %s, expected %s" % (i + 1, g_, w_))
                if probs:
                    r1.bad(site, f.loc(), "; ".join(probs) + " (interpreted summary)", cfgname)
                else:
                    r1.ok(site, f.loc(), "coefficients %s, poles (Ej-Ei, Ek-Ej, El-Ek) (added through a helper; interpreted summary)" % ", ".join(str(w) for w in want[key]), cfgname)
    # constructors bind (coefficients, poles, flag) to the members operator() reads
    for cls, fields in ((NR, ["Coeff"]), (RT, ["ResCoeff", "NonResCoeff"])):
        ctor = [x for x in db.fns_named(cls + "::" + cls.split("::")[-1]) if x.kind == "ctor" and len(x.params) == len(fields) + 4]
        site = cls + ":member-binding"
        if len(ctor) != 1:
            raise AnalysisBroken("%s constructor not found" % cls)
        c = ctor[0]
        with r1.guard(site, c.loc(), cfgname):
            cctx = Ctx(c, db)
            m = {i.get("field"): cctx.key(i["e"]) for i in c.d.get("inits", []) if i.get("field")}
            good = all(m.get(nm) == pk(c, i) for i, nm in enumerate(fields))
            flagname = "isz4" if cls == NR else "isz1z2"
            good = good and m.get(flagname) == pk(c, len(fields) + 3)
            poles = {}
            for j, n in c.walk(c.body):
                if n["k"] == "bin" and n["op"] == "=":
                    lk = cctx.key(n["l"])
                    if lk[0] == "op" and lk[1] == "[]" and lk[2] == fld(cls + "::Poles") and lk[3][0] == "lit":
                        poles[lk[3][1]] = cctx.key(n["r"])
            good = good and all(poles.get(i) == pk(c, len(fields) + i) for i in range(3))
            if good:
                r1.ok(site, c.loc(), "(%s, P1, P2, P3, %s) are stored in the members of the same role" % (", ".join(fields), flagname), cfgname)
            else:
                r1.bad(site, c.loc(), "constructor arguments are not stored in the members of the same role (coefficients / Poles[0..2] / %s)" % flagname, cfgname)

    # ================================================================== R2
    r2 = chk.rule("C02-R2", "term evaluation: non-resonant (two forms) and resonant (two forms x delta branch)", "F6 formula", 4)
    f = db.fn(NR + "::operator()", nparams=3)
    with r2.guard(NR + "::operator()", f.loc(), cfgname):
        ctx = Ctx(f, db)
        F = Formula()
        z1, z2, z3 = [F.name_atom(pk(f, i), "z%d" % (i + 1)) for i in range(3)]
        Cc = F.name_atom(fld(NR + "::Coeff"), "C")
        Pp = [F.name_atom(("op", "[]", fld(NR + "::Poles"), ("lit", i)), "P%d" % (i + 1)) for i in range(3)]
        rets = [j for j, n in f.walk(f.body) if n["k"] == "return"]
        rk = ctx.key(f.nodes[rets[0]]["sub"])
        if len(rets) != 1 or rk[0] != "cond" or rk[1] != fld(NR + "::isz4"):
            _term_values_by_interpretation(r2, db, f, NR, cfgname)
            rk = None
        w4 = Cc / ((z1 - Pp[0]) * (z1 + z2 + z3 - Pp[0] - Pp[1] - Pp[2]) * (z3 - Pp[2]))
        w2 = Cc / ((z1 - Pp[0]) * (z2 - Pp[1]) * (z3 - Pp[2]))
        for nm, got, want_ in ((("isz4", F.conv(rk[2]), w4), ("!isz4", F.conv(rk[3]), w2)) if rk is not None else ()):
            site = "%s::operator():%s" % (NR, nm)
            if F.equal(got, want_):
                r2.ok(site, f.loc(), "== %s" % want_, cfgname)
            else:
                r2.bad(site, f.loc(), "value is %s, expected %s%s" % (got, want_, lh.wit(F, got, want_)), cfgname)
    f = db.fn(RT + "::operator()", nparams=4)
    with r2.guard(RT + "::operator()", f.loc(), cfgname):
        ctx = Ctx(f, db)
        envs = env_at(f, ctx)
        at = guard_facts(f, ctx)
        F = Formula()
        z1, z2, z3 = [F.name_atom(pk(f, i), "z%d" % (i + 1)) for i in range(3)]
        tol = pk(f, 3)
        Rc = F.name_atom(fld(RT + "::ResCoeff"), "R")
        Nc = F.name_atom(fld(RT + "::NonResCoeff"), "N")
        Pp = [F.name_atom(("op", "[]", fld(RT + "::Poles"), ("lit", i)), "P%d" % (i + 1)) for i in range(3)]
        flag = fld(RT + "::isz1z2")
        seenb = set()
        _out = []
        try:
            for j, n in f.walk(f.body):
                if n["k"] != "return":
                    continue
                fa = at.get(f.cfg.pos1(j), frozenset())
                br = "z1z2" if ("true", flag) in fa else ("z2z3" if ("false", flag) in fa else None)
                if br is None:
                    raise AnalysisBroken("ResonantTerm::operator(): a return is not under a test of isz1z2")
                seenb.add(br)
                rk = value_key(f, ctx, envs, n["sub"], j)
                # (|Diff| < tol ? R : N/Diff) / ((z1-P1)(z3-P3))
                site = "%s::operator():%s" % (RT, br)
                if not (rk[0] == "op" and rk[1] == "/" and rk[2][0] == "cond"):
                    raise AnalysisBroken("ResonantTerm::operator(): value is not (cond)/(denominator)")
                cnd, a_, b_ = rk[2][1], rk[2][2], rk[2][3]
                den = F.conv(rk[3])
                diff_want = (z1 + z2 - Pp[0] - Pp[1]) if br == "z1z2" else (z2 + z3 - Pp[1] - Pp[2])
                probs = []
                if not (cnd[0] == "op" and cnd[1] == "<" and cnd[2][0] == "call" and cnd[2][1] in ("abs", "std::abs") and cnd[3] == tol):
                    probs.append("the resonance decision is not |Diff| < KroneckerSymbolTolerance")
                else:
                    d_ = F.conv(cnd[2][2])
                    if not F.equal(d_, diff_want):
                        probs.append("resonance is decided on %s, expected %s" % (d_, diff_want))
                if not F.equal(F.conv(a_), Rc):
                    probs.append("on resonance the value uses %s instead of ResCoeff" % F.conv(a_))
                if not F.equal(F.conv(b_), Nc / diff_want):
                    probs.append("off resonance the value uses %s, expected NonResCoeff/(%s)" % (F.conv(b_), diff_want))
                if not F.equal(den, (z1 - Pp[0]) * (z3 - Pp[2])):
                    probs.append("common denominator is %s, expected (z1-P1)(z3-P3)" % den)
                if probs:
                    _out.append(("bad", site, f.loc(j), "; ".join(probs), cfgname))
                else:
                    _out.append(("ok", site, f.loc(j), "(|D|<tol ? R : N/D)/((z1-P1)(z3-P3)) with D = %s" % diff_want, cfgname))
            if seenb != {"z1z2", "z2z3"}:
                _out.append(("bad", RT + "::operator():branches", f.loc(), "only branches %s are evaluated" % sorted(seenb), cfgname))
        except AnalysisBroken:
            # written in another form: decide the four cases by interpreting the body
            _out = None
            _term_values_by_interpretation(r2, db, f, RT, cfgname)
        for st_, *rest_ in (_out or []):
            (r2.ok if st_ == "ok" else r2.bad)(*rest_)

    # ================================================================== R3
    r3 = chk.rule("C02-R3", "world-stripe index typing in TwoParticleGFPart::compute: matrix element and the energies/weights passed to the multi-term", "F5+F6", 3)
    f = db.fn(P + "::compute", nparams=0)
    with r3.guard(P + "::compute", f.loc(), cfgname):
        ctx = Ctx(f, db)
        envs = env_at(f, ctx)
        at = guard_facts(f, ctx)
        its = lh.iterator_vars(f, ctx)

        def find(field, major, mat):
            c_ = [i for i in its.values() if i["matrix"] == ("field", lh.FOP + mat, fld(P + "::" + field)) and i["major"] == major]
            return c_[0] if len(c_) == 1 else None
        i2ket, i2bra = find("O1", "row", lh.ROWMAJOR), find("O2", "col", lh.COLMAJOR)
        i4ket, i4bra = find("O3", "row", lh.ROWMAJOR), find("CX4", "col", lh.COLMAJOR)
        site = P + "::compute:iterators"
        if None in (i2ket, i2bra, i4ket, i4bra):
            raise AnalysisBroken("the four sparse iterators (O1 row, O2 column, O3 row, CX4 column) are not all declared in compute(): the walk is written in a form that is not analysed; found %s" % (
                [(i["name"], i["major"], lh.short(i["matrix"])) for i in its.values()],))
        idx1, idx3 = i2ket["outer"], i4ket["outer"]
        if i4bra["outer"] != idx1 or i2bra["outer"] != idx3 or idx1 == idx3:
            r3.bad(site, f.loc(), "outer indices are not bound as O1(1,.), CX4(.,1), O2(.,3), O3(3,.)", cfgname)
            raise AnalysisBroken("outer indices")
        r3.ok(site, f.loc(), "O1 row index1, CX4 column index1, O2 column index3, O3 row index3", cfgname)
        calls = f.calls(cname=P + "::addMultiterm")
        if len(calls) != 1:
            raise AnalysisBroken("compute: expected one addMultiterm call")
        J = calls[0]
        k = value_key(f, ctx, envs, J, J)
        args = list(k[3:])
        # index 4 comes from the list filled with the matched inner index of the (O3, CX4) pair
        lists = [d for d, v in ctx.decls.items() if "vector" in v.get("t", "") and any(
            f.nodes[m]["k"] == "call" and strip_targs(f.nodes[m].get("cname") or "").endswith("::push_back") for m in ctx.mut.get(d, []))]
        if len(lists) != 1:
            raise AnalysisBroken("compute: Index4List not identified")
        Ld = lists[0]
        pushes = [m for m in ctx.mut.get(Ld, []) if f.nodes[m]["k"] == "call" and strip_targs(f.nodes[m].get("cname") or "").endswith("::push_back")]
        site = P + "::compute:index4-list"
        okp = True
        for m in pushes:
            ak = ctx.key(f.nodes[m]["args"][0], inline=False)
            fa = at.get(f.cfg.pos1(m), frozenset())
            chased = any(x[0] == "true" and x[1][0] == "call" and x[1][1] == "Pomerol::chaseIndices" and {x[1][2][:2], x[1][3][:2]} == {i4ket["var"][:2], i4bra["var"][:2]} for x in fa)
            if ak not in (lh.idx(i4bra), lh.idx(i4ket)) or not chased:
                okp = False
        plain = all(ctx.key(f.nodes[m]["args"][0], inline=False) in (lh.idx(i4bra), lh.idx(i4ket), lh.idx(i2bra), lh.idx(i2ket)) for m in pushes)
        if okp and pushes:
            r3.ok(site, f.loc(pushes[0]), "Index4List collects the common inner index of O3's row index3 and CX4's column index1 (under a successful chase)", cfgname)
        elif pushes and not plain:
            raise AnalysisBroken("Index4List stores something other than a bare inner index (%s): form not analysed" % f.s(f.nodes[pushes[0]]["args"][0])[:50])
        else:
            r3.bad(site, f.loc(pushes[0]) if pushes else f.loc(), "the list of intermediate states |4> is not filled with the matched index of the (O3, CX4) iterator pair", cfgname)
        i4 = None
        for a in args:
            for sub in [a]:
                pass
        # expected atoms
        F = Formula()
        L4 = [x for x in _subkeys(k) if x[0] == "op" and x[1] == "[]" and x[2][:2] == ("var", Ld)]
        if not L4:
            # the list may be walked by an iterator / range-for instead of an index: the element expression of such a loop
            from pv.loops import covers as _covers, element_keys as _ek
            Lvar = ("var", Ld, ctx.decls[Ld]["n"])
            for jL, nL in f.walk(f.body):
                if nL["k"] in ("for", "while", "forrange"):
                    shpL = loop_shape(f, ctx, jL)
                    if shpL.get("kind") in ("iter", "range") and shpL.get("bound") is not None and shpL["bound"][:2] == Lvar[:2]:
                        eks = _ek(shpL, shpL["bound"])
                        L4 = [x for x in _subkeys(k) if x in eks]
                        if L4:
                            break
        if not L4:
            raise AnalysisBroken("compute: index4 is not read from Index4List")
        idx4 = L4[0]
        idx2s = [lh.idx(i2ket), lh.idx(i2bra)]
        for a2 in idx2s[1:]:
            F.alias[a2] = idx2s[0]
        # uses of idx2 inside accessor atoms: normalise both spellings to the ket iterator's index
        norm = lambda key: key_subst(key, lambda y: idx2s[0] if y == idx2s[1] else None)
        args = [norm(a) for a in args]
        O3m = ("field", lh.FOP + lh.ROWMAJOR, fld(P + "::O3"))
        CXm = ("field", lh.FOP + lh.COLMAJOR, fld(P + "::CX4"))
        a12 = F.name_atom(lh.val(i2ket), "O1_12")
        a23 = F.name_atom(lh.val(i2bra), "O2_23")
        a34 = F.name_atom(("mcall", "Eigen::SparseMatrix::coeff", O3m, idx3, idx4), "O3_34")
        a41 = F.name_atom(("mcall", "Eigen::SparseMatrix::coeff", CXm, idx4, idx1), "CX4_41")
        sgn = F.name_atom(("field", "Pomerol::Permutation3::sign", fld(P + "::Permutation")), "sign")
        site = P + "::compute:matrix-element"
        got = F.conv(args[0])
        want_ = a12 * a23 * a34 * a41 * sgn
        if F.equal(got, want_):
            r3.ok(site, f.loc(J), "O1(1,2) O2(2,3) O3(3,4) CX4(4,1) * sign", cfgname)
        else:
            r3.bad(site, f.loc(J), "the matrix element handed to the multi-term is %s, expected %s" % (got, want_), cfgname)
        idxs = [idx1, idx2s[0], idx3, idx4]
        want_args = [("field", "Pomerol::Thermal::beta", fld(P + "::DMpart1"))] + \
                    [("mcall", "Pomerol::HamiltonianPart::getEigenValue", fld(P + "::Hpart%d" % (i + 1)), idxs[i]) for i in range(4)] + \
                    [("mcall", "Pomerol::DensityMatrixPart::getWeight", fld(P + "::DMpart%d" % (i + 1)), idxs[i]) for i in range(4)]
        names = ["beta", "E1", "E2", "E3", "E4", "w1", "w2", "w3", "w4"]
        site = P + "::compute:energies-and-weights"
        bad = []
        for nm, g_, w_ in zip(names, args[1:], want_args):
            if g_ != w_ and not (nm == "beta" and g_[0] == "field" and g_[1] == "Pomerol::Thermal::beta"):
                bad.append("%s is %s" % (nm, lh.short(g_[2]) + "(" + ",".join(_nm(x) for x in g_[3:]) + ")" if g_[0] == "mcall" else str(g_)[:60]))
        if bad:
            r3.bad(site, f.loc(J), "energies / weights are not those of states 1,2,3,4 in their own blocks, in this order: " + "; ".join(bad), cfgname)
        else:
            r3.ok(site, f.loc(J), "(beta, E1(index1), E2(index2), E3(index3), E4(index4), w1..w4 likewise) from Hpart_k / DMpart_k", cfgname)

    # ================================================================== R4
    r4 = chk.rule("C02-R4", "the six operator orderings: permutation table, permuted frequencies (z1,z2,-z3)[perm], operator selection and block chain in prepare", "F7+F1", 12)
    p3 = db.global_const("Pomerol::permutations3")
    gf = db.global_fn("Pomerol::permutations3")
    seenp = set()
    for k_, ent in enumerate(p3):
        perm, sign = tuple(ent[0]), ent[1]
        site = "Pomerol::permutations3[%d]" % k_
        if sorted(perm) != [0, 1, 2] or perm in seenp:
            r4.bad(site, gf.loc(), "entry %s is not a (new) permutation of {0,1,2}" % (ent,), cfgname)
        elif sign != parity(perm):
            r4.bad(site, gf.loc(), "entry %s carries sign %+d but the parity is %+d: that ordering of the three operators enters the sum with the wrong sign" % (list(perm), sign, parity(perm)), cfgname)
        else:
            r4.ok(site, gf.loc(), "%s sign %+d" % (list(perm), sign), cfgname)
        seenp.add(perm)
    if len(p3) != 6:
        r4.bad("Pomerol::permutations3:size", gf.loc(), "table has %d entries, 6 expected" % len(p3), cfgname)
    f = db.fn(P + "::operator()", ptypes=[r"complex"] * 3)
    with r4.guard(P + "::operator()(z1,z2,z3)", f.loc(), cfgname):
        ctx = Ctx(f, db)
        envs = env_at(f, ctx)
        rets = [j for j, n in f.walk(f.body) if n["k"] == "return"]
        if len(rets) != 1:
            raise AnalysisBroken("TwoParticleGFPart::operator(): expected one return")
        rk = value_key(f, ctx, envs, f.nodes[rets[0]]["sub"], rets[0])
        zs = [pk(f, i) for i in range(3)]
        Fq = ("initlist", zs[0], zs[1], ("op", "-", zs[2]))
        Fq2 = ("initlist", zs[0], zs[1], ("un", "-", zs[2]))
        perm = ("field", "Pomerol::Permutation3::perm", fld(P + "::Permutation"))
        site = P + "::operator()(z1,z2,z3)"

        def wanted(Fk):
            return [("op", "[]", Fk, ("op", "[]", perm, ("lit", i))) for i in range(3)]
        good = False
        tolbad = False
        if rk[0] == "op" and rk[1] == "+":
            parts_ = [rk[2], rk[3]]
            nr = [x for x in parts_ if x[0] == "op" and x[1] == "()" and x[2] == fld(P + "::NonResonantTerms")]
            rs = [x for x in parts_ if x[0] == "op" and x[1] == "()" and x[2] == fld(P + "::ResonantTerms")]
            if len(nr) == 1 and len(rs) == 1:
                for Fk in (Fq, Fq2):
                    if list(nr[0][3:6]) == wanted(Fk) and list(rs[0][3:6]) == wanted(Fk):
                        if len(rs[0]) > 6 and rs[0][6] == fld(P + "::ReduceResonanceTolerance"):
                            good = True
                        else:
                            tolbad = True
        if good:
            r4.ok(site, f.loc(), "NonResonantTerms(F[perm0],F[perm1],F[perm2]) + ResonantTerms(..., ReduceResonanceTolerance) with F = (z1, z2, -z3)", cfgname)
        elif tolbad:
            r4.bad(site, f.loc(), "the resonant terms are not evaluated with the part's ReduceResonanceTolerance (the default of the term list is 1e-16): nearly degenerate levels are treated as non-resonant and divided by their tiny splitting: %s" % (f.s(f.nodes[rets[0]]["sub"])[:100]), cfgname)
        else:
            r4.bad(site, f.loc(), "the part is not evaluated at the permuted frequencies (z1, z2, -z3)[perm[k]] in both term lists: got %s" % (f.s(f.nodes[rets[0]]["sub"])[:80]), cfgname)
    # operator selection by permutation (three switch functions)
    for nm, acc in (("getLeftIndex", "Pomerol::FieldOperator::getLeftIndex"), ("getRightIndex", "Pomerol::FieldOperator::getRightIndex"), ("OperatorPartAtPosition", "Pomerol::FieldOperator::getPartFromLeftIndex")):
        f = db.fn(G2 + "::" + nm, nparams=3)
        with r4.guard(G2 + "::" + nm, f.loc(), cfgname):
            ctx = Ctx(f, db)
            sw = [j for j, n in f.walk(f.body) if n["k"] == "switch"]
            if len(sw) != 1:
                raise AnalysisBroken("%s: expected one switch" % nm)
            ck = ctx.key(f.nodes[sw[0]]["c"])
            want_c = ("op", "[]", ("field", "Pomerol::Permutation3::perm", ("op", "[]", ("global", "Pomerol::permutations3"), pk(f, 0))), pk(f, 1))
            cases = {}
            for j, n in f.walk(f.nodes[sw[0]]["body"]):
                if n["k"] == "case" and f.nodes[n["sub"]]["k"] == "return":
                    cases[ctx.key(n["v"])[1]] = ctx.key(f.nodes[n["sub"]]["sub"])
            want_ops = {0: fld(G2 + "::C1"), 1: fld(G2 + "::C2"), 2: fld(G2 + "::CX3")}
            site = G2 + "::" + nm
            good = ck == want_c and all(cases.get(i) == ("mcall", acc, want_ops[i], pk(f, 2)) for i in range(3))
            if good:
                r4.ok(site, f.loc(), "permutations3[p].perm[k] = 0,1,2 selects C1, C2, CX3", cfgname)
            else:
                r4.bad(site, f.loc(), "the operator standing at position k of ordering p is not selected as perm[k] = 0 -> C1, 1 -> C2, 2 -> CX3 via %s" % acc.split("::")[-1], cfgname)
    f = db.fn(G2 + "::prepare", nparams=0)
    with r4.guard(G2 + "::prepare", f.loc(), cfgname):
        ctx = Ctx(f, db)
        envs = env_at(f, ctx)
        at = guard_facts(f, ctx)
        news = [j for j, n in f.walk(f.body) if n["k"] == "new" and n["at"] == P]
        if len(news) != 1:
            raise AnalysisBroken("TwoParticleGF::prepare: expected one new TwoParticleGFPart")
        N = news[0]
        nk = ctx.key(N, inline=False)
        a = [lh.strip_cast(x) for x in nk[2][2:]]
        Ls = enclosing_loops(f, N)
        shapes = [loop_shape(f, ctx, x) for x in Ls]
        pl = [s for s in shapes if s["kind"] == "index" and s["start"] == ("lit", 0) and s["rel"] == "<" and s["bound"] == ("lit", len(p3))]
        site = G2 + "::prepare:orderings"
        if len(pl) == 1 and not [e for e in pl[0]["exits"] if e[1] != "continue"]:
            r4.ok(site, f.loc(), "p runs over all %d orderings of the table" % len(p3), cfgname)
            pv_ = pl[0]["var"]
        else:
            r4.bad(site, f.loc(), "the loop over operator orderings does not run over exactly the %d entries of permutations3" % len(p3), cfgname)
            raise AnalysisBroken("ordering loop")
        arrs = [x[2] for x in a if x[0] == "mcall" and x[1] == "Pomerol::Hamiltonian::getPart" and deconv(x[3])[0] == "op"]
        LI = deconv(a[4][3])[2] if len(a) > 4 and a[4][0] == "mcall" else None
        if LI is None:
            raise AnalysisBroken("prepare: block array not identified")

        def Lk(i):
            return ("op", "[]", LI, ("lit", i))
        want_a = [("mcall", G2 + "::OperatorPartAtPosition", THIS, pv_, ("lit", i), Lk(i)) for i in range(3)] + \
                 [("mcall", "Pomerol::FieldOperator::getPartFromLeftIndex", fld(G2 + "::CX4"), Lk(3))] + \
                 [("mcall", "Pomerol::Hamiltonian::getPart", fld(G2 + "::H"), Lk(i)) for i in range(4)] + \
                 [("mcall", "Pomerol::DensityMatrix::getPart", fld(G2 + "::DM"), Lk(i)) for i in range(4)] + \
                 [("op", "[]", ("global", "Pomerol::permutations3"), pv_)]
        names = ["O1", "O2", "O3", "CX4", "H1", "H2", "H3", "H4", "DM1", "DM2", "DM3", "DM4", "Permutation"]
        site = G2 + "::prepare:part-arguments"
        bad = [names[i] for i in range(len(want_a)) if i >= len(a) or deconv(a[i]) != deconv(want_a[i])]
        if bad:
            r4.bad(site, f.loc(N), "the part is not built from (operator at position k in ordering p, block LeftIndices[k]) for k = 0..2, CX4 from LeftIndices[3], H/DM blocks 0..3 in order and permutations3[p]; wrong: %s" % ", ".join(bad), cfgname)
        else:
            r4.ok(site, f.loc(N), "O_k = OperatorPartAtPosition(p,k,L[k]), CX4[L[3]], H/DM[L[0..3]], permutations3[p]", cfgname)
        # block chain: values of LeftIndices at the creation site
        env = envs.get(f.cfg.pos1(N), {})
        site = G2 + "::prepare:block-chain"
        asg = {}
        for j, n in f.walk(f.body):
            if n["k"] == "call" and n.get("ck") == "op" and n.get("op") == "=" or (n["k"] == "bin" and n["op"] == "="):
                l = n["args"][0] if n["k"] == "call" else n["l"]
                r = n["args"][1] if n["k"] == "call" else n["r"]
                lk = deconv(ctx.key(l, inline=False))
                if lk[0] == "op" and lk[1] == "[]" and lk[2] == LI and lk[3][0] == "lit":
                    asg.setdefault(lk[3][1], []).append(deconv(ctx.key(r, inline=False)))
        its_ = [s for s in shapes if s["kind"] == "iter"]
        good = False
        why = "LeftIndices[0..3] are not each assigned once"
        if all(len(asg.get(i, [])) == 1 for i in range(4)) and len(its_) == 1:
            it = its_[0]["var"]
            cx4map = its_[0]["bound"]
            first = [("field", q, ("op", "->", it)) for q in ("boost::bimaps::relation::detail::mirror_storage::first",)]
            second = [("field", q, ("op", "->", it)) for q in ("boost::bimaps::relation::detail::mirror_storage::second",)]
            okv = cx4map[0] == "field" and cx4map[1].endswith("::right") and cx4map[2] in (("mcall", "Pomerol::FieldOperator::getBlockMapping", fld(G2 + "::CX4")),
                                                                                              ("field", "Pomerol::FieldOperator::LeftRightBlocks", fld(G2 + "::CX4")))
            c0 = asg[0][0] in first and asg[3][0] in second
            c2 = asg[2][0] == ("mcall", G2 + "::getLeftIndex", THIS, pv_, ("lit", 2), Lk(3))
            c1 = asg[1][0] == ("mcall", G2 + "::getRightIndex", THIS, pv_, ("lit", 0), Lk(0))
            fa = at.get(f.cfg.pos1(N), frozenset())
            closing = ("==",) + tuple(sorted([deconv(Lk(2)), ("mcall", G2 + "::getRightIndex", THIS, pv_, ("lit", 1), Lk(1))], key=repr))
            fa_d = {tuple(deconv(x) if isinstance(x, tuple) else x for x in fct) for fct in fa}
            cc = entails(fa_d, closing)
            corr = all(any(x[0] == "true" and x[1][0] == "mcall" and x[1][1] == "Pomerol::BlockNumber::isCorrect" and deconv(x[1][2]) == Lk(i) for x in fa) for i in (1, 2))
            good = okv and c0 and c1 and c2 and cc and corr
            if not okv:
                why = "the outer loop does not run over the right view of CX4's block map"
            elif not (c0 and c1 and c2):
                why = "LeftIndices are not (right(CX4), rightOf(O1 from L0), leftOf(O3 to L3), left(CX4))"
            elif not cc:
                why = "the chain is not closed by the test getRightIndex(p,1,L[1]) == L[2]: O2 is combined with blocks it does not connect"
            elif not corr:
                why = "parts are created for non-existent intermediate blocks (isCorrect() of L[1], L[2] not tested)"
        if good:
            r4.ok(site, f.loc(N), "<L0|O1|L1><L1|O2|L2><L2|O3|L3><L3|CX4|L0> closed by rightOf(O2,L1) == L2, both intermediate blocks valid", cfgname)
        else:
            r4.bad(site, f.loc(N), why, cfgname)

    # ================================================================== R5
    r5 = chk.rule("C02-R5", "frequency-table path == on-demand path: same callee and argument order, compute before evaluation before purge", "F1+F6", 5)
    f = db.fn("Pomerol::ComputeAndClearWrap::run", nparams=0)
    with r5.guard("Pomerol::ComputeAndClearWrap::run", f.loc(), cfgname):
        ctx = Ctx(f, db)
        CW = "Pomerol::ComputeAndClearWrap::"
        pp = fld(CW + "p")
        comp = [j for j in f.calls(cname=P + "::compute")]
        clr = [j for j in f.calls(cname=P + "::clear")]
        acc = [j for j, n in f.walk(f.body) if n["k"] == "call" and n.get("ck") == "op" and n.get("op") == "+="]
        site = CW + "run:table-entry"
        if len(acc) != 1 or len(comp) != 1:
            raise AnalysisBroken("ComputeAndClearWrap::run: expected one compute() and one accumulation")
        A = acc[0]
        k = ctx.key(A)
        Ls = enclosing_loops(f, A)
        shp = loop_shape(f, ctx, Ls[0]) if Ls else None
        fq = ("un", "*", fld(CW + "freqs_"))
        good = False
        if shp is not None and shp["kind"] == "index" and shp["start"] == ("lit", 0) and no_early_exit(shp) and \
                shp["bound"] in (("mcall", "std::vector::size", fq), ("mcall", "std::vector::size", fld(CW + "freqs_")), ("mcall", "std::vector::size", ("un", "*", fld(CW + "data_"))),
                                 ("mcall", "std::vector::size", fld(CW + "data_"))):
            w = shp["var"]
            want_l = ("op", "[]", ("un", "*", fld(CW + "data_")), w)
            el = ("op", "[]", fq, w)
            want_r = ("op", "()", ("un", "*", pp)) + tuple(("call", "boost::tuples::get<%dUL>" % i, el) for i in range(3))
            got_r = k[3]
            norm = lambda x: key_subst(x, lambda y: ("call", y[1].replace("boost::get<", "boost::tuples::get<").replace("std::get<", "boost::tuples::get<"),) + y[2:] if y[0] == "call" and "get<" in str(y[1]) else None)
            good = k[2] == want_l and norm(got_r) == want_r
        if good:
            r5.ok(site, f.loc(A), "(*data_)[w] += (*p)(get<0>(f[w]), get<1>(f[w]), get<2>(f[w])) for every w", cfgname)
        else:
            r5.bad(site, f.loc(A), "the table entry w does not accumulate the part evaluated at (get<0>, get<1>, get<2>) of frequency triple w (argument order or slot differ from the on-demand path)", cfgname)
        site = CW + "run:order"
        pc, pa = f.cfg.pos1(comp[0]), f.cfg.pos1(A)
        okorder = f.cfg.dominates(pc, pa) and all(f.cfg.dominates(pc, f.cfg.pos1(c_)) and not f.cfg.dominates(f.cfg.pos1(c_), pa) and
                                                  not f.cfg.paths_avoiding(f.cfg.pos1(c_), lambda b, i, e: (b, i) == pa, lambda b, i, e: False) for c_ in clr)
        if okorder and clr:
            r5.ok(site, f.loc(comp[0]), "p->compute() precedes the evaluation, p->clear() can only follow it", cfgname)
        else:
            r5.bad(site, f.loc(comp[0]), "the part is evaluated before it is computed or after its terms were purged", cfgname)
    f = db.fn(G2 + "::compute")
    with r5.guard(G2 + "::compute", f.loc(), cfgname):
        ctx = Ctx(f, db)
        fr = [("param", p["d"], p["n"]) for p in f.params if "tuple" in p["t"]][0]
        clearp = [("param", p["d"], p["n"]) for p in f.params if p["t"] == "bool"][0]
        site = G2 + "::compute:table-setup"
        rs = [j for j, n in f.walk(f.body) if n["k"] == "call" and strip_targs(n.get("cname") or "") == "std::vector::resize" and ctx.key(n["obj"], inline=False)[0] == "var"]
        md = None
        for j in rs:
            n = f.nodes[j]
            if ctx.key(n["args"][0]) == ("mcall", "std::vector::size", fr) and len(n["args"]) == 2 and ctx.key(n["args"][1]) == ("lit", 0):
                md = ctx.key(n["obj"], inline=False)
        wraps = [j for j, n in f.walk(f.body) if n["k"] == "construct" and strip_targs(n.get("crec") or "") == "Pomerol::ComputeAndClearWrap" and len(n["args"]) >= 5]
        good = False
        if md is not None and len(wraps) == 1:
            n = f.nodes[wraps[0]]
            a = [ctx.key(x, inline=False) for x in n["args"]]
            Ls = enclosing_loops(f, wraps[0])
            shp = loop_shape(f, ctx, Ls[0]) if Ls else None
            parts_ = fld(G2 + "::parts")
            from pv.loops import covers, is_element
            from pv.paths import every_iteration
            if shp is not None and covers(shp, parts_) and every_iteration(f, Ls[0], wraps[0]) is not False:
                fill = ctx.key(n["args"][4])
                good = a[0] == ("un", "&", fr) and a[1] == ("un", "&", md) and is_element(ctx.key(n["args"][2]), shp, parts_) and a[3] == clearp and \
                    fill in (("op", ">", ("mcall", "std::vector::size", fr), ("lit", 0)), ("op", "<", ("lit", 0), ("mcall", "std::vector::size", fr)), ("op", "!=", ("mcall", "std::vector::size", fr), ("lit", 0)),
                             ("un", "!", ("mcall", "std::vector::empty", fr)))
        if good:
            r5.ok(site, f.loc(), "table sized freqs.size() and zero-initialised; every part wrapped with (&freqs, &table, part, clear, fill iff freqs non-empty)", cfgname)
        else:
            if md is None or len(wraps) != 1 or not Ls or (shp is not None and shp["kind"] == "other"):
                raise AnalysisBroken("TwoParticleGF::compute: the set-up of the frequency table / of the per-part wrappers is written in a form that is not analysed")
            r5.bad(site, f.loc(), "the frequency table is not (sized to the list, zeroed, handed with the same list and purge flag to a wrapper of EVERY part)", cfgname)
    lh.check_sum_over_parts(r5, db, cfgname, G2 + "::operator()", 3, [r"complex"] * 3, "")
    f = db.fn(G2 + "::operator()", ptypes=[r"^long$"] * 3)
    with r5.guard(G2 + "::operator()(long,long,long)", f.loc(), cfgname):
        ctx = Ctx(f, db)
        rets = [j for j, n in f.walk(f.body) if n["k"] == "return"]
        if len(rets) != 1:
            raise AnalysisBroken("TwoParticleGF::operator()(long,long,long): expected one return (several returns are not analysed)")
        k = ctx.key(f.nodes[rets[0]]["sub"])
        F = Formula()
        ms = F.name_atom(fld("Pomerol::Thermal::MatsubaraSpacing"), "dW")
        ns = [F.name_atom(pk(f, i), "n%d" % (i + 1)) for i in range(3)]
        site = G2 + "::operator()(long,long,long)"
        good = k[0] == "op" and k[1] == "()" and k[2] == ("un", "*", THIS) and len(k) == 6 and all(F.equal(F.conv(k[3 + i]), ms * (2 * ns[i] + 1)) for i in range(3))
        if good:
            r5.ok(site, f.loc(), "(*this)(dW(2n1+1), dW(2n2+1), dW(2n3+1))", cfgname)
        else:
            r5.bad(site, f.loc(), "Matsubara numbers are not mapped to the fermionic frequencies i*pi*(2n+1)/beta in order", cfgname)
    # ================================================================== R6
    r6 = chk.rule("C02-R6", "merging of similar terms (operator+=): poles averaged with the weights *before* the merge, weights and coefficients added", "F6 formula + interpreted summary", 9)
    for cls, coeffs in ((NR, ("Coeff",)), (RT, ("ResCoeff", "NonResCoeff"))):
        f = db.fn(cls + "::operator+=")
        with r6.guard(cls + "::operator+=", f.loc(), cfgname):
            _merge_by_interpretation(r6, db, f, cls, coeffs, cfgname)
    # ================================================================== R7
    r7 = chk.rule("C02-R7", "tolerances set on the container / on the function reach the parts under their own names (resonance tolerance -> resonance tolerance, ...)", "F4 same-role wiring", 6)
    for f in sorted([x for x in db.fns.values() if x.rec in (G2, "Pomerol::TwoParticleGFContainer") and x.body is not None and x.body >= 0], key=lambda x: (x.file, x.line)):
        ctx = Ctx(f, db)
        for j, n in f.walk(f.body):
            if not (n["k"] == "bin" and n["op"] == "="):
                continue
            lk = ctx.key(n["l"], inline=False)
            rk = ctx.key(n["r"], inline=False)
            if not (lk[0] == "field" and lk[1].endswith("Tolerance") and lk[2] != THIS):
                continue
            lname = lk[1].split("::")[-1]
            site = "%s:%s" % (f.qn, lname)
            if rk[0] == "field" and rk[2] == THIS and rk[1].endswith("Tolerance"):
                rname = rk[1].split("::")[-1]
                if rname == lname:
                    r7.ok(site, f.loc(j), "%s <- this->%s" % (lname, rname), cfgname)
                else:
                    r7.bad(site, f.loc(j), "%s of the part/element is set from this->%s: the tolerance the user configured is ignored and a value meant for another purpose (e.g. 1e-16 instead of 1e-8) decides the resonance branch" % (lname, rname), cfgname)
            else:
                r7.unknown(site, f.loc(j), "tolerance assigned from %s" % f.s(n["r"])[:60], cfgname)
    # ================================================================== R9: documented default tolerances
    r9 = chk.rule("C02-R9", "the default tolerances are the documented ones (resonance 1e-8, coefficient 1e-16, multi-term 1e-5) at every level (container, function, part), and the term lists of a part merge poles within 1e-8 and drop coefficients below 1e-16", "F7 code vs documentation", 4)
    import re as _re
    from pv import pipeline as _pl
    documented = {}
    for hdr in ("include/pomerol/TwoParticleGF.h", "include/pomerol/TwoParticleGFPart.h", "include/pomerol/TwoParticleGFContainer.h"):
        try:
            txt = open(_pl.REPO + "/" + hdr).read()
        except OSError:
            continue
        for m_ in _re.finditer(r"default\s*=\s*([0-9.]+(?:[eE][+-]?[0-9]+)?)\.?\s*\*/\s*\n\s*RealType\s+(\w+)\s*;", txt):
            documented.setdefault(m_.group(2), set()).add(float(m_.group(1)))
    wanted = ("ReduceResonanceTolerance", "CoefficientTolerance", "MultiTermCoefficientTolerance")
    if not all(nm in documented and len(documented[nm]) == 1 for nm in wanted):
        r9.unknown("Pomerol::TwoParticleGF:documented-defaults", f.loc(), "the headers do not document one default per tolerance (found %s)" % {k_: sorted(v_) for k_, v_ in documented.items()}, cfgname)
    else:
        for cls_ in (G2, P, "Pomerol::TwoParticleGFContainer"):
            for c_ in sorted([x for x in db.fns_named(cls_ + "::" + cls_.split("::")[-1]) if x.kind == "ctor" and x.body is not None and x.body >= 0 and len(x.params) > 1], key=lambda y: (y.file, y.line)):
                cc_ = Ctx(c_, db)
                ini_ = {i_.get("field"): cc_.key(i_["e"]) for i_ in c_.d.get("inits", []) if i_.get("field") and i_.get("written")}
                wrong_ = []
                for nm in wanted:
                    k_ = ini_.get(nm)
                    if k_ is None:
                        continue
                    if k_[0] != "lit":
                        raise AnalysisBroken("%s: %s is initialised from %s, not from a literal (named constant / expression not evaluated)" % (c_.qn, nm, str(k_)[:50]))
                    if not (k_[0] == "lit" and abs(float(k_[1]) - list(documented[nm])[0]) <= 1e-12 * abs(list(documented[nm])[0])):
                        wrong_.append("%s = %s (documented default %g)" % (nm, k_[1] if k_[0] == "lit" else "?", list(documented[nm])[0]))
                site = "%s:default-tolerances" % c_.qn
                if not any(nm in ini_ for nm in wanted):
                    continue
                if wrong_:
                    r9.bad(site, c_.loc(), "default tolerance differs from the documentation: " + "; ".join(wrong_), cfgname)
                else:
                    r9.ok(site, c_.loc(), "resonance / coefficient / multi-term tolerances start at their documented defaults", cfgname)
    pc_ = [x for x in db.fns_named(P + "::TwoParticleGFPart") if x.kind == "ctor" and len(x.params) > 3]
    if len(pc_) == 1:
        cc_ = Ctx(pc_[0], db)
        ini_ = {i_.get("field"): cc_.key(i_["e"]) for i_ in pc_[0].d.get("inits", []) if i_.get("field")}
        site = P + ":term-list-tolerances"
        probs_ = []
        for lst_, cls_ in (("NonResonantTerms", NR), ("ResonantTerms", RT)):
            k_ = ini_.get(lst_)
            lits_ = [y for y in _subkeys(k_)] if k_ is not None else []
            cmp_ = [y for y in lits_ if y[0] == "ctor" and y[1] == cls_ + "::Compare" and len(y) == 3 and y[2][0] == "lit"]
            neg_ = [y for y in lits_ if y[0] == "ctor" and y[1] == cls_ + "::IsNegligible" and len(y) == 3 and y[2][0] == "lit"]
            if len(cmp_) != 1 or len(neg_) != 1:
                raise AnalysisBroken("TwoParticleGFPart constructor: the term lists are not built from Compare(tol) / IsNegligible(tol) literals")
            if not (0 < float(cmp_[0][2][1]) <= 1e-8):
                probs_.append("%s merges terms whose poles differ by less than %s (documented 1e-8)" % (lst_, cmp_[0][2][1]))
            if not (0 < float(neg_[0][2][1]) <= 1e-16 * 1.0000001):
                probs_.append("%s drops coefficients below %s (documented 1e-16)" % (lst_, neg_[0][2][1]))
        if probs_:
            r9.bad(site, pc_[0].loc(), "; ".join(probs_), cfgname)
        else:
            r9.ok(site, pc_[0].loc(), "Compare(<= 1e-8), IsNegligible(<= 1e-16) for both term lists", cfgname)

    # ================================================================== R10: the comparators that decide which terms are merged
    r10 = chk.rule("C02-R10", "the term comparators are strict orders whose equivalence is `same form flag and all three poles equal within the tolerance`: exactly the terms that may be merged are", "F8 guards (comparator bodies evaluated on a grid of pole triples)", 2)
    from pv.summ import Interp as _Interp, Obj as _Obj, Thrown as _Thrown
    for cls_, flag_ in ((NR, "isz4"), (RT, "isz1z2")):
        cf_ = [x for x in db.fns.values() if strip_targs(x.name) == cls_ + "::Compare::operator()" and len(x.params) == 2 and x.body is not None and x.body >= 0]
        site = cls_ + "::Compare"
        if len(cf_) != 1:
            r10.unknown(site, f.loc(), "comparator not found", cfgname)
            continue
        with r10.guard(site, cf_[0].loc(), cfgname):
            grid = [sp.Integer(0), sp.Rational(1, 4), sp.Integer(2)]
            terms_ = [(fl_, a_, b_, c_) for fl_ in (0, 1) for a_ in grid for b_ in grid for c_ in grid]

            def mk_(t_):
                return _Obj("term", **{cls_ + "::" + flag_: t_[0], cls_ + "::Poles": [t_[1], t_[2], t_[3]], cls_ + "::Coeff": sp.Integer(1), cls_ + "::ResCoeff": sp.Integer(1), cls_ + "::NonResCoeff": sp.Integer(1), cls_ + "::Weight": 1})
            cmpobj = _Obj("Compare", **{cls_ + "::Compare::Tolerance": sp.Integer(1)})
            ip_ = _Interp(db, {})
            less = {}
            for x_ in terms_:
                for y_ in terms_:
                    try:
                        less[(x_, y_)] = bool(ip_.call_fn(cf_[0], [mk_(x_), mk_(y_)], this=cmpobj))
                    except _Thrown as t_:
                        raise AnalysisBroken("the comparator throws (%s)" % t_.tt)
                    ip_.steps = 0
            similar = lambda x_, y_: x_[0] == y_[0] and all(abs(x_[k_] - y_[k_]) < 1 for k_ in (1, 2, 3))
            fmt_ = lambda t_: "(%s=%d, poles %s %s %s)" % (flag_, t_[0], t_[1], t_[2], t_[3])
            bad_ = None
            for x_ in terms_:
                for y_ in terms_:
                    a_, b_ = less[(x_, y_)], less[(y_, x_)]
                    if a_ and b_:
                        bad_ = "%s < %s and %s < %s both hold (tolerance 1): not an order, std::set with this comparator is undefined and like terms are not found" % (fmt_(x_), fmt_(y_), fmt_(y_), fmt_(x_))
                    elif similar(x_, y_) and (a_ or b_):
                        bad_ = "%s and %s agree within the tolerance in every pole but are ordered: like terms are kept apart instead of merged" % (fmt_(x_), fmt_(y_))
                    elif not similar(x_, y_) and not a_ and not b_:
                        bad_ = "%s and %s differ (form flag or a pole by more than the tolerance) but neither is less: they are treated as the same term and merged" % (fmt_(x_), fmt_(y_))
                    if bad_:
                        break
                if bad_:
                    break
            if bad_:
                r10.bad(site, cf_[0].loc(), bad_, cfgname)
            else:
                r10.ok(site, cf_[0].loc(), "strict order on %d sample terms; equivalent exactly when the flag agrees and all poles agree within the tolerance (comparator body interpreted)" % len(terms_), cfgname)

    r_idem = chk.rule("C02-R8", "prepare()/compute() are idempotent: the early-return level is the level the function establishes", "F1 pairing", 2)
    from checks.lehmann import check_status_guards
    check_status_guards(r_idem, db, cfgname, ("Pomerol::TwoParticleGF",))
    chk.undecided.append("equality with the triple Fourier integral of <T c c c+ c+>; the resonance decision for numerically near-degenerate levels (runtime comparison with ReduceResonanceTolerance)")


def _subkeys(k):
    if isinstance(k, tuple):
        yield k
        for x in k:
            if isinstance(x, tuple):
                yield from _subkeys(x)


def _nm(k):
    if k[0] in ("var", "param"):
        return k[2]
    if k[0] == "mcall":
        return k[1].split("::")[-1] + "(" + ",".join(_nm(x) for x in k[2:]) + ")"
    if k[0] == "op" and k[1] == "[]":
        return _nm(k[2]) + "[" + _nm(k[3]) + "]"
    return str(k[0])


if __name__ == "__main__":
    run_check("C02", "two-particle Green's function: multi-term, orderings, table path", body)
