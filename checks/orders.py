"""Comparators of small value classes that are used as container keys, decided by evaluating their extracted bodies on every
pair of a small domain (they only compare members; engine `summ`)."""
import itertools

from pv.facts import AnalysisBroken, strip_targs


def check_key_class(rule, db, cfgname, cls, fields, domain=(0, 1, 2)):
    """cls: record with integer members `fields` used as a std::map key.
       operator<  must be a strict total order on the tuples (distinct tuples are distinct keys, no cycles);
       operator== / operator!= (when defined) must agree with member-wise equality."""
    from pv.summ import Interp, Obj, Thrown
    vals = list(itertools.product(domain, repeat=len(fields)))
    mk = lambda v: Obj(cls, **{cls + "::" + f_: x_ for f_, x_ in zip(fields, v)})
    fmt = lambda v: "(" + ",".join(str(x_) for x_ in v) + ")"
    ops = {}
    for opn in ("operator<", "operator==", "operator!="):
        c = [x for x in db.fns.values() if strip_targs(x.name) == cls + "::" + opn and len(x.params) == 1 and x.body is not None and x.body >= 0]
        if len(c) == 1:
            ops[opn] = c[0]
    if "operator<" not in ops:
        raise AnalysisBroken("%s::operator< not found" % cls)
    ip = Interp(db, {})

    def table(fn):
        t = {}
        for x in vals:
            for y in vals:
                try:
                    t[(x, y)] = bool(ip.call_fn(fn, [mk(y)], this=mk(x)))
                except Thrown as e:
                    raise AnalysisBroken("%s throws (%s) on ordinary values" % (fn.qn, e.tt))
                ip.steps = 0
        return t
    lt = ops["operator<"]
    site = cls + "::operator<"
    with rule.guard(site, lt.loc(), cfgname):
        less = table(lt)
        bad = None
        for x in vals:
            for y in vals:
                if x == y and less[(x, y)]:
                    bad = "%s < itself" % fmt(x)
                elif x != y and less[(x, y)] and less[(y, x)]:
                    bad = "%s < %s and %s < %s both hold" % (fmt(x), fmt(y), fmt(y), fmt(x))
                elif x != y and not less[(x, y)] and not less[(y, x)]:
                    bad = "%s and %s are different index tuples but neither is less than the other: as map keys they are the same entry, one component overwrites / hides the other" % (fmt(x), fmt(y))
                if bad:
                    break
            if bad:
                break
        if bad is None:
            for x in vals:
                for y in [y for y in vals if less[(x, y)]]:
                    for z in vals:
                        if less[(y, z)] and not less[(x, z)]:
                            bad = "%s < %s < %s but not %s < %s (not transitive)" % (fmt(x), fmt(y), fmt(z), fmt(x), fmt(z))
                            break
                    if bad:
                        break
                if bad:
                    break
        if bad:
            rule.bad(site, lt.loc(), "operator< is not a strict total order on the index tuples: " + bad, cfgname)
        else:
            rule.ok(site, lt.loc(), "strict total order on all %d tuples over %s (comparator body interpreted)" % (len(vals), list(domain)), cfgname)
    for opn, want_eq in (("operator==", True), ("operator!=", False)):
        if opn not in ops:
            continue
        fn = ops[opn]
        site = cls + "::" + opn
        with rule.guard(site, fn.loc(), cfgname):
            t = table(fn)
            w = [(x, y) for x in vals for y in vals if t[(x, y)] != ((x == y) == want_eq)]
            if w:
                x, y = w[0]
                rule.bad(site, fn.loc(), "%s(%s, %s) is %s: it disagrees with member-wise equality (and with operator<, which tells the two %s)" % (opn, fmt(x), fmt(y), t[(x, y)], "apart" if x != y else "to be the same"), cfgname)
            else:
                rule.ok(site, fn.loc(), "agrees with member-wise equality on all %d pairs" % (len(vals) ** 2), cfgname)
