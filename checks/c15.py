"""C15 — vertex and its precomputed Matsubara storage are transparent (DESIGN.md §3 C15)."""
import sympy as sp

from pv.check import run_check
from pv.entail import entails
from pv.expr import Ctx, guard_facts, key_contains, key_subst
from pv.facts import AnalysisBroken, strip_targs
from pv.formula import Formula
from pv.loops import enclosing_loops, loop_shape, no_early_exit
from pv.cfg import acyclic_paths
from pv.paths import feasible, nodes_on_path, path_facts
from pv.symenv import env_along, value_key
from checks import lehmann as lh
from checks.lehmann import fld, THIS
from checks.c20 import fact_str

MC = "Pomerol::MatsubaraContainer4"
V4 = "Pomerol::Vertex4"


def body(chk, db, cfgname):
    fills = [f for f in db.fns.values() if strip_targs(f.name) == MC + "::fill"]
    ops = [f for f in db.fns.values() if strip_targs(f.name) == MC + "::operator()"]
    if not fills or not ops:
        raise AnalysisBroken("MatsubaraContainer4<Vertex4>::fill / operator() not instantiated in the analysed units")
    fill, op = sorted(fills, key=lambda x: x.qn)[0], sorted(ops, key=lambda x: x.qn)[0]
    fctx, octx = Ctx(fill, db), Ctx(op, db)
    fat, oat = guard_facts(fill, fctx), guard_facts(op, octx)
    VAL, OFF, NF = fld(MC + "::Values"), fld(MC + "::FermionicIndexOffset"), fld(MC + "::NumberOfMatsubaras")
    SRC = fld(MC + "::pSource")

    # ---- writer: Values[B](a,b) = pSource->value(m1,m2,m3)
    writes = []
    for j, n in fill.walk(fill.body):
        if (n["k"] == "bin" and n["op"] == "=") or (n["k"] == "call" and n.get("ck") == "op" and n.get("op") == "="):
            l = n["l"] if n["k"] == "bin" else n["args"][0]
            r = n["r"] if n["k"] == "bin" else n["args"][1]
            lk = fctx.key(l, inline=False)
            if lk[0] == "op" and lk[1] == "()" and lk[2][0] == "op" and lk[2][1] == "[]" and lk[2][2] == VAL:
                writes.append((j, lk, fctx.key(r)))
    if len(writes) != 1:
        raise AnalysisBroken("MatsubaraContainer4::fill: expected one write Values[B](a,b) = ..., found %d" % len(writes))
    Wj, wl, wr = writes[0]
    Bw, aw, bw = wl[2][3], wl[3], wl[4]
    pN = ("param", fill.params[1]["d"], fill.params[1]["n"])
    pS = ("param", fill.params[0]["d"], fill.params[0]["n"])
    # the parameters are stored in the members before the loops
    stores = {}
    for j, n in fill.walk(fill.body):
        if n["k"] == "bin" and n["op"] == "=":
            stores[fctx.key(n["l"], inline=False)] = (j, fctx.key(n["r"], inline=False))
    r1 = chk.rule("C15-R1", "reader/writer agreement of the storage layout: operator() reads exactly the slot fill() wrote for (n1,n2,n3)", "F7 table maps", 2)
    site = MC + "::fill:members"
    if stores.get(NF, (None, None))[1] == pN and stores.get(SRC, (None, None))[1] == pS and fill.cfg.dominates(fill.cfg.pos1(stores[NF][0]), fill.cfg.pos1(Wj)):
        r1.ok(site, fill.loc(stores[NF][0]), "NumberOfMatsubaras and pSource are stored before the table is filled", cfgname)
    else:
        r1.bad(site, fill.loc(), "fill() does not store its window size / source in the members the reader uses", cfgname)
    if not (wr[0] == "mcall" and wr[1].endswith("::value") and len(wr) == 6):
        raise AnalysisBroken("fill: stored value is not pSource->value(m1,m2,m3): %s" % (wr,))
    m = wr[3:6]
    # ---- reader: return Values[B'](a',b')
    reads = []
    fallbacks = []
    for j, n in op.walk(op.body):
        if n["k"] == "return" and n.get("sub") is not None:
            k = octx.key(n["sub"])
            if k[0] == "op" and k[1] == "()" and k[2][0] == "op" and k[2][1] == "[]" and k[2][2] == VAL:
                reads.append((j, k))
            else:
                fallbacks.append((j, k))
    if len(reads) != 1:
        raise AnalysisBroken("operator(): expected one return of a stored value, found %d" % len(reads))
    Rj, rk = reads[0]
    Br, ar, br = rk[2][3], rk[3], rk[4]
    n1, n2, n3 = [("param", p["d"], p["n"]) for p in op.params]
    # compose: substitute the reader's (B', a', b') into the writer's (m1,m2,m3); N(param of fill) := N(member)
    sub = {Bw[:2]: Br, aw[:2]: ar, bw[:2]: br}

    def f(k):
        if k[0] == "var" and k[:2] in sub:
            return sub[k[:2]]
        if k == pN:
            return NF
        return None
    F = Formula()
    s1, s2, s3 = F.name_atom(n1, "n1"), F.name_atom(n2, "n2"), F.name_atom(n3, "n3")
    F.name_atom(NF, "N")
    comp = [F.conv(key_subst(x, f)) for x in m]
    site = MC + ":W(R(n1,n2,n3))==(n1,n2,n3)"
    good = all(F.equal(c, s) for c, s in zip(comp, (s1, s2, s3)))
    offs = [a for a in F.syms if a[0] == "op" and a[1] == "[]" and a[2] == OFF]
    if good and len(set(offs)) <= 1:
        r1.ok(site, op.loc(Rj), "slot read for (n1,n2,n3) is the slot written for (n1,n2,n3); both sides use the same FermionicIndexOffset[B], B = n1+n2+2N", cfgname)
    else:
        r1.bad(site, op.loc(Rj), "the slot operator() reads for (n1,n2,n3) was filled with value(%s, %s, %s): storage is not transparent" % tuple(str(c) for c in comp), cfgname)

    r2 = chk.rule("C15-R2", "every subscript of the storage is inside the extents fill() established", "F8 bounds", 5)
    ext = ("op", "-", ("op", "*", ("lit", 4), NF), ("lit", 1))       # Values / FermionicIndexOffset are resized to 4N-1
    rs = {}
    for j, n in fill.walk(fill.body):
        if n["k"] == "call" and n["ck"] == "method" and strip_targs(n.get("cname") or "") == "std::vector::resize":
            ok_ = fctx.key(n["obj"])
            rs.setdefault(ok_, []).append(key_subst(fctx.key(n["args"][0]), lambda k: NF if k == pN else None))
    site = MC + "::fill:extents"
    F2 = Formula()
    Ns = F2.name_atom(NF, "N")
    okext = True
    for cont in (VAL, OFF):
        sizes = rs.get(cont, [])
        if not any(F2.equal(F2.conv(x), 4 * Ns - 1) for x in sizes):
            okext = False
    if okext:
        r2.ok(site, fill.loc(), "Values and FermionicIndexOffset are resized to 4N-1 (N > 0)", cfgname)
    else:
        r2.bad(site, fill.loc(), "the two tables are not both resized to 4N-1 bosonic slices", cfgname)
    # reader subscripts
    for j, n in op.walk(op.body):
        if n["k"] == "call" and n["ck"] == "op" and n["op"] == "[]" and octx.key(n["args"][0]) in (VAL, OFF):
            K = octx.key(n["args"][1])
            fa = oat.get(op.cfg.pos1(j), frozenset())
            site = MC + "::operator():%s[B]@%d" % (octx.key(n["args"][0])[1].split("::")[-1], len([1 for x in r2.instances if x["config"] == cfgname]))
            lo = entails(fa, ("<=", ("lit", 0), K))
            hi = entails(fa, ("<", K, ext))
            if lo and hi:
                r2.ok(site, op.loc(j), "0 <= B < 4N-1 on every path to the subscript", cfgname)
            else:
                r2.bad(site, op.loc(j), "%s[%s] is evaluated without a dominating %s: frequencies outside the window index past the table" % (
                    octx.key(n["args"][0])[1].split("::")[-1], op.s(n["args"][1])[:40], "lower bound 0 <= B" if not lo else "upper bound B <= 4N-2"), cfgname)
    fa = oat.get(op.cfg.pos1(Rj), frozenset())
    mat = rk[2]
    site = MC + "::operator():Values[B](a,b)"
    need = [("<=", ("lit", 0), ar), ("<=", ("lit", 0), br)]
    rows = [("mcall", "Eigen::PlainObjectBase::rows", mat), ("mcall", "Eigen::EigenBase::rows", mat)]
    cols = [("mcall", "Eigen::PlainObjectBase::cols", mat), ("mcall", "Eigen::EigenBase::cols", mat)]
    good = all(entails(fa, g) for g in need) and any(entails(fa, ("<", ar, r_)) for r_ in rows) and any(entails(fa, ("<", br, c_)) for c_ in cols)
    if good:
        r2.ok(site, op.loc(Rj), "0 <= a < rows and 0 <= b < cols of the slice", cfgname)
    else:
        r2.bad(site, op.loc(Rj), "the element of the slice is read without 0 <= a < rows() and 0 <= b < cols()", cfgname)
    # writer loops stay inside what was resized
    fa = fat.get(fill.cfg.pos1(Wj), frozenset())
    fa2 = {tuple(key_subst(x, lambda k: NF if k == pN else None) if isinstance(x, tuple) else x for x in fct) for fct in fa}
    site = MC + "::fill:loops-within-extents"
    Bk = key_subst(Bw, lambda k: None)
    shapes = {}
    for Lp in enclosing_loops(fill, Wj):
        shp = loop_shape(fill, fctx, Lp)
        if shp["var"] is not None:
            shapes[shp["var"][:2]] = shp

    def from_zero(v):
        s_ = shapes.get(v[:2])
        return s_ is not None and s_["kind"] == "index" and s_["start"] == ("lit", 0) and no_early_exit(s_)
    okB = entails(fa2, ("<", Bw, ext)) and from_zero(Bw)
    # slice resized to (S,S) with a,b < S
    sl = [x for x in rs if x[0] == "op" and x[1] == "[]" and x[2] == VAL]
    okab = False
    for j, n in fill.walk(fill.body):
        if n["k"] == "call" and n["ck"] == "method" and strip_targs(n.get("cname") or "").split("::")[-1] == "resize" and strip_targs(n.get("cname") or "").startswith("Eigen::"):
            ok_ = fctx.key(n["obj"], inline=False)
            if ok_ == wl[2] and len(n["args"]) == 2:
                r_, c_ = fctx.key(n["args"][0]), fctx.key(n["args"][1])
                if entails(fa, ("<", aw, r_)) and entails(fa, ("<", bw, c_)) and from_zero(aw) and from_zero(bw) \
                        and fill.cfg.dominates(fill.cfg.pos1(j), fill.cfg.pos1(Wj)):
                    okab = True
    if okB and okab:
        r2.ok(site, fill.loc(Wj), "0 <= B <= 4N-2 and 0 <= a,b < size the slice was resized to", cfgname)
    else:
        r2.bad(site, fill.loc(Wj), "fill() writes outside the extents it resized (%s)" % ("bosonic index" if not okB else "slice row/column"), cfgname)
    # N == 0 returns before 4N-1 is formed
    site = MC + "::fill:empty-window"
    rsz = [j for j, n in fill.walk(fill.body) if n["k"] == "call" and n["ck"] == "method" and strip_targs(n.get("cname") or "") == "std::vector::resize"
           and not (fctx.key(n["args"][0]) == ("lit", 0))]
    good = all(entails(fat.get(fill.cfg.pos1(j), frozenset()), ("!=", ("lit", 0), pN)) or entails(fat.get(fill.cfg.pos1(j), frozenset()), ("<", ("lit", 0), pN)) for j in rsz) and rsz
    if good:
        r2.ok(site, fill.loc(), "the 4N-1 extents are formed only for N != 0", cfgname)
    else:
        r2.bad(site, fill.loc(), "4N-1 is used as a size also for N == 0 (-1 converts to a huge unsigned size)", cfgname)

    r3 = chk.rule("C15-R3", "every miss falls back to the source with the arguments in order", "F1 dominance", 1)
    site = MC + "::operator():fallback"
    want = ("mcall", None, SRC, n1, n2, n3)
    good = bool(fallbacks)
    undecided_fb = None
    from pv.paths import return_cases as _rc
    for j, k in fallbacks:
        if k[0] == "mcall" and k[2] == THIS and not k[1].endswith("::value"):
            # the miss path is a private helper of the container (fetchFromSource(n1,n2,n3)): follow it one level
            cands = [x for x in db.fns.values() if strip_targs(x.name) == strip_targs(k[1]) and len(x.params) == len(k) - 3 and x.body is not None and x.body >= 0]
            rc_ = _rc(cands[0], Ctx(cands[0], db)) if len({x.hash if hasattr(x, "hash") else x.mangled for x in cands}) >= 1 and cands else None
            if rc_ and len(rc_) == 1:
                sub_ = {("param", p_["d"]): a_ for p_, a_ in zip(cands[0].params, k[3:])}
                k = key_subst(rc_[0]["key"], lambda y: sub_.get(y[:2]) if y[0] == "param" else None)
            else:
                undecided_fb = "the miss path calls %s, whose returned value could not be read" % k[1]
                continue
        if not (k[0] == "mcall" and k[1].endswith("::value") and k[2] == SRC and tuple(k[3:]) == (n1, n2, n3)):
            good = False
    if not good:
        r3.bad(site, op.loc(), "on a miss the value is not fetched as pSource->value(n1, n2, n3)", cfgname)
    elif undecided_fb:
        r3.unknown(site, op.loc(), undecided_fb, cfgname)
    else:
        r3.ok(site, op.loc(fallbacks[0][0]), "every non-table return is pSource->value(n1,n2,n3)", cfgname)

    # ---- the fallback dereferences pSource: it must be bound whenever the vertex can be read
    r5 = chk.rule("C15-R5", "the source pointer the fallback dereferences is bound for every window size: fill() stores it on every path, and compute() reaches fill() on every path to Status = Computed", "F1 must-pass-through", 2)
    site = MC + "::fill:source-bound"
    ctor_binds = False
    for c_ in [x for x in db.fns.values() if strip_targs(x.name) == MC + "::MatsubaraContainer4" and x.params]:
        for ini in c_.d.get("inits", []):
            if ini.get("fq", "").endswith("::pSource") and ini.get("written") and Ctx(c_, db).key(ini["e"])[0] == "param":
                ctor_binds = True
    sj = stores.get(SRC, (None, None))
    exits_ = [j for j, n in fill.walk(fill.body) if n["k"] == "return"]
    if ctor_binds:
        r5.ok(site, fill.loc(), "the source is bound by the container's constructor", cfgname)
    elif sj[0] is not None and sj[1] == pS and not enclosing_loops(fill, sj[0]) and all(fill.cfg.dominates(fill.cfg.pos1(sj[0]), fill.cfg.pos1(e)) for e in exits_) \
            and fill.cfg.dominates(fill.cfg.pos1(sj[0]), fill.cfg.pos1(Wj)):
        r5.ok(site, fill.loc(sj[0]), "pSource = (argument) dominates every return of fill(), including the empty-window return (%d returns)" % len(exits_), cfgname)
    elif sj[0] is not None and sj[1] == pS:
        late = [e for e in exits_ if not fill.cfg.dominates(fill.cfg.pos1(sj[0]), fill.cfg.pos1(e))]
        r5.bad(site, fill.loc(late[0]) if late else fill.loc(sj[0]), "fill() can return (line %s) before the source pointer is stored: a later read outside the (empty) window dereferences a null / stale pointer" % (
            fill.loc(late[0]).rsplit(":", 1)[-1] if late else "?"), cfgname)
    else:
        r5.unknown(site, fill.loc(), "how the container learns its source object is not analysed", cfgname)
    cmp_ = db.fn(V4 + "::compute", nparams=1)
    cctx_ = Ctx(cmp_, db)
    site = V4 + "::compute:fills-storage"
    STG = fld(V4 + "::Storage")
    fcalls = [j for j, n in cmp_.walk(cmp_.body) if n["k"] == "call" and n.get("ck") == "method" and strip_targs(n.get("cname") or "") == MC + "::fill" and cctx_.key(n["obj"]) == STG]
    sets_ = [j for j, n in cmp_.walk(cmp_.body) if n["k"] == "bin" and n["op"] == "=" and cctx_.key(n["l"]) == fld("Pomerol::ComputableObject::Status")]
    if ctor_binds:
        r5.ok(site, cmp_.loc(), "the source is bound by the container's constructor", cfgname)
    elif len(fcalls) == 1 and sets_:
        fk = cctx_.key(fcalls[0])
        argok = fk[3] == THIS and fk[4] == ("param", cmp_.params[0]["d"], cmp_.params[0]["n"])
        dom = all(cmp_.cfg.dominates(cmp_.cfg.pos1(fcalls[0]), cmp_.cfg.pos1(e)) for e in sets_)
        if not argok:
            r5.bad(site, cmp_.loc(fcalls[0]), "Storage.fill is not called with (this, NumberOfMatsubaras)", cfgname)
        elif dom:
            r5.ok(site, cmp_.loc(fcalls[0]), "Storage.fill(this, N) is executed on every path that sets Status = Computed, for every N", cfgname)
        else:
            fa_ = guard_facts(cmp_, cctx_).get(cmp_.cfg.pos1(fcalls[0]), frozenset())
            r5.bad(site, cmp_.loc(fcalls[0]), "Status becomes Computed on a path that skips Storage.fill (it is called only when %s), and only fill() tells the storage which object to fall back to: every read of such a vertex dereferences a null pointer" % (
                " and ".join(sorted(fact_str(x) for x in fa_)) or "a condition holds"), cfgname)
    else:
        r5.unknown(site, cmp_.loc(), "compute() does not fill the storage by one call of Storage.fill (form not analysed)", cfgname)

    r4 = chk.rule("C15-R4", "vertex == chi + [n1=n3] beta G13(n1) G24(n2) - [n2=n3] beta G14(n1) G23(n2); operator() reads the storage filled from value()", "F6 formula", 3)
    v = db.fn(V4 + "::value", nparams=3)
    vctx = Ctx(v, db)
    vat = guard_facts(v, vctx)
    a1, a2, a3 = [("param", p["d"], p["n"]) for p in v.params]
    F = Formula()
    beta = F.name_atom(fld("Pomerol::Thermal::beta"), "beta")

    def g(name, arg):
        k = ("op", "()", fld(V4 + "::" + name), arg)
        return F.name_atom(k, "%s_%s" % (name, arg[2][-1]))
    chi = F.name_atom(("op", "()", fld(V4 + "::Chi4"), a1, a2, a3), "chi")
    G13, G24, G14, G23 = g("G13", a1), g("G24", a2), g("G14", a1), g("G23", a2)
    site = V4 + "::value"
    # Decided path by path: the function touches (n1, n2, n3) only through comparisons and as arguments, so the five
    # equality patterns of the triple are an exhaustive case table.  For every pattern, every feasible path to a return
    # must return chi + [n1==n3] beta G13(n1) G24(n2) - [n2==n3] beta G14(n1) G23(n2) (arguments compared modulo the
    # pattern's equalities).  An early return, a dropped term or a term under the wrong test all show as a (pattern, path).
    def eqf(x, y):
        return ("==",) + tuple(sorted([x, y], key=repr))

    def nef(x, y):
        return ("!=",) + tuple(sorted([x, y], key=repr))
    PATTERNS = [
        ("n1, n2, n3 all different", [nef(a1, a3), nef(a2, a3), nef(a1, a2)], {}, 0, 0),
        ("n1 == n3 != n2", [eqf(a1, a3), nef(a2, a3), nef(a1, a2)], {a3: a1}, 1, 0),
        ("n2 == n3 != n1", [nef(a1, a3), eqf(a2, a3), nef(a1, a2)], {a3: a2}, 0, 1),
        ("n1 == n2 != n3", [nef(a1, a3), nef(a2, a3), eqf(a1, a2)], {}, 0, 0),
        ("n1 == n2 == n3", [eqf(a1, a3), eqf(a2, a3), eqf(a1, a2)], {a3: a1, a2: a1}, 1, 1),
    ]
    probs = []
    undecided = None
    if any(n["k"] in ("for", "while", "do", "forrange") for _, n in v.walk(v.body)):
        undecided = "value() contains a loop (form not analysed)"
    else:
        vpaths = acyclic_paths(v.cfg, v.cfg.entry, {v.cfg.exit})
        if not vpaths or len(vpaths) > 512:
            undecided = "the paths of value() cannot be enumerated"
    if undecided is None:
        pinfo = []
        for pth in vpaths:
            rets = [j for j in nodes_on_path(v, pth) if v.nodes[j]["k"] == "return"]
            if len(rets) != 1 or v.nodes[rets[0]].get("sub") is None:
                continue
            envs = env_along(v, vctx, pth)
            try:
                rk = value_key(v, vctx, envs, v.nodes[rets[0]]["sub"], at_node=rets[0])
            except AnalysisBroken as e_:
                undecided = str(e_)
                break
            pinfo.append((pth, path_facts(v, vctx, pth), rets[0], rk))
        if undecided is None and not pinfo:
            undecided = "no returning path found in value()"
    if undecided is None:
        for pname, pf_, sub_, i13, i23 in PATTERNS:
            def sb(k, sub_=sub_):
                return key_subst(k, lambda x: sub_.get(x))
            exp_ = F.conv(sb(("op", "()", fld(V4 + "::Chi4"), a1, a2, a3)))
            if i13:
                exp_ = exp_ + beta * F.conv(sb(("op", "()", fld(V4 + "::G13"), a1))) * F.conv(sb(("op", "()", fld(V4 + "::G24"), a2)))
            if i23:
                exp_ = exp_ - beta * F.conv(sb(("op", "()", fld(V4 + "::G14"), a1))) * F.conv(sb(("op", "()", fld(V4 + "::G23"), a2)))
            nfeas = 0
            for pth, pfacts, rj, rk in pinfo:
                if not feasible(set(pfacts) | set(pf_)):
                    continue
                nfeas += 1
                try:
                    got = F.conv(sb(rk))
                except AnalysisBroken as e_:
                    undecided = str(e_)
                    break
                if not F.equal(got, exp_):
                    probs.append("for %s the path returning at line %s yields %s instead of %s" % (pname, v.loc(rj).rsplit(":", 1)[-1], F.show(got), F.show(exp_)))
            if undecided is not None:
                break
            if nfeas == 0:
                undecided = "no feasible returning path for the pattern %s" % pname
                break
    if undecided is not None:
        r4.unknown(site, v.loc(), undecided, cfgname)
    elif probs:
        r4.bad(site, v.loc(), "; ".join(sorted(set(probs))[:4]), cfgname)
    else:
        r4.ok(site, v.loc(), "chi(n1,n2,n3) + [n1==n3] beta G13(n1)G24(n2) - [n2==n3] beta G14(n1)G23(n2) on every path, for each of the 5 equality patterns of (n1,n2,n3) (%d paths)" % len(pinfo), cfgname)
    o = db.fn(V4 + "::operator()", nparams=3)
    octx2 = Ctx(o, db)
    b1, b2, b3 = [("param", p["d"], p["n"]) for p in o.params]
    rets = [j for j, n in o.walk(o.body) if n["k"] == "return"]
    site = V4 + "::operator()"
    if len(rets) == 1 and octx2.key(o.nodes[rets[0]]["sub"]) == ("op", "()", fld(V4 + "::Storage"), b1, b2, b3):
        r4.ok(site, o.loc(), "Storage(n1,n2,n3)", cfgname)
    else:
        r4.bad(site, o.loc(), "operator() does not read Storage(n1,n2,n3) in this argument order", cfgname)
    c = db.fn(V4 + "::compute", nparams=1)
    cctx = Ctx(c, db)
    site = V4 + "::compute"
    calls = [j for j, n in c.walk(c.body) if n["k"] == "call" and strip_targs(n.get("cname") or "") == MC + "::fill"]
    if len(calls) == 1 and cctx.key(calls[0]) == ("mcall", strip_targs(c.nodes[calls[0]]["cname"]), fld(V4 + "::Storage"), THIS, ("param", c.params[0]["d"], c.params[0]["n"])):
        r4.ok(site, c.loc(), "Storage.fill(this, NumberOfMatsubaras)", cfgname)
    else:
        r4.bad(site, c.loc(), "compute(N) does not fill the storage from this vertex with window N", cfgname)
    ctor = [x for x in db.fns_named(V4 + "::Vertex4") if x.kind == "ctor" and len(x.params) == 5]
    site = V4 + "::Vertex4:member-binding"
    good = False
    if len(ctor) == 1:
        k_ = Ctx(ctor[0], db)
        m_ = {i.get("field"): k_.key(i["e"]) for i in ctor[0].d.get("inits", []) if i.get("field")}
        good = all(m_.get(nm, ("x",))[:2] == ("param", ctor[0].params[i]["d"]) for i, nm in enumerate(["Chi4", "G13", "G24", "G14", "G23"]))
    if good:
        r4.ok(site, ctor[0].loc(), "(Chi4, G13, G24, G14, G23) initialise the members of the same name", cfgname)
    else:
        r4.bad(site, ctor[0].loc() if ctor else v.loc(), "constructor arguments are not bound to the members of the same role (e.g. G14/G23 exchanged)", cfgname)
    chk.undecided.append("that chi0 built from G is the documented disconnected combination for the caller's choice of G13..G23 (the caller passes them); numerical equality of stored and recomputed values")


if __name__ == "__main__":
    run_check("C15", "vertex and Matsubara storage transparency", body)
