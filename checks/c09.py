"""C09 — density matrix is the normalised Gibbs state; averages are its traces (DESIGN.md §3 C09)."""
import sympy as sp

from pv.check import run_check
from pv.entail import entails
from pv.expr import Ctx, guard_facts, key_contains
from pv.facts import AnalysisBroken, strip_targs
from pv.formula import Formula, exp_args
from pv.loops import covers, enclosing_loops, is_element, loop_shape, sum_over, no_early_exit
from checks import lehmann as lh
from checks.lehmann import fld, THIS

DMP = "Pomerol::DensityMatrixPart"
DM = "Pomerol::DensityMatrix"
EA = "Pomerol::EnsembleAverage"


def full_index_loop(f, ctx, node, bound_keys):
    L = enclosing_loops(f, node)
    for Lp in L:
        shp = loop_shape(f, ctx, Lp)
        if shp["kind"] == "index" and shp["start"] == ("lit", 0) and shp["rel"] == "<" and shp["bound"] in bound_keys and no_early_exit(shp):
            return shp
    return None


def unk(f, what):
    raise AnalysisBroken("unknown idiom in %s (%s): %s — the rule cannot be decided for this code shape" % (f.qn, f.loc(), what))


def body(chk, db, cfgname):
    W = fld(DMP + "::weights")
    Zp = fld(DMP + "::Z_part")
    hp = fld(DMP + "::hpart")
    wsize = [("mcall", "Eigen::EigenBase::size", W), ("mcall", "Eigen::PlainObjectBase::size", W), ("mcall", "Eigen::PlainObjectBase::rows", W),
             ("mcall", "Pomerol::HamiltonianPart::getSize", hp), ("field", "Pomerol::HamiltonianPart::getSize", hp)]

    r1 = chk.rule("C09-R1", "weights are exp(-beta(E-E0)), summed into Z over ALL blocks before any normalisation, then all blocks are divided by Z", "F6+F1", 4)

    def _sec_r1():
        f = db.fn(DMP + "::computeUnnormalized", nparams=0)
        ctx = Ctx(f, db)
        F = Formula(real_atoms=True)
        beta = F.name_atom(fld("Pomerol::Thermal::beta"), "beta")
        E0 = F.name_atom(fld(DMP + "::GroundEnergy"), "E0")
        asg = [j for j, n in f.walk(f.body) if ((n["k"] == "bin" and n["op"] == "=") or (n["k"] == "call" and n.get("ck") == "op" and n.get("op") == "="))
               and ctx.key(n["l"] if n["k"] == "bin" else n["args"][0], inline=False)[:3] == ("op", "()", W)]
        site = DMP + "::computeUnnormalized:weight"
        exparg = None
        if len(asg) != 1:
            unk(f, "weights are not assigned element-wise as weights(s) = ... (%d such assignments)" % len(asg))
        else:
            A = asg[0]
            n = f.nodes[A]
            lk = ctx.key(n["l"] if n["k"] == "bin" else n["args"][0], inline=False)
            s_ = lk[3]
            shp = full_index_loop(f, ctx, A, wsize)
            Es = F.name_atom(("mcall", "Pomerol::HamiltonianPart::getEigenValue", hp, s_), "E_s")
            got = F.conv(ctx.key(n["r"] if n["k"] == "bin" else n["args"][1]))
            want = sp.exp(-beta * (Es - E0))
            if shp is None:
                anyloop = [loop_shape(f, ctx, x) for x in enclosing_loops(f, A)]
                if any(x["kind"] == "index" and x["var"] is not None and x["var"][:2] == s_[:2] for x in anyloop):
                    r1.bad(site, f.loc(A), "weights are not assigned for every state s in [0, block size): the loop over s is not full-range", cfgname)
                    return
                unk(f, "the weight assignment is not inside an index loop")
            elif shp["var"][:2] != s_[:2]:
                r1.bad(site, f.loc(A), "weights are not assigned for every state s in [0, block size)", cfgname)
            elif F.equal(got, want):
                r1.ok(site, f.loc(A), "weights(s) = exp(-beta*(E_s - GroundEnergy)) for every s", cfgname)
                exparg = exp_args(got)
            else:
                r1.bad(site, f.loc(A), "weights(s) = %s, the Gibbs weight is %s%s" % (got, want, lh.wit(F, got, want)), cfgname)
            # Z_part
            site = DMP + "::computeUnnormalized:Z_part"
            acc = [j for j, n2 in f.walk(f.body) if ((n2["k"] == "bin" and n2["op"] == "+=") or (n2["k"] == "call" and n2.get("ck") == "op" and n2.get("op") == "+=")) and
                   ctx.key(n2["l"] if n2["k"] == "bin" else n2["args"][0]) == Zp]
            zero = [j for j, n2 in f.walk(f.body) if n2["k"] == "bin" and n2["op"] == "=" and ctx.key(n2["l"]) == Zp and ctx.key(n2["r"]) == ("lit", 0)]
            rets = [j for j, n2 in f.walk(f.body) if n2["k"] == "return" and n2.get("sub") is not None and ctx.key(n2["sub"]) == Zp]
            good = len(acc) == 1 and len(zero) == 1 and rets and full_index_loop(f, ctx, acc[0], wsize) is not None
            if good:
                n2 = f.nodes[acc[0]]
                rnode = n2["r"] if n2["k"] == "bin" else n2["args"][1]
                rk = ctx.key(rnode, inline=False)
                reads_stored = rk == ("op", "()", W, s_) and f.cfg.dominates(f.cfg.pos1(A), f.cfg.pos1(acc[0]))
                # ... or adds the very value that is stored (a local holding the weight, or the same expression)
                same_value = F.equal(F.conv(ctx.key(rnode)), got) and enclosing_loops(f, acc[0])[:1] == enclosing_loops(f, A)[:1]
                good = (reads_stored or same_value) and not enclosing_loops(f, zero[0])
            if good:
                r1.ok(site, f.loc(acc[0]), "Z_part = 0; Z_part += weights(s) in the same loop; returned", cfgname)
            else:
                r1.bad(site, f.loc(), "the partial partition function is not the sum of all weights of the block (reset, accumulate after assignment, return)", cfgname)
        g = db.fn(DM + "::compute", nparams=0)
        gctx = Ctx(g, db)
        site = DM + "::compute:two-phase"
        loops = []
        for j, n in g.walk(g.body):
            if n["k"] == "for":
                shp = loop_shape(g, gctx, j)
                loops.append((j, shp))
        ph1 = ph2 = None
        norm_calls = [jj for jj, nn in g.walk(g.body) if nn["k"] == "call" and strip_targs(nn.get("cname") or "") == DMP + "::normalize"]
        cu_calls = [jj for jj, nn in g.walk(g.body) if nn["k"] == "call" and strip_targs(nn.get("cname") or "") == DMP + "::computeUnnormalized"]
        partial = None
        for j, shp in loops:
            inside = [(jj, strip_targs(nn.get("cname") or "")) for jj, nn in g.walk(shp["body"]) if nn["k"] == "call" and strip_targs(nn.get("cname") or "") in (DMP + "::computeUnnormalized", DMP + "::normalize")]
            if not inside:
                continue
            if covers(shp, fld(DM + "::parts")):
                for jj, cn_ in inside:
                    obj = gctx.key(g.nodes[jj]["obj"]) if g.nodes[jj].get("obj") is not None else None
                    if obj is None or not is_element(obj, shp, fld(DM + "::parts")):
                        partial = "%s is not called on the part visited by the loop (%s)" % (cn_.split("::")[-1], g.s(jj)[:60])
                    from pv.paths import every_iteration
                    if every_iteration(g, j, jj) is False:
                        partial = "%s is skipped for some parts (an `if` / `continue` inside the loop over the parts bypasses it)" % cn_.split("::")[-1]
                    if cn_.endswith("computeUnnormalized"):
                        ph1 = (j, shp, jj)
                    else:
                        ph2 = (j, shp, jj)
            elif shp["kind"] in ("index", "iter"):
                partial = "the loop at %s around %s does not visit every part (start %s, bound %s, early exits %s)" % (
                    g.loc(j), inside[0][1].split("::")[-1], shp.get("start"), shp.get("bound"), [e[1] for e in shp["exits"]])
            else:
                unk(g, "loop around %s is neither an index loop nor an iterator loop over parts" % inside[0][1].split("::")[-1])
        good = False
        why = partial or "the partition function is not accumulated over all blocks in one full loop and applied in a second full loop"
        if partial is None and not (ph1 and ph2) and len(norm_calls) == 1 and len(cu_calls) == 1:
            unk(g, "computeUnnormalized()/normalize() are not called from loops over the parts (algorithm / helper form)")
        if partial is None and (len(norm_calls) == 0 or len(cu_calls) == 0):
            unk(g, "computeUnnormalized()/normalize() are not called directly in compute() (closure / helper / algorithm form)")
        if partial is not None:
            pass
        elif len(norm_calls) != 1 or len(cu_calls) != 1:
            why = "computeUnnormalized() / normalize() are not each called from exactly one place (%d / %d): a block is normalised twice or with a partial sum" % (len(cu_calls), len(norm_calls))
        elif ph1 and ph2 and ph1[0] != ph2[0]:
            h1, b1 = g.cfg.loop_blocks(ph1[0])
            h2, b2 = g.cfg.loop_blocks(ph2[0])
            zk = gctx.key(g.nodes[ph2[2]]["args"][0], inline=False)
            # Z accumulates every computeUnnormalized()
            accs = [m for m in gctx.mut.get(zk[1], [])] if zk[0] == "var" else []
            acc_ok = len(accs) == 1 and g.nodes[accs[0]]["k"] == "bin" and g.nodes[accs[0]]["op"] == "+=" and g.nodes[accs[0]]["r"] == ph1[2] and \
                gctx.key(gctx.decls[zk[1]]["init"]) == ("lit", 0)
            after = g.cfg.dominates_block(h1, h2) and h2 not in b1
            if acc_ok and after:
                good = True
            elif not after:
                why = "blocks are normalised before the total partition function is known (normalisation inside / before the accumulation loop)"
            else:
                why = "the value handed to normalize() is not the sum of computeUnnormalized() over all blocks starting from 0"
        elif ph1 and ph2:
            why = "normalisation happens inside the loop that accumulates Z: early blocks are divided by a partial sum"
        if good:
            r1.ok(site, g.loc(), "Z = sum over all parts of computeUnnormalized(); then normalize(Z) for all parts", cfgname)
        else:
            r1.bad(site, g.loc(), why, cfgname)
        h = db.fn(DMP + "::normalize", nparams=1)
        hctx = Ctx(h, db)
        Zk = ("param", h.params[0]["d"], h.params[0]["n"])
        divs = {}
        for j, n in h.walk(h.body):
            if (n["k"] == "bin" and n["op"] == "/=") or (n["k"] == "call" and n.get("ck") == "op" and n.get("op") == "/="):
                l = n["l"] if n["k"] == "bin" else n["args"][0]
                r = n["r"] if n["k"] == "bin" else n["args"][1]
                divs[hctx.key(l)] = hctx.key(r)
        site = DMP + "::normalize"
        if divs.get(W) == Zk and divs.get(Zp) == Zk:
            r1.ok(site, h.loc(), "weights /= Z and Z_part /= Z", cfgname)
        else:
            r1.bad(site, h.loc(), "normalize(Z) does not divide both the weights and the partial partition function by Z", cfgname)

    with r1.guard("r1:section", "(see detail)", cfgname):
        _sec_r1()
    r2 = chk.rule("C09-R2", "overflow safety: the exp argument is -beta*(E - global ground energy) <= 0; every block gets the global ground energy and its own Hamiltonian block", "F6 sign domain + F5", 2)

    def _sec_r2():
        p = db.fn(DM + "::prepare", nparams=0)
        pctx = Ctx(p, db)
        news = [j for j, n in p.walk(p.body) if n["k"] == "new" and n["at"] == DMP]
        site = DM + "::prepare:part-arguments"
        if len(news) != 1:
            raise AnalysisBroken("DensityMatrix::prepare: expected one new DensityMatrixPart")
        N = news[0]
        nk = pctx.key(N)
        a = nk[2]
        par = p.parent_map().get(N)
        pn = p.nodes[par]
        lk = pctx.key(pn["l"], inline=False) if pn["k"] == "bin" and pn["op"] == "=" else None
        shp = full_index_loop(p, pctx, N, [("mcall", "std::vector::size", fld(DM + "::parts")), ("mcall", "Pomerol::StatesClassification::NumberOfBlocks", fld(DM + "::S")),
                                           ("ctor", "Pomerol::BlockNumber", ("mcall", "std::vector::size", fld(DM + "::parts")))])
        good = False
        if shp is not None and lk is not None and len(a) == 6:
            nvar = shp["var"]
            idxk = lh.strip_conv(lk[3]) if lk[0] == "op" and lk[1] == "[]" else None
            from checks.c07 import deconv
            good = lk[0] == "op" and lk[2] == fld(DM + "::parts") and deconv(lk[3])[:2] == nvar[:2] and \
                a[3][0] == "mcall" and a[3][1] == "Pomerol::Hamiltonian::getPart" and a[3][2] == fld(DM + "::H") and deconv(a[3][3])[:2] == nvar[:2] and \
                a[4] == fld("Pomerol::Thermal::beta") and a[5] in (("field", "Pomerol::Hamiltonian::GroundEnergy", fld(DM + "::H")), ("mcall", "Pomerol::Hamiltonian::getGroundEnergy", fld(DM + "::H")))
        if good:
            r2.ok(site, p.loc(N), "parts[n] = DensityMatrixPart(S, H.getPart(n), beta, H.getGroundEnergy()) for every block n", cfgname)
        else:
            r2.bad(site, p.loc(N), "a block's density-matrix part is not built from its own Hamiltonian block, beta and the GLOBAL ground energy (with a per-block energy offset the weights of different blocks are not in the ratio exp(-beta dE); with none they overflow)", cfgname)
        ctor = [x for x in db.fns_named(DMP + "::DensityMatrixPart") if x.kind == "ctor" and len(x.params) == 4]
        site = DMP + "::DensityMatrixPart:member-binding"
        good = False
        if len(ctor) == 1:
            c = ctor[0]
            cctx = Ctx(c, db)
            m = {i.get("field"): cctx.key(i["e"]) for i in c.d.get("inits", []) if i.get("field")}
            bases = [cctx.key(i["e"]) for i in c.d.get("inits", []) if i.get("base") and "Thermal" in i["base"]]
            pk = [("param", q["d"], q["n"]) for q in c.params]
            good = m.get("S") == pk[0] and m.get("hpart") == pk[1] and m.get("GroundEnergy") == pk[3] and bases and key_contains(bases[0], lambda y: y == pk[2]) and m.get("retained") == ("lit", 1)
        if good:
            r2.ok(site, c.loc(), "(S, hpart, beta, GroundEnergy) initialise the members of the same role; retained = true", cfgname)
        else:
            r2.bad(site, ctor[0].loc() if ctor else p.loc(), "constructor parameters are not stored in the members of the same role", cfgname)
        ge = db.fn("Pomerol::Hamiltonian::computeGroundEnergy", nparams=0)
        gectx = Ctx(ge, db)
        site = "Pomerol::Hamiltonian::computeGroundEnergy"
        from checks.lehmann import ground_energy_verdict
        gv, gwhy = ground_energy_verdict(db)
        if gv == "unknown":
            raise AnalysisBroken("Hamiltonian::computeGroundEnergy: " + gwhy)
        good = gv == "ok"
        mev = db.fn("Pomerol::HamiltonianPart::getMinimumEigenvalue", nparams=0)
        mctx = Ctx(mev, db)
        mins = [j for j, n in mev.walk(mev.body) if n["k"] == "return" and mctx.key(n["sub"]) == ("mcall", "Eigen::DenseBase::minCoeff", fld("Pomerol::HamiltonianPart::Eigenvalues"))]
        if good and mins:
            r2.ok(site, ge.loc(), "GroundEnergy = min over all blocks of the block's minimal eigenvalue, hence E - GroundEnergy >= 0 and the exp argument is <= 0 for beta > 0", cfgname)
        else:
            r2.bad(site, ge.loc(), "the ground energy is not the minimum over ALL blocks of the blocks' minimal eigenvalues: weights exp(-beta(E-E0)) can overflow (%s)" % (gwhy if not good else "getMinimumEigenvalue is not Eigenvalues.minCoeff()"), cfgname)

        # --- every exp() in the weight computation: invariant under a common energy shift, argument <= 0
        cu = db.fn(DMP + "::computeUnnormalized", nparams=0)
        cctx2 = Ctx(cu, db)
        from pv.symenv import env_at, value_key
        envs = env_at(cu, cctx2)
        exps = []
        for j, n in cu.walk(cu.body):
            if n["k"] == "call" and n["ck"] == "func" and strip_targs(n.get("cname") or "") in ("exp", "std::exp") and len(n["args"]) == 1:
                exps.append((j, value_key(cu, cctx2, envs, n["args"][0], j)))
            elif n["k"] == "call" and n["ck"] == "method" and strip_targs(n.get("cname") or "").startswith("Eigen::") and strip_targs(n.get("cname") or "").endswith("::exp"):
                exps.append((j, value_key(cu, cctx2, envs, n["obj"], j)))
        site = DMP + "::computeUnnormalized:exp-arguments"
        if not exps:
            raise AnalysisBroken("no exp() found in DensityMatrixPart::computeUnnormalized: the Gibbs weight is computed by an unknown idiom")
        Fx = Formula(real_atoms=True)
        bsym = Fx.name_atom(fld("Pomerol::Thermal::beta"), "beta")
        e0 = Fx.name_atom(fld(DMP + "::GroundEnergy"), "E0")
        E = sp.Symbol("E", real=True)
        hp_ = fld(DMP + "::hpart")

        def energy_atoms(k):
            # any eigenvalue of this block (scalar accessor, whole vector, or the member itself) is "an energy E >= E0"
            if k[0] == "mcall" and k[1] in ("Pomerol::HamiltonianPart::getEigenValue", "Pomerol::HamiltonianPart::getEigenValues") and k[2] == hp_:
                return True
            if k[0] == "field" and k[1] == "Pomerol::HamiltonianPart::Eigenvalues" and k[2] == hp_:
                return True
            return False
        from pv.expr import key_subst as _ks
        problems = []
        for j, ak in exps:
            ak2 = _ks(ak, lambda k: ("energy",) if energy_atoms(k) else None)
            Fx.syms[("energy",)] = E
            ex = Fx.conv(ak2)
            extra = [s_ for s_ in ex.free_symbols if s_ not in (bsym, e0, E)]
            if extra:
                raise AnalysisBroken("exp argument %s contains quantities the sign analysis does not know (%s)" % (ex, extra))
            dlt = sp.Symbol("Delta", real=True)       # E = E0 + Delta, Delta >= 0
            ex2 = sp.expand(ex.subs(E, e0 + dlt))
            if e0 in ex2.free_symbols:
                problems.append((j, "exp(%s) depends on the absolute energy offset (not only on E - GroundEnergy): it overflows or underflows to 0 for a large offset or large beta*|E0| although the weights themselves are well defined" % ex))
                continue
            from pv.formula import nonpositive
            if nonpositive(ex2, {bsym: "+", dlt: "0+"}) is not True:
                problems.append((j, "exp(%s) can have a positive argument for beta > 0 and E >= GroundEnergy" % ex))
        if problems:
            r2.bad(site, cu.loc(problems[0][0]), "; ".join(p_[1] for p_ in problems), cfgname)
        else:
            r2.ok(site, cu.loc(exps[0][0]), "%d exp() call(s): arguments depend on E - GroundEnergy only and are <= 0" % len(exps), cfgname)
    with r2.guard("r2:section", "(see detail)", cfgname):
        _sec_r2()
    r3 = chk.rule("C09-R3", "averages are weighted sums over eigenvectors expanded in the Fock states of the part's own block", "F5+F6", 8)

    def _sec_r3():
        f = db.fn(DMP + "::getAverageEnergy", nparams=0)
        ctx = Ctx(f, db)
        acc = [j for j, n in f.walk(f.body) if n["k"] == "bin" and n["op"] == "+="]
        site = DMP + "::getAverageEnergy"
        good = False
        shape_ok = False
        if len(acc) == 1:
            shp = full_index_loop(f, ctx, acc[0], wsize)
            if shp is not None:
                shape_ok = True
                s_ = shp["var"]
                F = Formula()
                w = F.name_atom(("op", "()", W, s_), "w_s")
                e = F.name_atom(("mcall", "Pomerol::HamiltonianPart::getEigenValue", hp, s_), "E_s")
                got = F.conv(ctx.key(f.nodes[acc[0]]["r"]))
                good = F.equal(got, w * e) and starts_zero_and_returned(f, ctx, acc[0])
        if good:
            r3.ok(site, f.loc(), "sum_s weights(s)*E_s", cfgname)
        elif not shape_ok:
            unk(f, "the average energy is not accumulated by one += inside a full loop over the states of the block")
        else:
            r3.bad(site, f.loc(), "average energy is not sum over all states s of weights(s)*getEigenValue(s)", cfgname)
        occ = [(DMP + "::getAverageOccupancy", 0, "count"), (DMP + "::getAverageOccupancy", 1, "test"), (DMP + "::getAverageDoubleOccupancy", 2, "pair")]
        for qn, npar, kind in occ:
            f = db.fn(qn, nparams=npar)
            ctx = Ctx(f, db)
            site = "%s/%d" % (qn, npar)
            acc = [j for j, n in f.walk(f.body) if n["k"] == "bin" and n["op"] == "+="]
            rep = [j for j, n in f.walk(f.body) if n["k"] == "call" and (n.get("cname") or "").endswith("StatesClassification::getFockState") and len(n["args"]) == 2
                   and ctx.key(n["args"][1])[0] == "lit"]
            if rep:
                r3.bad(site, f.loc(rep[0]), "one Fock state of the block (%s) stands for all of them: the average is right only if every state of a block has the same occupation, which depends on the partition (false with symmetries ignored or without N among the integrals of motion)" % f.s(rep[0])[:60], cfgname)
                continue
            if len(acc) != 1:
                unk(f, "expected one accumulation statement n += ..., found %d" % len(acc))
            A = acc[0]
            L = enclosing_loops(f, A)
            shapes = [loop_shape(f, ctx, x) for x in L]
            outer = [s for s in shapes if s["kind"] == "index" and s["bound"] in wsize and s["start"] == ("lit", 0) and no_early_exit(s)]
            probs = []
            if len(outer) != 1:
                unk(f, "the accumulation is not inside a full index loop over the eigenstates of the block")
            s_ = outer[0]["var"]
            vec = ("mcall", "Pomerol::HamiltonianPart::getEigenState", hp, s_)
            inner = [s for s in shapes if s is not outer[0] and s["kind"] == "index" and s["start"] == ("lit", 0) and no_early_exit(s) and
                     s["bound"][0] == "mcall" and s["bound"][1].endswith("::size") and s["bound"][2] == vec]
            if len(inner) != 1:
                inner_any = [s for s in shapes if s is not outer[0] and s["kind"] == "index"]
                if inner_any:
                    r3.bad(site, f.loc(A), "the inner loop does not run over all Fock components of eigenvector s (bound must be the size of hpart.getEigenState(s), from 0)", cfgname)
                    continue
                unk(f, "no inner index loop over the Fock components of the eigenvector")
            fi = inner[0]["var"]
            F = Formula()
            w = F.name_atom(("op", "()", W, s_), "w_s")
            v = F.name_atom(("op", "()", vec, fi), "v_sf")
            fock = ("mcall", "Pomerol::StatesClassification::getFockState", fld(DMP + "::S"), ("mcall", "Pomerol::HamiltonianPart::getBlockNumber", hp), fi)
            fock2 = ("mcall", "Pomerol::StatesClassification::getFockState", fld(DMP + "::S"), ("field", "Pomerol::HamiltonianPart::Block", hp), fi)
            if kind == "count":
                gs = [F.name_atom(("mcall", "boost::dynamic_bitset::count", fk), "n_f") for fk in (fock,)]
                F.alias[("mcall", "boost::dynamic_bitset::count", fock2)] = ("mcall", "boost::dynamic_bitset::count", fock)
                gexp = gs[0]
            elif kind == "test":
                i_ = ("param", f.params[0]["d"], f.params[0]["n"])
                F.alias[("mcall", "boost::dynamic_bitset::test", fock2, i_)] = ("mcall", "boost::dynamic_bitset::test", fock, i_)
                gexp = F.name_atom(("mcall", "boost::dynamic_bitset::test", fock, i_), "bit_i")
            else:
                i_, j_ = [("param", q["d"], q["n"]) for q in f.params]
                F.alias[("op", "[]", fock2, i_)] = ("op", "[]", fock, i_)
                F.alias[("op", "[]", fock2, j_)] = ("op", "[]", fock, j_)
                gexp = F.name_atom(("op", "[]", fock, i_), "bit_i") * F.name_atom(("op", "[]", fock, j_), "bit_j")
            got = F.conv(unbool(ctx.key(f.nodes[A]["r"])))
            # |v*v|: complex build keeps abs of the product; real build too
            want1 = w * gexp * sp.Abs(v * v)
            want2 = w * gexp * sp.Abs(v) ** 2
            want3 = w * gexp * v * sp.conjugate(v)
            if F.equal(got, want1) or F.equal(got, want2) or F.equal(got, want3):
                if starts_zero_and_returned(f, ctx, A):
                    r3.ok(site, f.loc(A), "sum_s w_s sum_f g(Fock(block,f)) |v_s(f)|^2 with f over the part's own block", cfgname)
                else:
                    r3.bad(site, f.loc(A), "accumulator does not start at 0 / is not what is returned", cfgname)
            else:
                r3.bad(site, f.loc(A), "contribution is %s, expected %s: (eigen-index s for the weight and the eigenvector, Fock position f of the part's own block, |v|^2)" % (got, want1), cfgname)
        # DensityMatrix sums over all parts
        for qn, npar in ((DM + "::getAverageEnergy", 0), (DM + "::getAverageOccupancy", 0), (DM + "::getAverageOccupancy", 1), (DM + "::getAverageDoubleOccupancy", 2)):
            f = db.fn(qn, nparams=npar)
            ctx = Ctx(f, db)
            site = "%s/%d" % (qn, npar)
            so = sum_over(f, ctx, fld(DM + "::parts"))
            if so["status"] == "unknown":
                r3.unknown(site, f.loc(), "sum over the parts is written in a form that is not analysed: %s" % so["why"], cfgname)
                continue
            if so["status"] == "partial":
                r3.bad(site, f.loc(so["node"]), "the average does not include every block: %s" % so["why"], cfgname)
                continue
            rk = ctx.key(so["term"], inline=False)
            want_args = tuple(("param", q["d"], q["n"]) for q in f.params)
            callee_ok = rk[0] == "mcall" and rk[1] == qn.replace(DM, DMP) and is_element(rk[2], so["loop"], fld(DM + "::parts")) and tuple(rk[3:]) == want_args
            if callee_ok and so["zero"] and so["returned"] and not so["filtered"]:
                r3.ok(site, f.loc(), "sum over all parts of the part's value at the same arguments", cfgname)
            elif so["filtered"]:
                r3.bad(site, f.loc(so["acc"]), "some blocks are skipped ('continue' inside the loop over the parts)", cfgname)
            elif not callee_ok:
                r3.bad(site, f.loc(so["acc"]), "the term added per block is %s, expected the part's %s at the same arguments" % (f.s(so["term"])[:70], qn.split("::")[-1]), cfgname)
            else:
                r3.bad(site, f.loc(so["acc"]), "the accumulator does not start at 0 / is not what is returned", cfgname)

    with r3.guard("r3:section", "(see detail)", cfgname):
        _sec_r3()
    r5 = chk.rule("C09-R5", "index-space consistency: no variable is used both as an eigenstate number and as a Fock position", "F5 index spaces", 4)

    def _sec_r5():
        from pv import roles
        scope = [x for x in db.fns.values() if x.rec in (DMP, DM, EA) and x.body is not None and x.body >= 0]
        for x in sorted(scope, key=lambda y: (y.file, y.line)):
            bad, nuse = roles.conflicts(x, db)
            if nuse == 0:
                continue
            site = "%s/%d:index-roles" % (x.qn, len(x.params))
            if bad:
                nm, lst = bad[0]
                r5.bad(site, x.loc(lst[0][2]), "variable '%s' is used as %s: an eigenstate number and a Fock position are confused (e.g. a column of the eigenvector matrix is taken where a row is meant, so |U^T|^2 replaces |U|^2)" % (
                    nm, " and as ".join(sorted({"%s index (%s)" % (r, d) for r, d, _ in lst}))), cfgname)
            else:
                r5.ok(site, x.loc(), "%d typed index uses, each variable in one space" % nuse, cfgname)

    with r5.guard("r5:section", "(see detail)", cfgname):
        _sec_r5()
    r4 = chk.rule("C09-R4", "ensemble average of c+_i c_j: only diagonal blocks, every bimap entry visited, contribution sum_n A(n,n) w(n) with the block's own data", "F5+F1", 2)

    def _sec_r4():
        f = db.fn(EA + "::prepare", nparams=0)
        ctx = Ctx(f, db)
        at = guard_facts(f, ctx)
        calls = f.calls(cname=EA + "::compute")
        site = EA + "::prepare"
        good = False
        why = "expected one call of compute() inside a full loop over the left view of A's block map"
        if len(calls) == 1:
            C = calls[0]
            L = enclosing_loops(f, C)
            shp = loop_shape(f, ctx, L[0]) if L else None
            Am = fld(EA + "::A")
            okloop = shp is not None and shp["kind"] == "iter" and not shp["exits"] and shp["bound"][0] == "field" and shp["bound"][1].endswith("::left") and \
                shp["bound"][2] in (("mcall", "Pomerol::FieldOperator::getBlockMapping", Am), ("field", "Pomerol::FieldOperator::LeftRightBlocks", Am))
            if okloop:
                it = shp["var"]
                fa = at.get(f.cfg.pos1(C), frozenset())
                rw = lh.rw_facts(fa)
                left = None
                right = None
                for d, v in ctx.decls.items():
                    if v.get("init") is None:
                        continue
                    k0 = lh.strip_conv(ctx.key(v["init"], inline=False))
                    if k0[0] == "field" and k0[2] in (("op", "->", it), ("op", "*", it)):
                        if k0[1].endswith("::first"):
                            left = rw(lh.strip_cast(ctx.key(v["init"])))
                        if k0[1].endswith("::second"):
                            right = rw(lh.strip_cast(ctx.key(v["init"])))
                k = ctx.key(C)
                args = [rw(lh.strip_cast(x)) for x in k[3:]]
                diag = left is not None and left == right
                want = [("mcall", "Pomerol::FieldOperator::getPartFromLeftIndex", Am, left), ("mcall", "Pomerol::Hamiltonian::getPart", fld(EA + "::H"), left),
                        ("mcall", "Pomerol::DensityMatrix::getPart", fld(EA + "::DM"), left)]
                par = f.parent_map().get(C)
                accum = f.nodes[par]["k"] in ("bin", "call") and (f.nodes[par].get("op") == "+=")
                if not diag:
                    why = "off-diagonal blocks (left != right) contribute to the trace"
                elif args != want:
                    why = "compute() is not given the operator part, Hamiltonian block and density-matrix block of the same diagonal block"
                elif not accum:
                    why = "block contributions are not accumulated with +="
                else:
                    good = True
        if good:
            r4.ok(site, f.loc(), "for every (L -> R) with L == R: result += compute(A[L], H[L], DM[L])", cfgname)
        else:
            r4.bad(site, f.loc(), why, cfgname)
        f = db.fn(EA + "::compute", nparams=3)
        ctx = Ctx(f, db)
        Ap, Hp, Dp = [("param", q["d"], q["n"]) for q in f.params]
        acc = [j for j, n in f.walk(f.body) if (n["k"] == "call" and n.get("ck") == "op" and n.get("op") == "+=") or (n["k"] == "bin" and n["op"] == "+=")]
        site = EA + "::compute"
        good = False
        if len(acc) == 1:
            A = acc[0]
            n = f.nodes[A]
            rhs = n["args"][1] if n["k"] == "call" else n["r"]
            Amat = ("field", lh.FOP + lh.ROWMAJOR, Ap)
            Acol = ("field", lh.FOP + lh.COLMAJOR, Ap)
            shp = full_index_loop(f, ctx, A, [("mcall", "Eigen::SparseMatrix::outerSize", Amat), ("mcall", "Eigen::SparseMatrix::rows", Amat), ("mcall", "Eigen::SparseMatrix::cols", Amat),
                                             ("mcall", "Eigen::SparseMatrix::outerSize", Acol)])
            if shp is not None:
                n_ = shp["var"]
                F = Formula()
                a = F.name_atom(("mcall", "Eigen::SparseMatrix::coeff", Amat, n_, n_), "A_nn")
                F.alias[("mcall", "Eigen::SparseMatrix::coeff", Acol, n_, n_)] = ("mcall", "Eigen::SparseMatrix::coeff", Amat, n_, n_)
                w = F.name_atom(("mcall", DMP + "::getWeight", Dp, n_), "w_n")
                got = F.conv(ctx.key(rhs))
                good = F.equal(got, a * w) and starts_zero_and_returned(f, ctx, A)
        if good:
            r4.ok(site, f.loc(), "sum_n A(n,n)*w(n) over all n of the block", cfgname)
        elif len(acc) != 1 or full_index_loop(f, ctx, acc[0], [("mcall", "Eigen::SparseMatrix::outerSize", ("field", lh.FOP + lh.ROWMAJOR, Ap)), ("mcall", "Eigen::SparseMatrix::rows", ("field", lh.FOP + lh.ROWMAJOR, Ap)),
                                                                 ("mcall", "Eigen::SparseMatrix::cols", ("field", lh.FOP + lh.ROWMAJOR, Ap)), ("mcall", "Eigen::SparseMatrix::outerSize", ("field", lh.FOP + lh.COLMAJOR, Ap))]) is None:
            unk(f, "the block contribution is not accumulated by one += inside a full loop over the states of the block")
        else:
            r4.bad(site, f.loc(), "block contribution is not sum over all n of A(n,n)*DMpart.getWeight(n)", cfgname)



    with r4.guard("r4:section", "(see detail)", cfgname):
        _sec_r4()
    r_idem = chk.rule("C09-R6", "prepare()/compute() are idempotent: the early-return level is the level the function establishes", "F1 pairing", 3)
    from checks.lehmann import check_status_guards
    check_status_guards(r_idem, db, cfgname, ("Pomerol::DensityMatrix", "Pomerol::EnsembleAverage"))
    from checks.lehmann import check_copy_ctors_complete
    check_copy_ctors_complete(r_idem, db, cfgname, ("Pomerol::EnsembleAverage",))
    chk.undecided.append("finiteness for extreme beta*bandwidth beyond the sign argument of R2; trace identities at the value level; normalisation to one up to rounding")
def unbool(k):
    return k


def starts_zero_and_returned(f, ctx, accnode):
    n = f.nodes[accnode]
    lhs = n["l"] if n["k"] == "bin" else n["args"][0]
    lv = ctx.key(lhs, inline=False)
    if lv[0] != "var":
        return False
    dv = ctx.decls.get(lv[1])
    if not (dv and dv.get("init") is not None and ctx.key(dv["init"]) == ("lit", 0)):
        return False
    if len(ctx.mut.get(lv[1], [])) != 1:
        return False
    return any(m["k"] == "return" and m.get("sub") is not None and ctx.key(m["sub"], inline=False)[:2] == lv[:2] for _, m in f.walk(f.body))


if __name__ == "__main__":
    run_check("C09", "density matrix: Gibbs weights, normalisation, averages", body)
