"""C11 — tau/frequency duality and sums over parts of the Green's function (DESIGN.md §3 C11).
Claimed at the level of R1-R2 only; conjugation symmetry, 1/z tail, negativity and boundary values are value-level
consequences of C01 + C09 and are not decided."""
from pv.check import run_check
from pv.loops import no_early_exit
from pv.expr import Ctx, guard_facts
from pv.facts import AnalysisBroken
from pv.formula import Formula
from checks import lehmann as lh
from checks.lehmann import fld, THIS

GFP = "Pomerol::GreensFunctionPart"
GF = "Pomerol::GreensFunction"


def body(chk, db, cfgname):
    r1 = chk.rule("C11-R1", "term value in frequency and imaginary time: both tau-branches equal the inverse transform, exp arguments never positive", "F6 formula + sign domain", 3)
    lh.check_term_value(r1, db, cfgname, GFP, +1, bosonic=False)

    r2 = chk.rule("C11-R2", "part and total values are plain sums of term / part values; Vanishing is cleared iff a part exists", "F1 pairing", 5)
    for qn, ptypes, kind in ((GFP + "::operator()", [r"complex"], "z"), (GFP + "::of_tau", [r"double"], "tau")):
        g = db.fn(qn, ptypes=ptypes)
        gctx = Ctx(g, db)
        x = ("param", g.params[0]["d"], g.params[0]["n"])
        rets = [j for j, n in g.walk(g.body) if n["k"] == "return"]
        site = "%s(%s)" % (qn, kind)
        terms = fld(GFP + "::Terms")
        want = ("op", "()", terms, x) if kind == "z" else ("op", "()", terms, x, fld("Pomerol::Thermal::beta"))
        if len(rets) == 1 and gctx.key(g.nodes[rets[0]]["sub"]) == want:
            r2.ok(site, g.loc(), "returns Terms(%s)" % ("z" if kind == "z" else "tau, beta"), cfgname)
        else:
            r2.bad(site, g.loc(), "does not return the plain sum of its terms at (%s)" % ("z" if kind == "z" else "tau, beta"), cfgname)
    lh.check_sum_over_parts(r2, db, cfgname, GF + "::operator()", 1, [r"complex"], "of_tau")
    lh.check_sum_over_parts(r2, db, cfgname, GF + "::of_tau", 1, [r"double"], "of_tau")
    # TermList<Term>::operator() sums every term
    for f in [x for x in db.fns.values() if x.qn.startswith("Pomerol::TermList<%s::Term>::operator()" % GFP)]:
        ctx = Ctx(f, db)
        from pv.loops import loop_shape
        site = "Pomerol::TermList<GreensFunctionPart::Term>::operator()/%d" % len(f.params)
        from pv.loops import sum_over, is_element
        data = fld("Pomerol::TermList::data")
        so = sum_over(f, ctx, data)
        if so["status"] == "partial":
            r2.bad(site, f.loc(so["node"]), "does not add the value of every stored term: " + so["why"], cfgname)
            continue
        if so["status"] != "ok" or so.get("filtered"):
            r2.unknown(site, f.loc(), "the sum over the stored terms is written in a form that is not analysed (%s)" % (so.get("why") or "terms are filtered"), cfgname)
            continue
        rk = ctx.key(so["term"], inline=True)
        want_args = tuple(("param", p["d"], p["n"]) for p in f.params)
        if not (so["zero"] and so["returned"]):
            r2.bad(site, f.loc(so["acc"]), "the accumulated sum over the terms does not start from zero or is not what is returned", cfgname)
        elif rk[0] == "op" and rk[1] == "()" and is_element(rk[2], so["loop"], data):
            if tuple(rk[3:]) == want_args:
                r2.ok(site, f.loc(), "res += (*it)(args) over all terms", cfgname)
            else:
                r2.bad(site, f.loc(so["acc"]), "the terms are evaluated at %s, not at the arguments of the call in their order" % (tuple(str(a[-1]) if a[0] == "param" else str(a) for a in rk[3:]),), cfgname)
        else:
            r2.unknown(site, f.loc(so["acc"]), "what is added per stored term is not the term's operator() (form not analysed)", cfgname)
    # Vanishing
    p = db.fn(GF + "::prepare", nparams=0)
    pctx = Ctx(p, db)
    pat = guard_facts(p, pctx)
    van = fld(GF + "::Vanishing")
    asg = [j for j, n in p.walk(p.body) if n["k"] == "bin" and n["op"] == "=" and pctx.key(n["l"]) == van]
    site = GF + "::prepare:Vanishing"
    good = False
    if len(asg) == 1 and pctx.key(p.nodes[asg[0]]["r"]) == ("lit", 0):
        fa = pat.get(p.cfg.pos1(asg[0]), frozenset())
        sz = ("mcall", "std::list::size", fld(GF + "::parts"))
        emp = ("mcall", "std::list::empty", fld(GF + "::parts"))
        from pv.entail import entails
        if entails(fa, ("<", ("lit", 0), sz)) or ("false", emp) in fa or entails(fa, ("!=", ("lit", 0), sz)):
            # ... and only then: the guard's negation must mean "no part"
            for a_ in p.ancestors(asg[0]):
                an = p.nodes[a_]
                if an["k"] == "if":
                    neg = pctx.cmp_fact(an["c"], False)
                    if entails(neg, ("<=", sz, ("lit", 0))) or ("true", emp) in neg or entails(neg, ("==",) + tuple(sorted([("lit", 0), sz], key=repr))):
                        good = True
                    break
    ctor = [x for x in db.fns_named(GF + "::GreensFunction") if x.kind == "ctor" and len(x.params) == 5]
    init_true = any(i.get("field") == "Vanishing" and Ctx(c, db).key(i["e"]) == ("lit", 1) for c in ctor for i in c.d.get("inits", []))
    if good and init_true:
        r2.ok(site, p.loc(asg[0]), "Vanishing starts true and is cleared exactly when at least one part was created", cfgname)
    else:
        r2.bad(site, p.loc(), "Vanishing is not (true initially, false iff parts.size() > 0): a non-zero function is reported as 0 or an empty one is summed", cfgname)
    # the symmetries are statements about the *complete* Lehmann sum: a dropped or doubled (inner state, outer state)
    # pair breaks conj(G_ij(z)) = G_ji(conj z) and the sum rule G_ij(0+) + G_ij(beta-) = -delta_ij
    r3 = chk.rule("C11-R3", "completeness of the Lehmann sum: residue/pole per pair of eigenstates and the element-level merge walk visit every common inner state exactly once", "F5+F6 formula, F1 pairing", 5)
    info = lh.check_part_compute(r3, db, cfgname, GFP + "::compute", "C", "CX", +1)
    if info:
        lh.check_walk(r3, cfgname, info, GFP + "::compute")
    chk.undecided.append("conj(G_ij(z)) = G_ji(conj z), z*G -> delta_ij, Im G_ii < 0, G(0+)+G(beta-) = -delta_ij, G_ii(beta-) = -<n_i>: value-level consequences of C01 + C09, not decided")


if __name__ == "__main__":
    run_check("C11", "Green's function: tau/frequency duality of terms, sums over parts", body)
