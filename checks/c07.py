"""C07 — symmetry analysis yields a sound partition of Fock space (DESIGN.md §3 C07)."""
from pv.cfg import acyclic_paths
from pv.check import run_check
from pv.entail import entails
from pv.expr import Ctx, guard_facts, key_contains, key_subst
from pv.facts import AnalysisBroken, strip_targs
from pv.loops import enclosing_loops, loop_shape, stmts_of, no_early_exit
from pv.throws import Throws
from checks.c20 import fact_str

SC = "Pomerol::StatesClassification::"
THIS = ("this",)


def fld(n, base=THIS):
    return ("field", n, base)


def deconv(k):
    """strip BlockNumber <-> integer conversions"""
    def f(x):
        if x[0] == "field" and x[1] == "Pomerol::BlockNumber::number":
            return x[2]
        if x[0] == "ctor" and x[1] == "Pomerol::BlockNumber" and len(x) == 3:
            return x[2]
        if x[0] == "mcall" and x[1] == "Pomerol::BlockNumber::operator int":
            return x[2]
        return None
    return key_subst(k, f)


def body(chk, db, cfgname):
    thr = Throws(db)

    # ================================================================== R1
    r1 = chk.rule("C07-R1", "every Fock state is classified exactly once: one StateBlockIndex entry and one StatesContainer entry with the same block on every path", "F1 pairing", 2)
    f = db.fn(SC + "compute", nparams=0)
    ctx = thr.ctx(f)
    at = thr.facts(f)
    SBI, SCn = fld(SC + "StateBlockIndex"), fld(SC + "StatesContainer")
    pushes = {}
    rawvar = {}
    for j, n in f.walk(f.body):
        if n["k"] == "call" and n["ck"] == "method" and strip_targs(n.get("cname") or "") == "std::vector::push_back":
            ok_ = ctx.key(n["obj"])
            if ok_ == SBI:
                pushes[j] = ("sbi", deconv(ctx.key(n["args"][0])))
                rawvar[j] = deconv(ctx.key(n["args"][0], inline=False))
            elif ok_[0] == "op" and ok_[1] == "[]" and ok_[2] == SCn:
                pushes[j] = ("sc", deconv(ok_[3]), ctx.key(n["args"][0], inline=False))
                okr_ = ctx.key(n["obj"], inline=False)
                rawvar[j] = deconv(okr_[3]) if okr_[0] == "op" and okr_[1] == "[]" and len(okr_) == 4 else None
            elif ok_ == SCn:
                pushes[j] = ("newblock",)
    loops = [j for j, n in f.walk(f.body) if n["k"] == "for"]
    outer = None
    for L in loops:
        shp = loop_shape(f, ctx, L)
        if shp["kind"] == "index" and shp["bound"] == fld(SC + "StateSize") and any(L in enclosing_loops(f, j) for j in pushes):
            outer = (L, shp)
    if outer is None:
        raise AnalysisBroken("StatesClassification::compute: loop over [0, StateSize) containing the classification not found")
    L, shp = outer
    site = SC + "compute:state-loop"
    if shp["start"] == ("lit", 0) and shp["rel"] == "<" and no_early_exit(shp):
        r1.ok(site, f.loc(L), "states 0..StateSize-1 visited in order without early exit, so StateBlockIndex[s] belongs to state s", cfgname)
    else:
        r1.bad(site, f.loc(L), "the classification loop does not visit every state of [0, StateSize) in order (start %s, exits %s)" % (shp["start"], [e[1] for e in shp["exits"]]), cfgname)
    hdr, blocks = f.cfg.loop_blocks(L)
    ln = f.nodes[L]
    start = f.cfg.pos1(first_elem(f, ln["body"]))[0]
    latch = f.cfg.pos1(ln["inc"])[0]
    paths = acyclic_paths(f.cfg, start, {latch}, within=blocks)
    if not paths:
        raise AnalysisBroken("StatesClassification::compute: no path through the loop body")
    pos2push = {}
    for j in pushes:
        for p in f.cfg.pos(j):
            pos2push[p] = j
    state_var = None
    classes = {}
    for path in paths:
        seq = []
        for b in path[:-1] if path[-1] == latch and latch != path[0] else path:
            for i, e in enumerate(f.cfg.blocks[b].elems):
                if (b, i) in pos2push:
                    seq.append(pos2push[(b, i)])
        sig = tuple(pushes[j][0] for j in seq)
        classes.setdefault(sig, []).append((path, seq))
    def path_env(path):
        """values of locals assigned on this path (v = expr), resolved through earlier assignments on the same path"""
        env, defnode = {}, {}
        for b_ in path:
            for e in f.cfg.blocks[b_].elems:
                nid = e[2] if isinstance(e, tuple) else e
                n_ = f.nodes[nid]
                tgt = rhs = None
                if n_["k"] == "bin" and n_["op"] == "=":
                    tgt, rhs = n_["l"], n_["r"]
                elif n_["k"] == "call" and n_.get("ck") == "op" and n_.get("op") == "=" and len(n_["args"]) == 2:
                    tgt, rhs = n_["args"]
                if tgt is None:
                    continue
                tn = f.nodes[tgt]
                if tn["k"] == "ref" and tn["dk"] == "local" and not ctx.single_assignment(tn["d"]) and tn["d"] != shp["var"][1]:
                    env[tn["d"]] = key_subst(deconv(ctx.key(rhs, inline=False)), lambda x: env.get(x[1]) if x[0] == "var" else None)
                    defnode[tn["d"]] = nid
        return env, defnode

    for sig, lst in sorted(classes.items()):
        path, seq = lst[0]
        site = SC + "compute:path[%s]" % ",".join(sig)
        penv, pdef = path_env(path)
        from pv import paths as _P
        pfacts = _P.path_facts(f, ctx, [hdr] + list(path)) | _P.path_facts(f, ctx, list(path))

        def _resolve_cond(k):
            # c ? a : b  under the branch facts of THIS path (a block number chosen by `new ? counter : found->second`)
            def g_(x):
                if x[0] == "cond" and len(x) == 4:
                    cnd_ = key_subst(x[1], lambda y: ctx.key(ctx.decls[y[1]]["init"]) if y[0] == "var" and y[1] in ctx.decls and ctx.decls[y[1]].get("init") is not None and ctx.single_assignment(y[1]) else None)
                    ft, ff = _P.key_facts(cnd_, True), _P.key_facts(cnd_, False)
                    if ft and all(y in pfacts for y in ft):
                        return x[2]
                    if ff and all(y in pfacts for y in ff):
                        return x[3]
                return None
            return key_subst(k, g_)
        def _val(x, depth=0):
            # value of a local on this path: assigned on the path, or a single-assignment local that the flow-insensitive inliner
            # left alone because its initialiser mentions a variable that changes later (block number captured before the counter
            # is advanced) -- its initialiser, read at the declaration
            if x[0] != "var" or x[1] == shp["var"][1] or depth > 4:
                return None
            if x[1] in penv:
                return penv[x[1]]
            dv_ = ctx.decls.get(x[1], {})
            if dv_.get("init") is not None and ctx.single_assignment(x[1]) and dv_.get("t", "").replace("const ", "").strip() in ("Pomerol::BlockNumber", "BlockNumber", "int", "unsigned int", "size_t", "unsigned long", "bool"):
                return key_subst(deconv(ctx.key(dv_["init"], inline=False)), lambda y: _val(y, depth + 1))
            return None
        res = lambda k: deconv(_resolve_cond(key_subst(k, _val)))
        used_def = [pdef[pushes[j][1][1]] for j in seq if len(pushes[j]) > 1 and isinstance(pushes[j][1], tuple) and pushes[j][1][0] == "var" and pushes[j][1][1] in pdef]
        sbi = [(pushes[j][0], res(pushes[j][1])) + tuple(pushes[j][2:]) for j in seq if pushes[j][0] == "sbi"]
        sc = [(pushes[j][0], res(pushes[j][1])) + tuple(pushes[j][2:]) for j in seq if pushes[j][0] == "sc"]
        if len(sbi) != 1 or len(sc) != 1:
            r1.bad(site, f.loc(seq[0]) if seq else f.loc(L), "on a path through the loop body the state is appended %d time(s) to StateBlockIndex and %d time(s) to a block of StatesContainer (exactly once each is required): "
                   "a state belongs to no block or to two" % (len(sbi), len(sc)), cfgname)
            continue
        if sbi[0][1] != sc[0][1]:
            r1.bad(site, f.loc(seq[0]), "the state is recorded in block %s of StatesContainer but StateBlockIndex says %s" % (fact_str(("true", sc[0][1])), fact_str(("true", sbi[0][1]))), cfgname)
            continue
        b = sbi[0][1]
        detail = "one entry each, same block %s" % fact_str(("true", b))
        good = True
        if "newblock" in sig:
            # new block: StatesContainer.push_back precedes the element push; the block variable is incremented afterwards,
            # and both maps register it
            order = [pushes[j][0] for j in seq]
            if order.index("newblock") > order.index("sc"):
                good = False
                detail = "the new block's vector is appended after the state was pushed into it"
            if b[0] != "var":
                good = False
                detail = "new block number is not the running block counter"
            else:
                incs = [m for m in ctx.mut.get(b[1], []) if f.cfg.pos1(m) and f.cfg.pos1(m)[0] in path]
                # order of events along this path
                order_ids = []
                for b_ in path:
                    for e in f.cfg.blocks[b_].elems:
                        order_ids.append(e[2] if isinstance(e, tuple) else e)
                def when(nid):
                    if nid in order_ids:
                        return order_ids.index(nid)
                    # a statement that is not itself a CFG element (a declaration group ...): position of its first element
                    for x_, _n in f.walk(nid):
                        if x_ in order_ids:
                            return order_ids.index(x_)
                    return None
                inc_ok = len(incs) == 1 and when(incs[0]) is not None
                if inc_ok:
                    for j in seq:
                        if len(pushes[j]) < 2:
                            continue
                        raw = pushes[j][1]
                        rv_ = rawvar.get(j)
                        if raw != b and res(raw) == b and isinstance(rv_, tuple) and rv_[0] == "var" and ctx.single_assignment(rv_[1]) and ctx.decls.get(rv_[1], {}).get("declnode") is not None:
                            # the number was captured in a single-assignment local (possibly as `new ? counter : found`): the capture
                            # must precede the increment
                            dn_ = ctx.decls[rv_[1]]["declnode"]
                            inc_ok = inc_ok and when(dn_) is not None and when(dn_) < when(incs[0])
                        elif raw == b:
                            # the counter itself is read at the push: it must not have advanced yet
                            inc_ok = inc_ok and when(j) is not None and when(j) < when(incs[0])
                        elif isinstance(raw, tuple) and raw[0] == "var" and raw[1] in pdef:
                            # a copy taken earlier on this path: the copy must have been taken before the counter advanced
                            inc_ok = inc_ok and when(pdef[raw[1]]) is not None and when(pdef[raw[1]]) < when(incs[0])
                        else:
                            inc_ok = False
                    nb = [j for j in seq if pushes[j][0] == "newblock"]
                if not inc_ok:
                    good = False
                    detail = "the block counter is not incremented exactly once per new block, after its value was used (or captured) for this state"
                q2b = fld(SC + "QuantumToBlock")
                b2q = fld(SC + "BlockToQuantum")
                regs = set()
                for blk in path:
                    for e in f.cfg.blocks[blk].elems:
                        nid = e[2] if isinstance(e, tuple) else e
                        n = f.nodes[nid]
                        if n["k"] in ("bin", "call"):
                            k = ctx.key(nid, inline=False)
                            if k[0] == "op" and k[1] == "=" and k[2][0] == "op" and k[2][1] == "[]" and k[2][2] == q2b and res(deconv(k[3])) == b:
                                regs.add("q2b")
                            if k[0] == "mcall" and k[1].endswith("::insert") and k[2] == b2q and key_contains(res(deconv(k)), lambda y: y == b):
                                regs.add("b2q")
                if regs != {"q2b", "b2q"}:
                    good = False
                    detail = "the new block is not registered in both QuantumToBlock and BlockToQuantum"
        else:
            # existing block: number read from the find() result on the found edge
            fa = set(at.get(f.cfg.pos1(used_def[0] if used_def else seq[0]), frozenset())) | set(pfacts)
            fk = [x for x in fa if x[0] == "!=" and key_contains(x, lambda y: y[0] == "mcall" and y[1] == "std::map::find" and y[2] == fld(SC + "QuantumToBlock"))]
            if not fk:
                good = False
                detail = "block number of an existing block is used without the found-edge of QuantumToBlock.find"
        if good:
            r1.ok(site, f.loc(seq[0]), detail + " (%d CFG path(s))" % len(lst), cfgname)
        else:
            r1.bad(site, f.loc(seq[0]), detail, cfgname)

    # ---- quantum numbers of a state = diagonal elements of the accepted operations ON THAT STATE
    with r1.guard(SC + "compute:quantum-numbers", f.loc(L), cfgname):
        sets = [j for j, n in f.walk(ln["body"]) if n["k"] == "call" and n["ck"] == "method" and strip_targs(n.get("cname") or "") == "Pomerol::Symmetrizer::QuantumNumbers::set"]
        if not sets:
            raise AnalysisBroken("no QuantumNumbers::set in the classification loop")
        # the state being classified: the Fock state pushed into StatesContainer
        scp = [pushes[j] for j in pushes if pushes[j][0] == "sc"]
        state_keys = {p_[2] for p_ in scp}
        if len(state_keys) != 1:
            raise AnalysisBroken("cannot identify the state variable being classified")
        st = list(state_keys)[0]
        site = SC + "compute:quantum-numbers"
        from pv.symenv import env_at, value_key
        envs = env_at(f, ctx)
        applied = [j for j, n in f.walk(ln["body"]) if n["k"] == "call" and strip_targs(n.get("cname") or "") in ("Pomerol::Operator::getMatrixElement", "Pomerol::Operator::actRight")
                   and any(ctx.key(a, inline=False)[:2] == st[:2] for a in n["args"])]
        for S_ in sets:
            n = f.nodes[S_]
            nk = ctx.key(n["args"][0], inline=False)
            vnode = n["args"][1]
            vn = f.nodes[vnode]
            if vn["k"] == "ref" and vn["dk"] == "local" and ctx.single_assignment(vn["d"]):
                vnode = ctx.decls[vn["d"]]["init"]
                vn = f.nodes[vnode]
            okv = False
            if vn["k"] == "call" and strip_targs(vn.get("cname") or "") == "Pomerol::Operator::getMatrixElement" and vn["args"]:
                argk = [ctx.key(a, inline=False) for a in vn["args"]]
                objk = ctx.key(vn["obj"], inline=False) if vn.get("obj") is not None else ("none",)
                okv = all(a[:2] == st[:2] for a in argk) and key_contains(objk, lambda y: y[:2] == nk[:2])
            Ls = enclosing_loops(f, S_)
            shp_n = loop_shape(f, ctx, Ls[0]) if Ls else None
            fulln = shp_n is not None and shp_n["kind"] == "index" and shp_n["start"] == ("lit", 0) and no_early_exit(shp_n) and shp_n["var"][:2] == nk[:2]
            if okv and fulln:
                r1.ok(site, f.loc(S_), "for every accepted operation n: QNumbers.set(n, <state| op_n |state>) on the state being classified", cfgname)
            elif okv:
                r1.bad(site, f.loc(S_), "not every accepted operation contributes its quantum number (loop over the operations is not full)", cfgname)
            elif not applied:
                r1.bad(site, f.loc(S_), "the quantum number of a state is not obtained by applying the accepted operation to THAT state (no getMatrixElement/actRight on '%s' in the loop): it is assembled from "
                       "values on other states, which is only valid for integrals of motion linear in the occupation numbers, while the analysis accepts any operator commuting with all n_i" % st[2], cfgname)
            else:
                raise AnalysisBroken("the value handed to QuantumNumbers::set is not recognisably <state|op_n|state>")

    # ================================================================== R2
    r2 = chk.rule("C07-R2", "a state is recovered from its (block, position) address", "F5 index spaces", 2)
    g = db.fn(SC + "getInnerState", ptypes=[r"dynamic_bitset"])
    gctx = thr.ctx(g)
    st = ("param", g.params[0]["d"], g.params[0]["n"])
    blk = ("mcall", SC + "getBlockNumber", THIS, st)
    good = False
    for j, n in g.walk(g.body):
        if n["k"] == "return" and n.get("sub") is not None:
            rk = gctx.key(n["sub"], inline=False)
            fa = thr.facts(g).get(g.cfg.pos1(j), frozenset())
            for x in fa:
                if x[0] == "==" and st in (x[1], x[2]):
                    other = x[2] if x[1] == st else x[1]
                    other = deconv(key_subst(other, lambda y: None))
                    want = ("op", "[]", ("op", "[]", fld(SC + "StatesContainer"), None), rk)
                    if other[0] == "op" and other[1] == "[]" and other[3] == rk and other[2][0] == "op" and other[2][2] == fld(SC + "StatesContainer"):
                        bsel = deconv(gctx.key_from_key(other[2][3]) if hasattr(gctx, "key_from_key") else other[2][3])
                        if bsel == deconv(blk) or (bsel[0] == "var" and deconv(gctx.key(gctx.decls[bsel[1]]["init"])) == deconv(blk)):
                            good = True
    site = SC + "getInnerState"
    verdict = "ok" if good else None
    if not good:
        # other recognised forms, and what exactly is wrong when a recognised form deviates
        SCn_ = fld(SC + "StatesContainer")

        def block_of(ck):
            """ck = StatesContainer[b] (possibly through a reference/local): returns b"""
            ck = deconv(ck)
            if ck[0] == "op" and ck[1] == "[]" and ck[2] == SCn_:
                b = deconv(ck[3])
                if b[0] == "var" and gctx.decls.get(b[1], {}).get("init") is not None:
                    b = deconv(gctx.key(gctx.decls[b[1]]["init"]))
                return b
            return None
        found = None
        for j, n in g.walk(g.body):
            if n["k"] == "return" and n.get("sub") is not None:
                rk = deconv(gctx.key(n["sub"]))
                # std::distance(C.begin(), std::find(C.begin(), C.end(), state))   /   it - C.begin()
                fk = None
                if rk[0] == "call" and rk[1] == "std::distance" and len(rk) == 4:
                    fk, bk = rk[3], rk[2]
                elif rk[0] == "op" and rk[1] == "-" and len(rk) == 4:
                    fk, bk = rk[2], rk[3]
                if fk is not None and fk[0] == "call" and fk[1] == "std::find" and len(fk) == 5 and bk[0] == "mcall" and bk[1].split("::")[-1] in ("begin", "cbegin"):
                    C = bk[2]
                    same = fk[2] == bk and fk[3][0] == "mcall" and fk[3][1].split("::")[-1] in ("end", "cend") and fk[3][2] == C
                    found = (j, C, same, fk[4])
        if found:
            j, C, same, needle = found
            b = block_of(C)
            if b is None:
                verdict, why = "bad", "the position is searched in %s, which is not a block of StatesContainer" % g.s(j)[:60]
            elif b != deconv(blk):
                verdict, why = "bad", "the state is searched in block %s instead of the block given by getBlockNumber(state)" % fact_str(("true", b))
            elif not same or needle != st:
                verdict, why = "bad", "std::find does not search the whole block for the requested state"
            else:
                verdict = "ok"
        else:
            # loop form with a deviation we can name: the comparison is against another block
            for j, n in g.walk(g.body):
                if n["k"] == "return" and n.get("sub") is not None:
                    fa = thr.facts(g).get(g.cfg.pos1(j), frozenset())
                    for x in fa:
                        if x[0] == "==" and st in (x[1], x[2]):
                            other = deconv(x[2] if x[1] == st else x[1])
                            if other[0] == "op" and other[1] == "[]" and other[2][0] == "op" and other[2][2] == SCn_:
                                b = block_of(other[2])
                                rk = gctx.key(n["sub"], inline=False)
                                if b != deconv(blk):
                                    verdict, why = "bad", "the state is compared with the states of block %s instead of the block given by getBlockNumber(state)" % fact_str(("true", b))
                                elif other[3] != rk:
                                    verdict, why = "bad", "the returned value %s is not the position at which the state was found" % g.s(n["sub"])[:40]
    if verdict == "ok":
        r2.ok(site, g.loc(), "returns n with StatesContainer[getBlockNumber(state)][n] == state", cfgname)
    elif verdict == "bad":
        r2.bad(site, g.loc(), "getInnerState does not return the position of the state inside the block given by getBlockNumber(state): " + why, cfgname)
    else:
        r2.unknown(site, g.loc(), "the search for the state inside its block is written in a form that is not analysed", cfgname)
    g = db.fn(SC + "getFockState", ptypes=[r"BlockNumber", r"long"])
    gctx = thr.ctx(g)
    b_, m_ = [("param", p["d"], p["n"]) for p in g.params]
    good = False
    for j, n in g.walk(g.body):
        if n["k"] == "return" and n.get("sub") is not None:
            rk = deconv(gctx.key(n["sub"]))
            if rk == ("op", "[]", ("op", "[]", fld(SC + "StatesContainer"), b_), m_):
                fa = thr.facts(g).get(g.cfg.pos1(j), frozenset())
                fa2 = {tuple(deconv(x) if isinstance(x, tuple) else x for x in fct) for fct in fa}
                if entails(fa2, ("<", m_, ("mcall", "std::vector::size", ("op", "[]", fld(SC + "StatesContainer"), b_)))) and \
                        entails(fa2, ("<", b_, ("mcall", "std::vector::size", fld(SC + "StatesContainer")))):
                    good = True
    site = SC + "getFockState"
    if good:
        r2.ok(site, g.loc(), "returns StatesContainer[in][m] under both bounds checks", cfgname)
    else:
        r2.bad(site, g.loc(), "getFockState(b, m) does not return StatesContainer[b][m] under b < size and m < block size", cfgname)

    # ================================================================== R3
    r3 = chk.rule("C07-R3", "an integral of motion is accepted only if it commutes with H and with every n_i", "F1 dominance", 3)
    g = db.fn("Pomerol::Symmetrizer::checkSymmetry", nparams=1)
    gctx = thr.ctx(g)
    gat = thr.facts(g)
    pbs = [j for j, n in g.walk(g.body) if n["k"] == "call" and n["ck"] == "method" and strip_targs(n.get("cname") or "") == "std::vector::push_back"
           and gctx.key(n["obj"]) == fld("Pomerol::Symmetrizer::Operations")]
    if not pbs:
        raise AnalysisBroken("checkSymmetry: no Operations.push_back (acceptance site) found")
    for pi, P in enumerate(pbs):
        tag = "" if len(pbs) == 1 else "#%d" % (pi + 1)
        with r3.guard("Pomerol::Symmetrizer::checkSymmetry:acceptance%s" % tag, g.loc(P), cfgname):
            check_acceptance(r3, g, gctx, gat, P, tag, cfgname)
    # value-level lint inside the acceptance logic: truncating folds
    from pv import lints
    for fn_ in [g] + [db.callee_fn(g.nodes[j]) for j in g.calls() if db.callee_fn(g.nodes[j]) is not None and db.callee_fn(g.nodes[j]).file == g.file]:
        for j, et, it_ in lints.narrowing_folds(fn_):
            r3.bad("%s:narrowing-fold" % fn_.qn, fn_.loc(j), "%s sums %s elements into an accumulator of type '%s' (the type of the initial value): every partial sum is truncated towards zero, "
                   "so e.g. charges of modulus < 1 (S_z = +-1/2) always add up to 0 and the commutation test passes vacuously" % (fn_.s(j)[:60], "floating-point" if "complex" not in et else "complex", it_), cfgname)

    # ================================================================== R4
    r4 = chk.rule("C07-R4", "no exception escapes the symmetry analysis: every throwing callee is excluded by a dominating guard", "F1 dominance + exception summaries", 3)
    targets = db.fn("Pomerol::Symmetrizer::compute", allow_many=True) + [db.fn(SC + "compute", nparams=0)]
    if len(targets) != 3:
        raise AnalysisBroken("expected two Symmetrizer::compute overloads and StatesClassification::compute")
    for g in targets:
        gctx = thr.ctx(g)
        nthrow = 0
        for ts in thr.direct(g):
            r4.bad("%s:throw" % g.sig, g.loc(ts.node), "the analysis itself throws", cfgname)
        for j, n in g.walk(g.body):
            if n["k"] not in ("call", "construct"):
                continue
            cf = db.callee_fn(n)
            if cf is None or not thr.may_throw(cf):
                continue
            if not g.cfg.pos(j) and g.cfg.pos1(j) is None:
                continue
            nthrow += 1
            fa = thr.facts(g).get(g.cfg.pos1(j), frozenset())
            und = thr.undischarged(g, j, cf, fa)
            site = "%s:call(%s)" % (g.sig, cf.qn)
            if not und:
                r4.ok(site, g.loc(j), "every throw reachable in %s is excluded by the guards dominating the call" % cf.qn, cfgname)
            else:
                ts, alt = und[0]
                r4.bad(site, g.loc(j), "%s can throw at %s under {%s}, and nothing at the call excludes it: the symmetry analysis aborts with an exception for such lattices" % (
                    cf.qn, ts.where(), "; ".join(fact_str(a) for a in alt if not (a[0] in ("<", "<=") and key_contains(a, lambda y: y[0] == "var")))[:200]), cfgname)
        if nthrow == 0:
            r4.ok("%s:no-throwing-callee" % g.sig, g.loc(), "no callee with a reachable throw", cfgname)

    # ================================================================== R5
    r5 = chk.rule("C07-R5", "CreationOperator/AnnihilationOperator/QuadraticOperator::prepare build their parts and block maps identically", "F4 sibling agreement", 3)
    sigs = {}
    # the meaning of isCorrect() that the rule below relies on: "this is a block", i.e. true for 0, 1, 2, ... and false for
    # ERROR_BLOCK_NUMBER (-1, the only negative value in use)
    ic = db.fn("Pomerol::BlockNumber::isCorrect", nparams=0)
    with r5.guard("Pomerol::BlockNumber::isCorrect", ic.loc(), cfgname):
        from pv.paths import return_cases
        cases_ = return_cases(ic, thr.ctx(ic))
        if not cases_ or len(cases_) != 1:
            raise AnalysisBroken("BlockNumber::isCorrect: not a single returned expression")
        k_ = cases_[0]["key"]
        num_ = ("field", "Pomerol::BlockNumber::number", THIS)
        tab_ = None
        if k_[0] == "op" and len(k_) == 4 and k_[1] in ("<", "<=", ">", ">=", "==", "!=") and num_ in (k_[2], k_[3]):
            o_ = k_[3] if k_[2] == num_ else k_[2]
            c_ = o_[1] if o_[0] == "lit" else (-o_[2][1] if o_[0] == "un" and o_[1] == "-" and o_[2][0] == "lit" else (-1 if o_ == ("global", "Pomerol::ERROR_BLOCK_NUMBER") or deconv(o_) == ("global", "Pomerol::ERROR_BLOCK_NUMBER") else None))
            if c_ is not None:
                import operator as _op
                fn_ = {"<": _op.lt, "<=": _op.le, ">": _op.gt, ">=": _op.ge, "==": _op.eq, "!=": _op.ne}[k_[1]]
                tab_ = [bool(fn_(v, c_) if k_[2] == num_ else fn_(c_, v)) for v in (-1, 0, 1, 5)]
        if tab_ is None:
            raise AnalysisBroken("BlockNumber::isCorrect: returned expression is not a comparison of `number` with a constant")
        if tab_ == [False, True, True, True]:
            r5.ok("Pomerol::BlockNumber::isCorrect", ic.loc(), "true exactly for the block numbers 0, 1, 2, ...; false for ERROR_BLOCK_NUMBER", cfgname)
        else:
            r5.bad("Pomerol::BlockNumber::isCorrect", ic.loc(), "isCorrect() is %s for the numbers (-1, 0, 1, 5): it must reject ERROR_BLOCK_NUMBER (-1) and accept every block, block 0 included -- every `image exists` test in the library goes through it" % tab_, cfgname)
    for cls in ("Creation", "Annihilation", "Quadratic"):
        g = db.fn("Pomerol::%sOperator::prepare" % cls, nparams=0)
        sig, problems = prepare_signature(g, thr, cls)
        sigs[cls] = sig
        site = "Pomerol::%sOperator::prepare" % cls
        if problems:
            r5.bad(site, g.loc(), "; ".join(problems), cfgname)
        else:
            r5.ok(site, g.loc(), "under LeftIndex.isCorrect(): part(HFrom=H.getPart(Right), HTo=H.getPart(Left)), parts.push_back, mapPartsFromRight[Right]=Size, mapPartsFromLeft[Left]=Size, LeftRightBlocks.insert(Left,Right), Size++", cfgname)
    vals = list(sigs.values())
    if not all(v == vals[0] for v in vals):
        diff = [c for c in sigs if sigs[c] != sigs["Creation"]]
        g = db.fn("Pomerol::%sOperator::prepare" % diff[0], nparams=0)
        r5.bad("FieldOperator::prepare:siblings", g.loc(), "%sOperator::prepare differs structurally from CreationOperator::prepare" % diff[0], cfgname)

    # ================================================================== R6
    r6 = chk.rule("C07-R6", "blocks are keyed by QuantumNumbers, whose identity is a hash: the hash is recomputed from the whole ordered vector after every change of the numbers, and <, ==, != compare the hashes of the two objects", "F4 paired state", 6)
    QN = "Pomerol::Symmetrizer::QuantumNumbers"
    numbers = ("field", QN + "::numbers", THIS)
    hfield = ("field", QN + "::NumbersHash", THIS)
    gen = ("field", QN + "::numbers_hash_generator", THIS)
    full = ("op", "()", gen, numbers)
    rec = db.records.get(QN)
    site = QN + "::numbers_hash_generator"
    gt = [fl for fl in (rec or {}).get("fields", []) if fl["n"] == "numbers_hash_generator"]
    if not gt:
        r6.unknown(site, "", "hash generator member not found", cfgname)
    elif strip_targs(gt[0]["t"]) == "boost::hash" and "std::vector" in gt[0]["t"]:
        r6.ok(site, "%s:%s" % (rec["file"], rec["line"]), "boost::hash<std::vector<...>>: a range hash, sensitive to the position of every element", cfgname)
    else:
        r6.unknown(site, "%s:%s" % (rec["file"], rec["line"]), "hash generator of type %s: order sensitivity unknown" % gt[0]["t"], cfgname)
    for g in [x for x in db.fns.values() if x.rec == QN and x.body is not None and x.body >= 0]:
        gctx = thr.ctx(g)
        writes = []
        hashes = []
        for j, n in g.walk(g.body):
            tgt = None
            if n["k"] == "bin" and n["op"] in ("=", "+=", "-=", "*=", "/=", "^=", "|=", "&="):
                tgt = gctx.key(n["l"], inline=False)
                rhs = n["r"]
            elif n["k"] == "call" and n.get("ck") == "op" and n.get("op") in ("=", "^=") and len(n["args"]) == 2:
                tgt = gctx.key(n["args"][0], inline=False)
                rhs = n["args"][1]
            if tgt is None:
                continue
            if tgt == numbers or (tgt[0] == "op" and tgt[1] == "[]" and tgt[2] == numbers):
                writes.append(j)
            elif tgt == hfield:
                hashes.append((j, n["op"], gctx.key(rhs)))
        for j, n in g.walk(g.body):
            if n["k"] == "call" and n.get("ck") == "method" and n.get("obj") is not None and gctx.key(n["obj"], inline=False) == numbers and \
                    strip_targs(n.get("cname") or "").split("::")[-1] in ("push_back", "resize", "assign", "clear", "insert", "erase", "swap"):
                writes.append(j)
        if g.kind == "ctor":
            inits = {i_.get("field"): gctx.key(i_["e"]) for i_ in g.d.get("inits", [])}
            site = "%s/%d:initial-hash" % (g.qn, len(g.params))
            order = [i_.get("field") for i_ in g.d.get("inits", [])]
            fieldorder = [fl["n"] for fl in rec["fields"]]
            if inits.get("NumbersHash") == full and fieldorder.index("numbers") < fieldorder.index("NumbersHash") and fieldorder.index("numbers_hash_generator") > fieldorder.index("NumbersHash"):
                # the generator is stateless (boost::hash): using it before its own construction is harmless
                r6.ok(site, g.loc(), "NumbersHash initialised as hash(numbers) after numbers (declaration order)", cfgname)
            elif inits.get("NumbersHash") == full and fieldorder.index("numbers") < fieldorder.index("NumbersHash"):
                r6.ok(site, g.loc(), "NumbersHash initialised as hash(numbers) after numbers (declaration order)", cfgname)
            else:
                r6.bad(site, g.loc(), "NumbersHash is not initialised from the freshly constructed numbers (or is declared before them): objects with equal numbers start with different identities", cfgname)
            continue
        if not writes:
            continue
        site = "%s/%d:hash-follows-numbers" % (g.qn, len(g.params))
        recompute = [j for j, op, rk in hashes if op == "=" and rk == full]
        ok_all = True
        for w in writes:
            pw = g.cfg.pos1(w)
            rp = [g.cfg.pos1(j) for j in recompute]
            if pw is None or None in rp:
                raise AnalysisBroken("position of a write in %s" % g.qn)
            exits = [g.cfg.pos1(j) for j, n in g.walk(g.body) if n["k"] == "return"]
            rps = set(rp)
            if not rp or any(g.cfg.paths_avoiding(pw, (lambda b, i, e_, _t=e: (b, i) == _t), (lambda b, i, e_: (b, i) in rps)) for e in exits if e is not None):
                ok_all = False
        if ok_all:
            r6.ok(site, g.loc(writes[0]), "every write to numbers is followed on all paths by NumbersHash = hash(numbers)", cfgname)
        elif not hashes:
            r6.bad(site, g.loc(writes[0]), "numbers are changed but NumbersHash is not recomputed: comparisons and the block map use a stale identity", cfgname)
        else:
            j, op, rk = hashes[0]
            pars = [("param", p_["d"], p_["n"]) for p_ in g.params]

            def outside_subscript(k, target, inside=False):
                if k == target:
                    return not inside
                if not isinstance(k, tuple):
                    return False
                if k[0] == "op" and len(k) == 4 and k[1] == "[]":
                    # numbers[i] reads ONE element: the container as the base of a subscript is not a use of the whole vector
                    return (k[2] != target and outside_subscript(k[2], target, inside)) or outside_subscript(k[3], target, True)
                return any(outside_subscript(x, target, inside) for x in k[1:] if isinstance(x, tuple))
            whole = key_contains(rk, lambda x: x == numbers) and outside_subscript(rk, numbers)
            # does the position argument flow anywhere except into subscripts, bounds comparisons and log output?
            pm_ = g.parent_map()
            intpars = {p_["d"] for p_ in g.params if "int" in (p_.get("t") or "") or "short" in (p_.get("t") or "") or "long" in (p_.get("t") or "")}
            posdep = False
            for jj, nn in g.walk(g.body):
                if nn["k"] == "ref" and nn.get("dk") == "param" and nn["d"] in intpars:
                    ch, pa = jj, pm_.get(jj)
                    while pa is not None and g.nodes[pa]["k"] == "cast":
                        ch, pa = pa, pm_.get(pa)
                    pn_ = g.nodes[pa] if pa is not None else {}
                    harmless = (pn_.get("k") == "call" and pn_.get("ck") == "op" and pn_.get("op") == "[]" and len(pn_["args"]) == 2 and pn_["args"][1] == ch) or \
                               (pn_.get("k") == "bin" and pn_.get("op") in ("<", "<=", ">", ">=", "==", "!=", "[]")) or \
                               (pn_.get("k") == "call" and pn_.get("ck") == "op" and pn_.get("op") == "<<")
                    if not harmless:
                        posdep = True
            if not whole and not posdep:
                r6.bad(site, g.loc(j), "NumbersHash is updated incrementally from element values only (%s): the update does not depend on the position of the changed element, so the identity is symmetric in the quantum numbers — (1,2) and (2,1) name the same block" % g.s(j)[:90], cfgname)
            else:
                r6.unknown(site, g.loc(j), "NumbersHash is updated in a form that is not a recomputation from the whole vector: %s" % g.s(j)[:90], cfgname)
    for opn, rel in (("operator<", "<"), ("operator==", "=="), ("operator!=", "!=")):
        g = db.fn(QN + "::" + opn, nparams=1)
        gctx = thr.ctx(g)
        rhsp = ("param", g.params[0]["d"], g.params[0]["n"])
        rets = [j for j, n in g.walk(g.body) if n["k"] == "return"]
        site = QN + "::" + opn
        k = gctx.key(g.nodes[rets[0]]["sub"]) if len(rets) == 1 else None
        want_ = ("op", rel, hfield, ("field", QN + "::NumbersHash", rhsp))
        alt = ("op", {"<": ">", "==": "==", "!=": "!="}[rel], ("field", QN + "::NumbersHash", rhsp), hfield)
        if k in (want_, alt):
            r6.ok(site, g.loc(), "this->NumbersHash %s rhs.NumbersHash" % rel, cfgname)
        elif k is not None and key_contains(k, lambda x: x == numbers):
            r6.unknown(site, g.loc(), "comparison looks at the numbers themselves: not the hash idiom", cfgname)
        else:
            r6.bad(site, g.loc(), "%s does not compare the hash of this object with the hash of rhs by '%s': the three relations disagree about which quantum numbers are equal" % (opn, rel), cfgname)

    r7 = chk.rule("C07-R7", "the symmetry analysis and the state classification run once: compute() returns at once when Status >= the level it establishes (a second call would register every integral of motion / every state twice)", "F1 pairing", 3)
    from checks.lehmann import check_status_guards
    check_status_guards(r7, db, cfgname, ("Pomerol::Symmetrizer", "Pomerol::StatesClassification"))

    chk.undecided.append("that accepted integrals of motion make H block diagonal and every c, c^+, c^+c single-target at the value level; mapsTo takes the image block from the first non-annihilated state (sound only for linear integrals of motion) and QuantumNumbers are compared through a floating-point hash: noted, not armed")
    chk.trusted.append("virtual calls (Operator::getMatrixElement) are summarised through their static callee")



def check_acceptance(r3, g, gctx, gat, P, tag, cfgname):
    global _DB
    _DB = gctx.db
    opk = gctx.key(g.nodes[P]["args"][0], inline=False)
    fa = gat.get(g.cfg.pos1(P), frozenset())
    has_commute_test = any(x[0] == "true" and x[1][0] == "mcall" and x[1][1] == "Pomerol::Operator::commutes" for x in fa)
    if not has_commute_test:
        # is the Hamiltonian consulted at all on the way to the acceptance?
        storage = fld("Pomerol::Symmetrizer::Storage")
        consulted = False
        for j, n in g.walk(g.body):
            if n["k"] == "member" and n.get("q") == "Pomerol::Symmetrizer::Storage" and g.cfg.pos1(j) and g.cfg.dominates_block(g.cfg.pos1(j)[0], g.cfg.pos1(P)[0]):
                consulted = True
        if not consulted:
            r3.bad("Pomerol::Symmetrizer::checkSymmetry:commutes-with-H" + tag, g.loc(P), "an operator is accepted as an integral of motion without the Hamiltonian being consulted at all on that path", cfgname)
            return
        raise AnalysisBroken("an operator is accepted on a path that does not go through Operator::commutes at all (a different commutation test): the acceptance rule cannot be decided for this idiom")
    # (a) commutes with H
    site = "Pomerol::Symmetrizer::checkSymmetry:commutes-with-H" + tag
    hk = [x for x in fa if x[0] == "true" and x[1][0] == "mcall" and x[1][1] == "Pomerol::Operator::commutes" and x[1][2] == fld("Pomerol::Symmetrizer::Storage")]
    if hk:
        r3.ok(site, g.loc(P), "acceptance is dominated by Storage.commutes(op) == true", cfgname)
    else:
        r3.bad(site, g.loc(P), "an operator is accepted as an integral of motion without the test that it commutes with the Hamiltonian", cfgname)
    # (b) commutes with every n_i: a full loop over [0, IndexSize) whose failing edge returns false, before the push
    site = "Pomerol::Symmetrizer::checkSymmetry:commutes-with-all-n_i" + tag
    okb = False
    found_loop = False
    why = "no loop over the single-particle indices testing n(i).commutes(op)"
    for Lp in [j for j, n in g.walk(g.body) if n["k"] == "for"]:
        shp = loop_shape(g, gctx, Lp)
        tests = []
        for j, n in g.walk(shp["body"]) if shp.get("body") is not None else []:
            if n["k"] == "call" and strip_targs(n.get("cname") or "") == "Pomerol::Operator::commutes":
                ok_ = gctx.key(n["obj"]) if n.get("obj") is not None else None
                if ok_ and ok_[0] == "call" and ok_[1] == "Pomerol::OperatorPresets::n" and (shp.get("var") is None or ok_[2][:2] == shp["var"][:2]):
                    tests.append(j)
        if not tests:
            continue
        found_loop = True
        if shp["kind"] != "index":
            why = "the loop testing n(i).commutes(op) does not cover [0, IndexSize) (loop header not of the form i = 0; i < IndexSize; ++i)"
            continue
        hdr, blks = g.cfg.loop_blocks(Lp)
        full = shp["start"] == ("lit", 0) and shp["rel"] == "<" and shp["bound"] in (fld("Pomerol::Symmetrizer::IndexSize"),
                                                                                      ("field", "Pomerol::IndexClassification::IndexSize", fld("Pomerol::Symmetrizer::IndexInfo")))
        latchfacts = gat.get(g.cfg.pos1(g.nodes[Lp]["inc"]), frozenset())
        passed = any(x[0] == "true" and x[1][0] == "mcall" and x[1][1] == "Pomerol::Operator::commutes" and x[1][2][0] == "call" for x in latchfacts)
        exits_ok = all(kind == "return" for _, kind in shp["exits"])
        rets_false = all(g.nodes[e].get("sub") is not None and gctx.key(g.nodes[e]["sub"]) == ("lit", 0) for e, kind in shp["exits"])
        dom = g.cfg.dominates_block(hdr, g.cfg.pos1(P)[0]) and g.cfg.pos1(P)[0] not in blks
        if full and passed and exits_ok and rets_false and dom and shp["exits"]:
            okb = True
        else:
            why = "the loop testing n(i).commutes(op) %s" % ("does not cover [0, IndexSize)" if not full else "does not reject (return false) on a failing test before the operator is stored" if not (passed and rets_false and shp["exits"]) else "does not precede the acceptance")
    if okb:
        r3.ok(site, g.loc(P), "acceptance follows a loop over all i < IndexSize in which a failing n(i).commutes(op) returns false", cfgname)
    elif not found_loop and _delegates_n_test(g):
        # the occupation-number test sits in a helper (or a while / algorithm form): not followed, no verdict
        r3.unknown(site, g.loc(P), "the test against the occupation numbers n(i) is not written as a for-loop in checkSymmetry (helper function or another loop form): not analysed", cfgname)
    else:
        r3.bad(site, g.loc(P), why, cfgname)
    # (c) NSymmetries incremented with it
    site = "Pomerol::Symmetrizer::checkSymmetry:count" + tag
    incs = [j for j, n in g.walk(g.body) if n["k"] == "un" and n["op"] == "++" and gctx.key(n["sub"]) == fld("Pomerol::Symmetrizer::NSymmetries")
            and g.cfg.pos1(j) and g.cfg.pos1(j)[0] == g.cfg.pos1(P)[0]]
    if len(incs) == 1 and g.cfg.dominates(g.cfg.pos1(P), g.cfg.pos1(incs[0])):
        r3.ok(site, g.loc(incs[0]), "NSymmetries++ on the same path as Operations.push_back", cfgname)
    else:
        r3.bad(site, g.loc(P), "the number of quantum numbers (NSymmetries) is not incremented together with Operations.push_back", cfgname)



def _delegates_n_test(g, depth=3):
    """does g -- outside a recognised for-loop -- still reach OperatorPresets::n (directly in a while / algorithm form, or through a
    helper function of the analysed sources)?"""
    db = g.db if hasattr(g, "db") else None
    seen = set()

    def reach(f, d):
        if f.mangled in seen or f.body is None or f.body < 0 or d < 0:
            return False
        seen.add(f.mangled)
        for j, n in f.walk(f.body):
            if n["k"] == "call" and strip_targs(n.get("cname") or "") == "Pomerol::OperatorPresets::n":
                return True
            if n["k"] == "call" and _DB is not None:
                cf = _DB.callee_fn(n)
                if cf is not None and cf.mangled != f.mangled and "/usr/" not in (cf.file or "/usr/") and reach(cf, d - 1):
                    return True
        return False
    return reach(g, depth)


_DB = None


def first_elem(f, node):
    """first CFG-visible descendant of a statement"""
    for j, n in f.walk(node):
        if f.cfg.pos(j):
            return j
    return node


def prepare_signature(g, thr, cls):
    """Effects of one iteration of X::prepare, per CFG path (any way of writing the loop body):
       for every right block R whose image L = mapsTo(R) exists: one new XPart(.., H[R], H[L], ..) appended to parts,
       mapPartsFromRight[R] = mapPartsFromLeft[L] = position of that part, LeftRightBlocks gets (L, R);
       nothing when the image does not exist; no other condition decides.
    Returns (signature, problems); raises AnalysisBroken when the code cannot be read that way."""
    from pv import paths as P_
    ctx = thr.ctx(g)
    problems = []
    loops = [j for j, n in g.walk(g.body) if n["k"] == "for"]
    if len(loops) != 1:
        raise AnalysisBroken("%s: expected one loop over the right blocks" % g.qn)
    L0 = loops[0]
    shp = loop_shape(g, ctx, L0)
    S = ("field", "Pomerol::FieldOperator::S", THIS)
    if shp["kind"] != "index":
        raise AnalysisBroken("%s: the block loop is not an index loop" % g.qn)
    if not (deconv(shp["start"]) == ("lit", 0) and shp["rel"] == "<" and deconv(shp["bound"]) == ("mcall", SC + "NumberOfBlocks", S) and not shp["exits"]):
        problems.append("the loop does not visit every right block in [0, NumberOfBlocks)")
    R = shp["var"]
    PARTS = ("field", "Pomerol::FieldOperator::parts", THIS)
    H = ("field", "Pomerol::FieldOperator::H", THIS)
    SIZE = ("mcall", "std::vector::size", PARTS)
    Lkey = ("mcall", "Pomerol::FieldOperator::mapsTo", THIS, R)

    def inl(k):
        # inline single-assignment locals (LeftIndex, Part, PartPosition ...) but keep the loop counter
        def f_(x):
            if x[0] == "var" and x[:2] != R[:2] and x[1] in ctx.decls and ctx.decls[x[1]].get("init") is not None and ctx.single_assignment(x[1]) and x[1] not in counters:
                return inl(deconv(ctx.key(ctx.decls[x[1]]["init"], inline=False)))
            return None
        return deconv(key_subst(deconv(k), f_))
    # a running counter declared before the loop (size_t Size = parts.size(); ... Size++)
    counters = {}
    for d, v in ctx.decls.items():
        if v.get("init") is not None and not any(v.get("declnode") == x for x, _ in g.walk(g.nodes[L0]["body"])):
            ik = deconv(ctx.key(v["init"], inline=False))
            if ik == SIZE and ctx.mut.get(d):
                counters[d] = v["n"]
    hdr, plist = P_.loop_body_paths(g, L0)
    if not plist:
        raise AnalysisBroken("%s: no path through the block loop" % g.qn)
    isc = lambda pol: (pol, ("mcall", "Pomerol::BlockNumber::isCorrect", Lkey))
    n_with = n_without = 0
    sig = None
    partial_valid = []
    for path in plist:
        pf = {(x[0], inl(x[1])) if x[0] in ("true", "false") else x for x in P_.path_facts(g, ctx, path)}
        if not P_.feasible(pf):
            continue
        ids = P_.nodes_on_path(g, path[1:])
        news, pushes, maps, bim, incs, others = [], [], [], [], [], []
        for pos_, j in enumerate(ids):
            n = g.nodes[j]
            if n["k"] == "new":
                news.append((pos_, inl(ctx.key(j, inline=False))))
            elif n["k"] == "call" and n["ck"] == "method" and strip_targs(n.get("cname") or "") == "std::vector::push_back" and ctx.key(n["obj"]) == PARTS:
                pushes.append((pos_, inl(ctx.key(n["args"][0], inline=False))))
            elif n["k"] == "call" and n["ck"] == "method" and strip_targs(n.get("cname") or "").endswith("::insert") and ctx.key(n["obj"]) == ("field", "Pomerol::FieldOperator::LeftRightBlocks", THIS):
                bim.append((pos_, inl(ctx.key(n["args"][0], inline=False))))
            elif (n["k"] == "bin" and n["op"] == "=") or (n["k"] == "call" and n.get("ck") == "op" and n.get("op") == "=" and len(n["args"]) == 2):
                l_, r_ = (n["l"], n["r"]) if n["k"] == "bin" else n["args"]
                lk = deconv(ctx.key(l_, inline=False))
                if lk[0] == "op" and lk[1] == "[]" and lk[2][0] == "field" and lk[2][1].startswith("Pomerol::FieldOperator::mapPartsFrom"):
                    maps.append((pos_, lk[2][1].split("::")[-1], inl(lk[3]), ctx.key(r_, inline=False)))
            elif n["k"] == "un" and n["op"] in ("++",) and g.nodes[n["sub"]]["k"] == "ref" and g.nodes[n["sub"]]["d"] in counters:
                incs.append((pos_, g.nodes[n["sub"]]["d"]))
        effects = bool(news or pushes or maps or bim)
        # which values of the image block L = mapsTo(R) are compatible with the conditions of this path?  -1 is "no image"
        # (ERROR_BLOCK_NUMBER, the only negative value mapsTo returns), 0, 1, 5 stand for the existing blocks (0 matters: it is a
        # block like any other).  isCorrect() is number >= 0; comparisons with literals / ERROR_BLOCK_NUMBER are evaluated.
        D = {-1, 0, 1, 5}
        unknownL = None
        for x in pf:
            if x in (isc("true"), isc("false")):
                D = {v for v in D if (v >= 0) == (x[0] == "true")}
                continue
            if x[0] in ("<", "<=", "==", "!=") and len(x) == 3:
                a_, b_ = inl(x[1]), inl(x[2])

                def val_(k_):
                    k_ = deconv(k_)
                    while k_[0] == "cast" and len(k_) == 3:
                        k_ = deconv(k_[2])
                    if k_ == Lkey:
                        return "L"
                    if k_[0] == "lit" and isinstance(k_[1], int):
                        return k_[1]
                    if k_[0] == "un" and k_[1] == "-" and k_[2][0] == "lit":
                        return -k_[2][1]
                    if k_ == ("global", "Pomerol::ERROR_BLOCK_NUMBER"):
                        return -1
                    return None
                va_, vb_ = val_(a_), val_(b_)
                if "L" in (va_, vb_):
                    other = vb_ if va_ == "L" else va_
                    if other is None or other == "L":
                        unknownL = x
                        continue
                    cmp_ = {"<": lambda p_, q_: p_ < q_, "<=": lambda p_, q_: p_ <= q_, "==": lambda p_, q_: p_ == q_, "!=": lambda p_, q_: p_ != q_}[x[0]]
                    D = {v for v in D if (cmp_(v, other) if va_ == "L" else cmp_(other, v))}
                    continue
            if key_contains(("x",) + tuple(y for y in x[1:] if isinstance(y, tuple)), lambda y: inl(y) == Lkey if isinstance(y, tuple) and y[0] in ("var", "mcall") else False) and x[0] in ("true", "false"):
                unknownL = x
        # (conditions that relate the image block to something that is not a constant -- `Left == Right`, ... -- say nothing about
        #  its existence: they are extra filters and are judged as such below)
        only_valid = bool(D) and all(v >= 0 for v in D)
        only_missing = bool(D) and all(v < 0 for v in D)
        if only_valid and D != {0, 1, 5} and effects:
            # a part is created, but only for some of the existing image blocks: find out whether the others get one elsewhere
            partial_valid.append((set(D), path))
        if only_valid:
            n_with += 1
            if not effects:
                problems.append("part creation is filtered by a condition other than LeftIndex.isCorrect() (%s): blocks with an image get no part" % (
                    "; ".join(sorted(str(fact_str(x))[:60] for x in pf if x not in (isc("true"),) and x[0] in ("true", "false") and not (x[0] == "true" and False)))[:160] or "path without effects"))
                continue
            # exactly one of each
            if not (len(news) == 1 and len(pushes) == 1 and len(maps) == 2 and len(bim) == 1):
                # steps handed to a helper member function (registerPart(...)) are not followed: undecided, not a defect
                deleg = []
                for j in ids:
                    n = g.nodes[j]
                    if n["k"] == "call" and n.get("ck") == "method" and g.nodes[n["obj"]]["k"] == "this" if n.get("obj") is not None else False:
                        cf_ = thr.db.callee_fn(n) if hasattr(thr, "db") else None
                        if cf_ is not None and cf_.body is not None and cf_.body >= 0 and not cf_.d.get("const"):
                            deleg.append(cf_.qn)
                if deleg and len(news) <= 1 and len(pushes) <= 1 and len(maps) <= 2 and len(bim) <= 1:
                    raise AnalysisBroken("%s: part bookkeeping is delegated to %s (helper not followed)" % (g.qn, ", ".join(sorted(set(deleg)))))
                problems.append("bookkeeping steps are not performed exactly once each (new %d, push %d, map writes %d, bimap inserts %d)" % (len(news), len(pushes), len(maps), len(bim)))
                continue
            c = news[0][1][2] if news[0][1][0] == "new" else None
            if not (c is not None and c[0] == "ctor" and c[1] == "Pomerol::%sOperatorPart" % cls):
                problems.append("part type is %s, expected %sOperatorPart" % (c[1] if c else "?", cls))
            elif not (len(c) >= 6 and c[4] == ("mcall", "Pomerol::Hamiltonian::getPart", H, R) and c[5] == ("mcall", "Pomerol::Hamiltonian::getPart", H, Lkey)):
                problems.append("part is not built with HFrom = H.getPart(Right), HTo = H.getPart(Left)")
            if pushes[0][1] != news[0][1]:
                problems.append("parts.push_back does not store the new part")
            # position recorded in the maps == position of the pushed part
            for pos_, which, keyk, rk_raw in maps:
                want_key = R if which == "mapPartsFromRight" else Lkey
                if keyk != want_key:
                    problems.append("%s is keyed by %s instead of the %s block" % (which, fact_str(("true", keyk))[:40], "right" if which == "mapPartsFromRight" else "left"))
                rk = deconv(rk_raw)
                okpos = False
                if rk[0] == "var" and rk[1] in counters:
                    inc_here = [p_ for p_, d_ in incs if d_ == rk[1]]
                    okpos = len(inc_here) == 1 and pos_ < inc_here[0]
                elif rk[0] == "var" and ctx.decls.get(rk[1], {}).get("init") is not None and ctx.single_assignment(rk[1]):
                    dn = ctx.decls[rk[1]].get("declnode")
                    okpos = deconv(ctx.key(ctx.decls[rk[1]]["init"], inline=False)) == SIZE and dn in ids and ids.index(dn) < pushes[0][0]
                elif rk == SIZE:
                    okpos = pos_ < pushes[0][0]
                elif rk == ("op", "-", SIZE, ("lit", 1)):
                    okpos = pos_ > pushes[0][0]
                else:
                    raise AnalysisBroken("%s: the position stored in %s (%s) is not a recognised form of 'index of the part just appended'" % (g.qn, which, g.s(ids[pos_])[:60]))
                if not okpos:
                    problems.append("%s does not record the position of the part appended in this iteration (%s)" % (which, g.s(ids[pos_])[:50]))
            bk = bim[0][1]
            if not (len(bk) >= 4 and tuple(bk[-2:]) == (Lkey, R)):
                problems.append("LeftRightBlocks does not get the pair (Left, Right)")
            for d_ in counters:
                if len([1 for p_, dd in incs if dd == d_]) != 1 and any(deconv(m_[3])[:2] == ("var", d_) for m_ in maps):
                    problems.append("the running part counter is not incremented exactly once per new part")
            sig = ("ok",)
        elif only_missing:
            n_without += 1
            if effects:
                problems.append("a part / map entry is created although mapsTo returned no image block (LeftIndex.isCorrect() is false on that path)")
        else:
            if effects:
                problems.append("the part is created although mapsTo returned no image block (LeftIndex.isCorrect() not tested)")
            elif any(v >= 0 for v in D):
                problems.append("no part is created on a path that existing image blocks take (image block number %s): the test that guards the creation is not `the image exists` (isCorrect(), number >= 0) -- "
                                "e.g. block 0 is an ordinary block for partitions that do not include N" % ", ".join(str(v) for v in sorted(D) if v >= 0))
                n_with += 1
    if n_with == 0:
        # the image block is not mapsTo(RightIndex): if it is a conditional one of whose arms is the right block itself, the code
        # assumes that the operator keeps the block, which holds for some partitions only (positive evidence); anything else is
        # a form this rule does not analyse
        for j, n in g.walk(g.body):
            if n["k"] == "new":
                c = inl(ctx.key(j, inline=False))
                c = c[2] if c[0] == "new" else c
                if c[0] == "ctor" and len(c) >= 6 and c[5][0] == "mcall" and c[5][1] == "Pomerol::Hamiltonian::getPart":
                    img = deconv(c[5][3])
                    if img[0] == "cond" and Lkey in (deconv(img[2]), deconv(img[3])) and R[:2] in (deconv(img[2])[:2], deconv(img[3])[:2]):
                        problems.append("the image block is taken to be the right block itself when (%s) instead of mapsTo(RightIndex): that the operator does not leave the block is true for some partitions only (e.g. (N, S_z)), with finer symmetries the part is bound to the wrong left block" % fact_str(("true", img[1]))[:80])
                        return ("bad",), sorted(set(problems))
        raise AnalysisBroken("%s: no path under LeftIndex.isCorrect() found" % g.qn)
    return (sig if not problems else ("bad",)), sorted(set(problems))


if __name__ == "__main__":
    run_check("C07", "symmetry analysis yields a sound partition", body)
