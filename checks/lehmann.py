"""Shared rules for the two-operator Lehmann sums (GreensFunctionPart / SusceptibilityPart and their owners):
index-space typed term formula, stripe binding, merge-walk discipline, TermList reduction, Matsubara grid."""
import math

import sympy as sp

from pv.entail import canon, entails
from pv.expr import Ctx, guard_facts, key_contains, key_subst
from pv.facts import AnalysisBroken, strip_targs
from pv.formula import Formula, exp_args, nonpositive
from pv.loops import enclosing_loops, loop_shape, no_early_exit

THIS = ("this",)
ROWMAJOR = "elementsRowMajor"
COLMAJOR = "elementsColMajor"
FOP = "Pomerol::FieldOperatorPart::"
PI = sp.Rational(repr(math.pi))


def fld(q, base=THIS):
    return ("field", q, base)


def rw_facts(facts):
    from pv.entail import derived_equalities
    _, rw = canon([f for f in derived_equalities(facts) if f[0] == "=="])
    return rw


def iterator_vars(f, ctx):
    """sparse iterators of a function: decl -> dict(major, matrix key, outer key)"""
    out = {}
    for d, v in ctx.decls.items():
        t = v.get("t", "")
        if "InnerIterator" in t and v.get("init") is not None:
            k = ctx.key(v["init"])
            if k[0] != "ctor" or len(k) != 4:
                raise AnalysisBroken("%s: iterator %s is not constructed from (matrix, outer index)" % (f.qn, v["n"]))
            major = "row" if ", 1>" in t or ", 1," in t else ("col" if ", 0>" in t or ", 0," in t else None)
            if major is None:
                raise AnalysisBroken("%s: storage order of iterator %s not recognised in %s" % (f.qn, v["n"], t))
            out[d] = {"name": v["n"], "major": major, "matrix": k[2], "outer": k[3], "var": ("var", d, v["n"])}
    return out


def val(it):
    return ("mcall", "Eigen::SparseCompressedBase::InnerIterator::value", it["var"])


def idx(it):
    return ("mcall", "Eigen::SparseCompressedBase::InnerIterator::index", it["var"])


def _subkeys_l(k):
    out = [k]
    if isinstance(k, tuple):
        for x in k:
            if isinstance(x, tuple):
                out.extend(_subkeys_l(x))
    return out


def check_part_compute(rule, db, cfgname, fname, left_field, right_field, sign, zero_pole=None):
    """<o|A|i><i|B|o> Lehmann term of a two-operator part.
       left_field: field holding the operator part iterated row-major (C / A), right_field: column-major (CX / B);
       sign: +1 (fermionic, w_o + w_i) or -1 (bosonic, w_o - w_i)."""
    f = db.fn(fname, nparams=0)
    ctx = Ctx(f, db)
    at = guard_facts(f, ctx)
    cls = fname.rsplit("::", 1)[0]
    its = iterator_vars(f, ctx)
    A = [i for i in its.values() if i["matrix"] == ("field", FOP + ROWMAJOR, fld(cls + "::" + left_field)) and i["major"] == "row"]
    B = [i for i in its.values() if i["matrix"] == ("field", FOP + COLMAJOR, fld(cls + "::" + right_field)) and i["major"] == "col"]
    site = fname + ":iterators"
    if len(A) != 1 or len(B) != 1:
        rule.bad(site, f.loc(), "the sum does not walk a ROW of %s (row-major iterator over %s.getRowMajorValue()) against a COLUMN of %s (column-major iterator over %s.getColMajorValue()); found %s" % (
            left_field, left_field, right_field, right_field, [(i["name"], i["major"], short(i["matrix"])) for i in its.values()]), cfgname)
        return None
    A, B = A[0], B[0]
    # both iterators run over the same outer index, which loops over all rows of the left operator
    o = A["outer"]
    okouter = A["outer"] == B["outer"] and o[0] == "var"
    L = None
    if okouter:
        for Lp in [j for j, n in f.walk(f.body) if n["k"] == "for"]:
            shp = loop_shape(f, ctx, Lp)
            if shp["var"] is not None and shp["var"][:2] == o[:2]:
                L = shp
    full = L is not None and L["kind"] == "index" and L["start"] == ("lit", 0) and L["rel"] == "<" and not L.get("exits") and \
        L["bound"] in (("mcall", "Eigen::SparseMatrix::outerSize", A["matrix"]), ("mcall", "Eigen::SparseMatrix::outerSize", B["matrix"]),
                       ("mcall", "Eigen::SparseMatrix::rows", A["matrix"]), ("mcall", "Eigen::SparseMatrix::cols", B["matrix"]))
    if okouter and full:
        rule.ok(site, f.loc(), "row o of %s (row-major) against column o of %s (column-major), o over all outer indices" % (left_field, right_field), cfgname)
    else:
        rule.bad(site, f.loc(), "the two iterators are not constructed for the same outer index running over all rows of %s" % left_field, cfgname)
        return None
    adds = [j for j in f.calls() if strip_targs(f.nodes[j].get("cname") or "") == "Pomerol::TermList::add_term"]
    if len(adds) != 1:
        raise AnalysisBroken("%s: expected exactly one add_term site, found %d" % (fname, len(adds)))
    J = adds[0]
    fa = at.get(f.cfg.pos1(J), frozenset())

    # values captured in locals before the iterators are advanced (Residue / Pole / the two indices computed first, `++it`
    # next, add_term last): a single-assignment local whose declaration precedes, in every iteration, each change of the
    # variables its initialiser mentions stands for that initialiser evaluated on the elements the iterators pointed at when it
    # was captured.  All quantities of one term are then expressed at the same capture time.
    def captured_locals(k, acc):
        for y in _subkeys_l(k):
            if y[0] == "var" and y[1] not in acc:
                dv = ctx.decls.get(y[1])
                if dv and dv.get("init") is not None and ctx.single_assignment(y[1]) and dv.get("declnode") is not None and f.cfg.pos1(dv["declnode"]) is not None:
                    acc[y[1]] = ctx.key(dv["init"], inline=False)
                    captured_locals(acc[y[1]], acc)
        return acc
    caps = captured_locals(ctx.key(f.nodes[J]["args"][0], inline=False), {})
    for fct in fa:
        for x in fct[1:]:
            if isinstance(x, tuple):
                captured_locals(x, caps)
    Ls_J = enclosing_loops(f, J)
    hdr_J = f.cfg.loop_blocks(Ls_J[0])[0] if Ls_J else None
    in_header = lambda b_, i_, e_: hdr_J is not None and b_ == hdr_J

    def consistent():
        """all captured locals see the same iterator state: between the declarations of two of them (inside one iteration) no
        variable that the earlier one's initialiser mentions is changed"""
        ds = list(caps)
        for d1 in ds:
            p1 = f.cfg.pos1(ctx.decls[d1]["declnode"])
            muts = {}
            for y in _subkeys_l(caps[d1]):
                if y[0] == "var" and ctx.mut.get(y[1]):
                    muts[y[1]] = [m for m in ctx.mut[y[1]] if m != ctx.decls.get(y[1], {}).get("declnode") and f.cfg.pos1(m) is not None]
            if not muts:
                continue
            for d2 in ds:
                if d2 == d1:
                    continue
                # only a local that itself reads a changing variable can see another state of THAT variable
                shared = set(muts) & {y[1] for y in _subkeys_l(caps[d2]) if y[0] == "var"}
                if not shared:
                    continue
                p2 = f.cfg.pos1(ctx.decls[d2]["declnode"])
                if not f.cfg.dominates(p1, p2):
                    continue
                for v_ in shared:
                    for m in muts[v_]:
                        pm = f.cfg.pos1(m)
                        if f.cfg.paths_avoiding(p1, lambda b_, i_, e_, pm=pm: (b_, i_) == pm, in_header) and f.cfg.paths_avoiding(pm, lambda b_, i_, e_, p2=p2: (b_, i_) == p2, in_header):
                            return False
        return True
    caps_ok = bool(caps) and consistent()

    def cap(k, depth=0):
        if not caps_ok:
            return k
        return key_subst(k, lambda x: cap(caps[x[1]], depth + 1) if x[0] == "var" and x[1] in caps and depth < 8 else None)
    if caps_ok and Ls_J:
        # branch conditions taken earlier in the same iteration on values that were captured before the iterators moved: the
        # must-dataflow has dropped them at the `++`; read them off the paths (they hold for the captured state)
        from pv import paths as _P
        hdr_, plist_ = _P.loop_body_paths(f, Ls_J[0])
        pj = f.cfg.pos1(J)
        common = None
        for pth in plist_ or []:
            if pj[0] not in pth:
                continue
            pf_ = _P.path_facts(f, ctx, pth[:pth.index(pj[0]) + 1])
            if not _P.feasible(pf_):
                continue
            common = set(pf_) if common is None else (common & set(pf_))
        for fct in (common or ()):
            captured_locals(("x",) + tuple(y for y in fct[1:] if isinstance(y, tuple)), caps)
        caps_ok = consistent()
        if caps_ok and common:
            fa = frozenset(set(fa) | common)
    fa = frozenset(set(fa) | {tuple(cap(x) if isinstance(x, tuple) else x for x in fct) for fct in fa})
    rw = rw_facts(fa)
    tk = ctx.key(f.nodes[J]["args"][0])
    if key_contains(tk, lambda y: y[0] == "var" and y[1] in ctx.decls and ctx.single_assignment(y[1])):
        tk = cap(tk)
    if not (tk[0] == "ctor" and tk[1] == cls + "::Term" and len(tk) == 4):
        raise AnalysisBroken("%s: add_term argument is not Term(Residue, Pole): %s" % (fname, f.s(J)[:100]))
    F = Formula()
    i_key = rw(idx(A))
    for k, nm in ((val(A), "a_oi"), (val(B), "b_io"), (rw(("mcall", "Pomerol::DensityMatrixPart::getWeight", fld(cls + "::DMpartOuter"), o)), "w_outer_o"),
                  (rw(("mcall", "Pomerol::DensityMatrixPart::getWeight", fld(cls + "::DMpartInner"), i_key)), "w_inner_i"),
                  (rw(("mcall", "Pomerol::HamiltonianPart::getEigenValue", fld(cls + "::HpartInner"), i_key)), "E_inner_i"),
                  (rw(("mcall", "Pomerol::HamiltonianPart::getEigenValue", fld(cls + "::HpartOuter"), o)), "E_outer_o")):
        F.name_atom(k, nm)
    s = F.syms
    a, b = F.conv(val(A)), F.conv(val(B))
    wo = F.conv(rw(("mcall", "Pomerol::DensityMatrixPart::getWeight", fld(cls + "::DMpartOuter"), o)))
    wi = F.conv(rw(("mcall", "Pomerol::DensityMatrixPart::getWeight", fld(cls + "::DMpartInner"), i_key)))
    Ei = F.conv(rw(("mcall", "Pomerol::HamiltonianPart::getEigenValue", fld(cls + "::HpartInner"), i_key)))
    Eo = F.conv(rw(("mcall", "Pomerol::HamiltonianPart::getEigenValue", fld(cls + "::HpartOuter"), o)))
    # the match is under equality of the two inner indices
    site = fname + ":match-under-equal-index"
    if entails(fa, ("==",) + tuple(sorted([idx(A), idx(B)], key=repr))):
        rule.ok(site, f.loc(J), "term is added only when both iterators point at the same inner index", cfgname)
    else:
        rule.bad(site, f.loc(J), "a term is added without the test that the row element and the column element belong to the same intermediate state", cfgname)
    res = F.conv(rw(tk[2]))
    pole = F.conv(rw(tk[3]))
    want_res = a * b * (wo + sign * wi)
    want_pole = Ei - Eo
    site = fname + ":Residue"
    if F.equal(res, want_res):
        rule.ok(site, f.loc(J), "Residue == a_oi*b_io*(w_outer(o) %s w_inner(i))" % ("+" if sign > 0 else "-"), cfgname)
    else:
        rule.bad(site, f.loc(J), "Residue is %s, the Lehmann representation needs %s%s" % (F.show(res), F.show(want_res), wit(F, res, want_res)), cfgname)
    # per-item filters of the outer loop (`if (...) continue;`): an outer state may be skipped only under a condition that makes
    # every term of that iteration negligible, i.e. the quantity found small must be a FACTOR of the residue that is added.
    # (w_outer < eps does not qualify: the residue a*b*(w_outer -/+ w_inner) stays of order w_inner.)
    if L.get("continues"):
        site = fname + ":outer-filter"
        base = at.get(f.cfg.pos_cond(f.nodes[L["node"]]["body"]) if f.nodes[L["node"]].get("body") is not None else None, frozenset())
        for cnode, _k in L["continues"]:
            cf = [x for x in at.get(f.cfg.pos1(cnode), frozenset()) if x not in base]
            small = []
            for x in cf:
                if x[0] in ("<", "<=") and not (x[1][0] == "lit"):
                    q = x[1]
                    while q[0] == "call" and q[1] in ("abs", "std::abs", "fabs", "std::fabs") and len(q) == 3:
                        q = q[2]
                    small.append(rw(q))
                elif x[0] == "==" and ("lit", 0) in x[1:]:
                    small.append(rw([y for y in x[1:] if y != ("lit", 0)][0]))
            if not small:
                raise AnalysisBroken("%s: the outer loop skips iterations under a condition that is not a smallness test (%s): not analysed" % (fname, "; ".join(str(x)[:60] for x in cf)))
            vanishing = False
            for q in small:
                try:
                    qs = F.conv(q)
                except AnalysisBroken:
                    continue
                if qs.is_Symbol and F.is_zero(res.subs(qs, 0)):
                    vanishing = True
            if vanishing:
                rule.ok(site, f.loc(cnode), "outer states are skipped only when a factor of the residue is negligible", cfgname)
            else:
                rule.bad(site, f.loc(cnode), "outer states are skipped when %s is small, but the residue added for them, %s, does not vanish with it: Lehmann terms of order one are dropped "
                         "(e.g. an unpopulated outer state with a populated inner one)" % (" / ".join(F.show(F.conv(q)) for q in small), F.show(res)), cfgname)
    site = fname + ":Pole"
    if F.equal(pole, want_pole):
        rule.ok(site, f.loc(J), "Pole == E_inner(i) - E_outer(o)", cfgname)
    else:
        rule.bad(site, f.loc(J), "Pole is %s, the Lehmann representation needs %s%s" % (F.show(pole), F.show(want_pole), wit(F, pole, want_pole)), cfgname)
    return {"f": f, "ctx": ctx, "at": at, "A": A, "B": B, "o": o, "add": J, "F": F, "rw": rw, "a": a, "b": b, "wo": wo, "wi": wi, "Ei": Ei, "Eo": Eo, "facts": fa, "cls": cls}


def wit(F, a, b):
    w = F.witness(a, b)
    if not w:
        return ""
    return " (they differ e.g. at %s: %s vs %s)" % (w[0], w[1], w[2])


def short(k):
    if k[0] == "field":
        b = short(k[2]) if k[2] != THIS else ""
        return (b + "." if b else "") + k[1].split("::")[-1]
    return str(k[0])


def check_walk(rule, cfgname, info, fname):
    """element-level merge walk: both iterators advance on a match; otherwise only the one with the smaller index advances."""
    f, ctx, at, A, B = info["f"], info["ctx"], info["at"], info["A"], info["B"]
    incs = {A["var"][1]: [], B["var"][1]: []}
    for j, n in f.walk(f.body):
        if n["k"] == "call" and n["ck"] == "op" and n.get("op") == "++":
            d = f.nodes[n["args"][0]]
            if d["k"] == "ref" and d["d"] in incs:
                incs[d["d"]].append(j)
    site = fname + ":walk"
    problems = []
    eqgoal = ("==",) + tuple(sorted([idx(A), idx(B)], key=repr))
    # classify every increment; increments that follow an "equal" increment in the same basic block belong to the match step
    allinc = sorted([(f.cfg.pos1(j), j, me) for me in (A, B) for j in incs[me["var"][1]]])
    eq_blocks = {}
    both = set()
    for pos, j, me in allinc:
        other = B if me is A else A
        fa = at.get(pos, frozenset())
        eq = entails(fa, eqgoal) or eq_blocks.get(pos[0], False)
        lt = any(x[0] == "<" and x[1] == idx(me) for x in fa) or entails(fa, ("<", idx(me), idx(other)))
        if eq:
            eq_blocks[pos[0]] = True
            both.add(me["name"])
        if not (eq or lt):
            problems.append("++%s at line %d is executed without %s.index() being <= the other index (an element of the larger side is skipped)" % (me["name"], f.nodes[j]["ln"], me["name"]))
    if not incs[A["var"][1]] or not incs[B["var"][1]]:
        problems.append("an iterator is never advanced")
    if both != {A["name"], B["name"]}:
        problems.append("after a match the two iterators are not both advanced")
    if problems:
        rule.bad(site, f.loc(), "; ".join(problems), cfgname)
    else:
        rule.ok(site, f.loc(), "match => both advance; otherwise only the iterator with the smaller inner index advances", cfgname)


def check_term_value(rule, db, cfgname, cls, sign_num, bosonic):
    """Term::operator()(z) and Term::operator()(tau, beta)."""
    t = db.fn(cls + "::Term::operator()", nparams=1)
    ctx = Ctx(t, db)
    F = Formula()
    R = F.name_atom(fld(cls + "::Term::Residue"), "R")
    P = F.name_atom(fld(cls + "::Term::Pole"), "P")
    z = F.name_atom(("param", t.params[0]["d"], t.params[0]["n"]), "z")
    rets = [j for j, n in t.walk(t.body) if n["k"] == "return"]
    if len(rets) != 1:
        raise AnalysisBroken("%s::Term::operator()(z): expected one return" % cls)
    got = F.conv(ctx.key(t.nodes[rets[0]]["sub"]))
    want = sign_num * R / (z - P)
    site = cls + "::Term::operator()(z)"
    if F.equal(got, want):
        rule.ok(site, t.loc(), "== %s" % want, cfgname)
    else:
        rule.bad(site, t.loc(), "term value is %s, expected %s%s" % (got, want, wit(F, got, want)), cfgname)
    # imaginary time
    t2 = db.fn(cls + "::Term::operator()", nparams=2)
    ctx2 = Ctx(t2, db)
    F2 = Formula(real_atoms=True)
    R = F2.name_atom(fld(cls + "::Term::Residue"), "R")
    P = F2.name_atom(fld(cls + "::Term::Pole"), "P")
    tau = F2.name_atom(("param", t2.params[0]["d"], t2.params[0]["n"]), "tau")
    beta = F2.name_atom(("param", t2.params[1]["d"], t2.params[1]["n"]), "beta")
    rets = [j for j, n in t2.walk(t2.body) if n["k"] == "return"]
    if len(rets) == 2:
        # if (P > 0) return A; else return B;   ==   return P > 0 ? A : B
        at2 = guard_facts(t2, ctx2)
        Pk = fld(cls + "::Term::Pole")
        br = {}
        for j in rets:
            fa = at2.get(t2.cfg.pos1(j), frozenset())
            sgn = [x for x in fa if x[0] in ("<", "<=") and {x[1], x[2]} == {Pk, ("lit", 0)}]
            if len(sgn) != 1:
                raise AnalysisBroken("%s::Term::operator()(tau,beta): a return is not under a sign test of the pole" % cls)
            x = sgn[0]
            # 0 < P -> '>' ; P <= 0 -> '<=' ...
            op = (">" if x[0] == "<" else ">=") if x[1] == ("lit", 0) else x[0]
            br[op] = ctx2.key(t2.nodes[j]["sub"])
        if set(br) == {">", "<="}:
            rk = ("cond", ("op", ">", Pk, ("lit", 0)), br[">"], br["<="])
        elif set(br) == {">=", "<"}:
            rk = ("cond", ("op", ">=", Pk, ("lit", 0)), br[">="], br["<"])
        else:
            raise AnalysisBroken("%s::Term::operator()(tau,beta): the two returns are not under complementary sign tests of the pole" % cls)
    elif len(rets) != 1:
        raise AnalysisBroken("%s::Term::operator()(tau,beta): expected one return" % cls)
    else:
        rk = ctx2.key(t2.nodes[rets[0]]["sub"])
    site = cls + "::Term::operator()(tau,beta)"
    # conditionals buried inside the expression (numerator / denominator chosen separately by the same test, possibly through a
    # bool local): split on the one condition they share and treat the two specialisations as the two branches
    def _conds(k, acc):
        if isinstance(k, tuple):
            if k[0] == "cond" and len(k) == 4:
                acc.add(k[1])
            for x in k:
                _conds(x, acc)
        return acc
    cs = _conds(rk, set())
    if rk[0] != "cond" and len(cs) == 1:
        c0 = list(cs)[0]
        pick = lambda which: key_subst(rk, lambda y: (y[2] if which else y[3]) if (y[0] == "cond" and len(y) == 4 and y[1] == c0) else None)
        rk = ("cond", c0, pick(True), pick(False))
    elif rk[0] == "cond" and len(cs) > 1:
        raise AnalysisBroken("%s::Term::operator()(tau,beta): nested conditionals on different conditions" % cls)
    elif rk[0] != "cond" and len(cs) > 1:
        raise AnalysisBroken("%s::Term::operator()(tau,beta): several different conditions inside the value" % cls)
    single = rk[0] != "cond"
    if single:
        # one closed form for both signs of the pole: it must be the inverse transform AND overflow-safe for P > 0 and P < 0
        c, e1, e2 = None, F2.conv(rk), F2.conv(rk)
    else:
        c, e1, e2 = rk[1], F2.conv(rk[2]), F2.conv(rk[3])
    # fermionic:  -R e^{-tau P} / (1 + e^{-beta P});   bosonic:  R e^{-tau P} / (1 - e^{-beta P})
    if bosonic:
        want = R * sp.exp(-tau * P) / (1 - sp.exp(-beta * P))
    else:
        want = -R * sp.exp(-tau * P) / (1 + sp.exp(-beta * P))
    bad = []
    for nm, e in (("first", e1), ("second", e2)):
        if not F2.equal(e, want):
            bad.append("%s branch is %s, expected the inverse transform %s" % (nm, e, want))
    if bad:
        rule.bad(site, t2.loc(), "; ".join(bad), cfgname)
    else:
        rule.ok(site, t2.loc(), "both branches equal %s" % want, cfgname)
    # overflow mechanism: every exp argument is <= 0 in the branch it is used in (0 <= tau <= beta)
    site = cls + "::Term::operator()(tau,beta):no-overflow"
    # condition: P > 0  (or P >= 0 / P < 0 ...): determine sign of P in each branch
    if single:
        first, second = "+", "-"
    else:
        if not (c[0] == "op" and c[1] in (">", ">=", "<", "<=") and {c[2], c[3]} == {fld(cls + "::Term::Pole"), ("lit", 0)}):
            raise AnalysisBroken("%s: branch condition is not a sign test of the pole" % site)
        op = c[1]
        if c[3] == fld(cls + "::Term::Pole"):      # 0 op P  ->  P op' 0
            op = {">": "<", "<": ">", ">=": "<=", "<=": ">="}[op]
        first = {">": "+", ">=": "0+", "<": "-", "<=": "0-"}[op]
        second = {">": "0-", ">=": "-", "<": "0+", "<=": "+"}[op]
    d = sp.Symbol("d", real=True)        # beta - tau >= 0
    probs = []
    for nm, e, psign in ((("the single closed form for P > 0" if single else "first"), e1, first), (("the single closed form for P < 0" if single else "second"), e2, second)):
        for arg in exp_args(e):
            arg2 = sp.expand(arg.subs(beta, tau + d))
            r = nonpositive(arg2, {tau: "0+", d: "0+", P: psign})
            if r is not True:
                probs.append("exp(%s) in the %s branch (pole %s 0) has an argument that is not <= 0 for 0 <= tau <= beta: it overflows for large beta*|pole|" % (
                    arg, nm, {"+": ">", "0+": ">=", "-": "<", "0-": "<="}[psign]))
    if probs:
        rule.bad(site, t2.loc(), "; ".join(probs[:2]), cfgname)
    else:
        rule.ok(site, t2.loc(), "every exp argument is <= 0 in its branch (0 <= tau <= beta)", cfgname)


def check_matsubara(rule, db, cfgname, qn, fermionic):
    """operator()(long n) == (*this)(MatsubaraSpacing * (2n+1))   /  (2n) for bosonic"""
    g = db.fn(qn, ptypes=[r"^long$"])
    ctx = Ctx(g, db)
    rets = [j for j, n in g.walk(g.body) if n["k"] == "return"]
    site = "%s(long)" % qn
    ok_ = False
    why = ""
    for j in rets:
        k = ctx.key(g.nodes[j]["sub"])
        if k[0] == "op" and k[1] == "()" and k[2] == ("un", "*", THIS) and len(k) == 4:
            F = Formula()
            ms = F.name_atom(fld("Pomerol::Thermal::MatsubaraSpacing"), "dW")
            n_ = F.name_atom(("param", g.params[0]["d"], g.params[0]["n"]), "n")
            got = F.conv(k[3])
            want = ms * (2 * n_ + 1) if fermionic else ms * (2 * n_)
            if F.equal(got, want):
                ok_ = True
            else:
                why = "evaluates at %s, the %s Matsubara grid is %s" % (got, "fermionic" if fermionic else "bosonic", want)
        else:
            why = "does not delegate to operator()(ComplexType)"
    if ok_:
        rule.ok(site, g.loc(), "(*this)(MatsubaraSpacing*(2n%s))" % ("+1" if fermionic else ""), cfgname)
    else:
        rule.bad(site, g.loc(), why or "no return", cfgname)


def check_thermal(rule, db, cfgname):
    t = db.fn("Pomerol::Thermal::Thermal", nparams=1)
    ctx = Ctx(t, db)
    F = Formula()
    b = F.name_atom(("param", t.params[0]["d"], t.params[0]["n"]), "beta")
    site = "Pomerol::Thermal::MatsubaraSpacing"
    got = None
    for i in t.d.get("inits", []):
        if i.get("field") == "MatsubaraSpacing":
            got = F.conv(ctx.key(i["e"]))
    want = sp.I * PI / b
    if got is not None and F.equal(got, want):
        rule.ok(site, t.loc(), "== i*pi/beta", cfgname)
    else:
        rule.bad(site, t.loc(), "MatsubaraSpacing is %s, expected i*pi/beta" % got, cfgname)


def decision_point(g, node):
    """CFG position at which it is decided whether `node` executes: the first thing evaluated by the outermost control
    statement (if / loop / switch) that encloses it inside the function body; the node's own position when it is unconditional."""
    top = None
    for a in g.ancestors(node):
        if g.nodes[a]["k"] in ("if", "for", "while", "do", "forrange", "switch"):
            top = a
    if top is None:
        return g.cfg.pos1(node)
    n = g.nodes[top]
    for fld_ in ("init", "range", "c", "body"):
        if n.get(fld_) is not None:
            p_ = g.cfg.pos_cond(n[fld_])
            if p_ is not None:
                return p_
    return g.cfg.pos1(node)


def returns_skipping(g, ctx, update_node, is_exempt=None):
    """value-returning `return` statements that can be reached without passing the decision point of `update_node`
    (an early return that leaves out a contribution), except those for which is_exempt(return node) holds"""
    dp = decision_point(g, update_node)
    out = []
    if dp is None:
        return out
    for r, m in g.walk(g.body):
        if m["k"] == "return" and m.get("sub") is not None:
            pr = g.cfg.pos1(r)
            if pr is None or g.cfg.dominates(dp, pr):
                continue
            if is_exempt is not None and is_exempt(r):
                continue
            out.append(r)
    return out


def early_exits_before(g, node):
    """`return` statements (with or without a value) that can be reached without passing the decision point of `node`:
    paths on which the function leaves before the work at `node` was even considered"""
    dp = decision_point(g, node)
    out = []
    if dp is None:
        return out
    for r, m in g.walk(g.body):
        if m["k"] == "return":
            pr = g.cfg.pos1(r)
            if pr is not None and not g.cfg.dominates(dp, pr):
                out.append(r)
    return out


def check_sum_over_parts(rule, db, cfgname, qn, nparams, ptypes, part_call_args, extra_ok=None):
    """X::operator()(z) / of_tau: returns 0 iff Vanishing, otherwise += over ALL parts of part(args)."""
    g = db.fn(qn, ptypes=ptypes)
    ctx = Ctx(g, db)
    at = guard_facts(g, ctx)
    cls = qn.rsplit("::", 1)[0]
    site = "%s(%s)" % (qn, ",".join(p["tw"] for p in g.params))
    probs = []
    from pv.loops import is_element, sum_over
    parts_ = fld(cls + "::parts")
    so = sum_over(g, ctx, parts_)
    if so["status"] == "unknown":
        raise AnalysisBroken("%s: the sum over the parts is written in a form that is not analysed (%s)" % (qn, so["why"]))
    if so["status"] == "partial":
        probs.append("not every part contributes: %s" % so["why"])
    else:
        rk = ctx.key(so["term"])
        want_args = tuple(("param", p["d"], p["n"]) for p in g.params)
        okcall = False
        # part(args)  via operator()  /  part.of_tau(args)  on the visited element (through pointers / references)
        if rk[0] == "op" and rk[1] == "()" and is_element(rk[2], so["loop"], parts_) and tuple(rk[3:]) == want_args:
            okcall = True
        if rk[0] == "mcall" and is_element(rk[2], so["loop"], parts_) and tuple(rk[3:]) == want_args and rk[1].endswith("::" + part_call_args):
            okcall = True
        if not okcall:
            probs.append("the contribution added per part is %s, expected the part evaluated at the same argument(s)" % g.s(so["term"])[:80])
        if so["filtered"]:
            probs.append("some parts are skipped (an `if` / `continue` bypasses the accumulation)")
        if not so["zero"]:
            probs.append("the accumulator does not start at 0")
        elif not so["returned"]:
            probs.append("the accumulated value is not what is returned")
    # the argument the parts see is the argument of the call: a parameter that is re-assigned before it is passed on is
    # compared with its original value at the ends and in the middle of [0, beta] (imaginary time); a difference there is a
    # counterexample, agreement at the three points proves nothing and leaves the instance undecided
    for p_ in g.params:
        if ctx.mut.get(p_["d"]):
            from pv.symenv import env_at, value_key
            F = Formula()
            pk_ = ("param", p_["d"], p_["n"])
            t_ = F.name_atom(pk_, p_["n"])
            b_ = F.name_atom(fld("Pomerol::Thermal::beta"), "beta")
            verdict = None
            if so["status"] == "ok" and "double" in (p_.get("t") or ""):
                envs = env_at(g, ctx)
                args_ = [a for a in (g.nodes[so["term"]].get("args") or [])]
                for a in args_:
                    if ctx.key(a, inline=False) == pk_ or key_contains(ctx.key(a, inline=False), lambda y: y == pk_):
                        try:
                            e_ = F.conv(value_key(g, ctx, envs, a, so["acc"]))
                        except AnalysisBroken:
                            continue
                        bp = sp.Symbol("beta_", positive=True)
                        for pt, nm in ((sp.Integer(0), "0"), (bp / 2, "beta/2"), (bp, "beta")):
                            v = sp.simplify(e_.subs({b_: bp}).subs({t_: pt}))
                            if v.free_symbols <= {bp} and sp.simplify(v - pt) != 0:
                                verdict = "the parts are evaluated at %s = %s when the function is called with %s = %s (the argument is re-assigned to %s before it is passed on): the value at the end of the interval [0, beta] is that of another point" % (
                                    p_["n"], v.subs({bp: sp.Symbol("beta")}), p_["n"], nm, e_)
                                break
            if verdict:
                probs.append(verdict)
            else:
                raise AnalysisBroken("%s: the argument %s is modified before it is passed to the parts (transformation not analysed)" % (qn, p_["n"]))
    # vanishing: return 0 exactly under Vanishing
    van = fld(cls + "::Vanishing")
    zero_keys = (("lit", 0), ("ctor", "std::complex", ("lit", 0), ("lit", 0)), ("ctor", "std::complex", ("lit", 0)))
    from pv.symenv import env_at as _env_at, value_key as _value_key
    _envs = _env_at(g, ctx)

    def returns_zero(r_):
        try:
            return _value_key(g, ctx, _envs, g.nodes[r_]["sub"], r_) in zero_keys
        except AnalysisBroken:
            return False
    if so["status"] == "ok":
        # no value is returned before the sum was taken, except the 0 of a vanishing function (decided just below)
        for r in returns_skipping(g, ctx, so["acc"], returns_zero):
            probs.append("the value returned at line %s does not include the sum over the parts (early return)" % g.loc(r).rsplit(":", 1)[-1])
    for r, m in g.walk(g.body):
        if m["k"] == "return" and m.get("sub") is not None and returns_zero(r) and not (so["status"] == "ok" and g.cfg.dominates(decision_point(g, so["acc"]), g.cfg.pos1(r))):
            fa = at.get(g.cfg.pos1(r), frozenset())
            no_parts = any((x[0] == "true" and x[1][0] == "mcall" and x[1][1].split("::")[-1] == "empty" and x[1][2] == parts_) or
                           (x[0] == "==" and ("lit", 0) in x[1:] and any(isinstance(y, tuple) and y[0] == "mcall" and y[1].split("::")[-1] == "size" and y[2] == parts_ for y in x[1:])) for x in fa)
            if ("true", van) not in fa and not no_parts:
                probs.append("returns 0 on a path where the function is not known to vanish")
    if probs:
        rule.bad(site, g.loc(), "; ".join(probs), cfgname)
    else:
        rule.ok(site, g.loc(), "0 iff Vanishing; otherwise sum over all parts of part(%s)" % ",".join(p["n"] for p in g.params), cfgname)
    return g


def check_termlist(rule, db, cfgname, termcls):
    """TermList<T>::add_term: merge-or-insert discipline."""
    cands = [x for x in db.fns.values() if x.qn == "Pomerol::TermList<%s>::add_term" % termcls]
    if len(cands) != 1:
        raise AnalysisBroken("TermList<%s>::add_term: %d definitions" % (termcls, len(cands)))
    f = cands[0]
    ctx = Ctx(f, db)
    at = guard_facts(f, ctx)
    data = fld("Pomerol::TermList::data")
    term = ("param", f.params[0]["d"], f.params[0]["n"])
    site = "Pomerol::TermList<%s>::add_term" % termcls
    findk = ("mcall", "std::set::find", data, term)
    endk = ("mcall", "std::set::end", data)
    inserts = [j for j, n in f.walk(f.body) if n["k"] == "call" and strip_targs(n.get("cname") or "") == "std::set::insert" and ctx.key(n["obj"]) == data]
    erases = [j for j, n in f.walk(f.body) if n["k"] == "call" and strip_targs(n.get("cname") or "") == "std::set::erase" and ctx.key(n["obj"]) == data]
    probs = []
    new_ins = [j for j in inserts if ctx.key(f.nodes[j]["args"][0], inline=False) == term]
    sum_ins = [j for j in inserts if j not in new_ins]
    eq = ("==",) + tuple(sorted([findk, endk], key=repr))
    ne = ("!=",) + tuple(sorted([findk, endk], key=repr))
    if len(new_ins) != 1 or not entails(at.get(f.cfg.pos1(new_ins[0]), frozenset()), eq):
        probs.append("a term without a similar one in the list is not inserted (exactly once, under find(term) == end)")
    if len(sum_ins) != 1 or len(erases) != 1:
        probs.append("the merged term is not re-inserted / the old entry is not erased exactly once")
    else:
        S, E = sum_ins[0], erases[0]
        fa = at.get(f.cfg.pos1(S), frozenset())
        sk = ctx.key(f.nodes[S]["args"][0], inline=False)
        if not entails(at.get(f.cfg.pos1(E), frozenset()), ne):
            probs.append("merge path is not under find(term) != end")
        # sum = *it; sum += term;
        if sk[0] != "var":
            probs.append("re-inserted value is not the local sum")
        else:
            dv = ctx.decls.get(sk[1], {})
            init_ok = dv.get("init") is not None and ctx.key(dv["init"]) in (("op", "*", findk), ("un", "*", findk))
            adds = [m for m in ctx.mut.get(sk[1], []) if f.nodes[m]["k"] == "call" and f.nodes[m].get("op") == "+=" and ctx.key(f.nodes[m]["args"][1], inline=False) == term]
            if not (init_ok and len(adds) == 1 and len(ctx.mut.get(sk[1], [])) == 1 and f.cfg.dominates(f.cfg.pos1(adds[0]), f.cfg.pos1(S))):
                probs.append("the re-inserted value is not (stored term) += (new term)")
        if not f.cfg.dominates(f.cfg.pos1(E), f.cfg.pos1(S)):
            probs.append("the old entry is not erased before the sum is inserted")
        # negligibility test guards the re-insertion, with divisor size()+1
        neg = [x for x in fa if x[0] == "false" and x[1][0] == "op" and x[1][1] == "()" and x[1][2] == fld("Pomerol::TermList::is_negligible")]
        if not neg:
            probs.append("the sum is re-inserted without the negligibility test")
        else:
            nk = neg[0][1]
            if not (nk[3][:2] == sk[:2] and nk[4] == ("op", "+", ("mcall", "std::set::size", data), ("lit", 1))):
                probs.append("negligibility is not tested on the sum with divisor size()+1")
    if probs:
        rule.bad(site, f.loc(), "; ".join(probs), cfgname)
    else:
        rule.ok(site, f.loc(), "new pole: insert; like pole: erase old, insert old+new unless negligible(sum, size+1)", cfgname)


def strip_cast(k):
    while isinstance(k, tuple) and k[0] == "cast":
        k = k[2]
    return k


def strip_conv(k):
    k = strip_cast(k)
    if k[0] == "ctor" and k[1] == "Pomerol::BlockNumber" and len(k) == 3:
        return strip_conv(k[2])
    return k


def un_ptr(k):
    return strip_cast(k)


def check_prepare(rule, walkrule, db, cfgname, OWNER, PARTCLS, LEFT, RIGHT):
    """stripe binding + block-level walk of X::prepare for a two-operator function <L|left|R><R|right|L>.
    Returns the part constructor (for tolerance checks)."""
    g = db.fn(OWNER + "::prepare", nparams=0)
    gctx = Ctx(g, db)
    gat = guard_facts(g, gctx)
    news = [j for j, n in g.walk(g.body) if n["k"] == "new" and n["at"] == PARTCLS]
    if len(news) != 1:
        raise AnalysisBroken(OWNER.split("::")[-1] + "::prepare: expected one new part")
    N = news[0]
    fa = gat.get(g.cfg.pos1(N), frozenset())
    rw = rw_facts(fa)
    nk = gctx.key(N)
    args = [rw(strip_cast(a)) for a in nk[2][2:]]
    Cm, CXm = fld(OWNER + "::" + LEFT), fld(OWNER + "::" + RIGHT)
    # iterators over the bimap views
    its = {}
    found_by = None
    for d, v in gctx.decls.items():
        if v.get("init") is None:
            continue
        k = gctx.key(v["init"])
        maps = lambda op_: (("field", "Pomerol::FieldOperator::LeftRightBlocks", op_), ("mcall", "Pomerol::FieldOperator::getBlockMapping", op_))
        if k[0] == "mcall" and k[1].endswith("::begin") and k[2][0] == "field" and k[2][1].endswith("::left") and k[2][2] in maps(Cm):
            its["C"] = ("var", d, v["n"])
        if k[0] == "mcall" and k[1].endswith("::begin") and k[2][0] == "field" and k[2][1].endswith("::right") and k[2][2] in maps(CXm):
            its["CX"] = ("var", d, v["n"])
        # look-up form: for every entry of c's left view the partner is searched in c^+'s right view by key
        if k[0] == "mcall" and k[1].endswith("::find") and len(k) == 4 and k[2][0] == "field" and k[2][1].endswith("::right") and k[2][2] in maps(CXm):
            its["CX"] = ("var", d, v["n"])
            found_by = (("var", d, v["n"]), k[3], k[2])
    site = OWNER + "::prepare:bimap-views"
    if set(its) != {"C", "CX"}:
        rule.bad(site, g.loc(), "the walk does not run over the LEFT view of c's block map and the RIGHT view of c^+'s block map (found %s)" % sorted(its), cfgname)
    else:
        rule.ok(site, g.loc(), "Citer over C.getBlockMapping().left, CXiter over CX.getBlockMapping().right", cfgname)
        Ci, CXi = its["C"], its["CX"]
        if found_by is not None:
            # an entry found by key has that key: under `it != view.end()` the first member of the entry equals the searched key
            itv, skey, view = found_by
            endk = ("mcall", None)
            itinit = gctx.key(gctx.decls[itv[1]]["init"]) if gctx.decls.get(itv[1], {}).get("init") is not None else None
            if any(x[0] == "!=" and (itv in x[1:] or (itinit is not None and itinit in x[1:])) and any(isinstance(y, tuple) and y[0] == "mcall" and y[1].split("::")[-1] in ("end", "cend") for y in x[1:]) for x in fa):
                firsts = [("field", q, ("op", "->", iv_)) for iv_ in ([itv] + ([itinit] if itinit is not None else []))
                          for q in ("boost::bimaps::relation::detail::mirror_storage::first", "boost::bimaps::relation::detail::normal_storage::first", "std::pair::first")]
                # (substituted, not added as an equality fact: the found entry's key CONTAINS the searched key as the argument of
                # find(), and a congruence closure over a term and its own sub-term does not terminate in a normal form)
                skey_ = strip_conv(skey)
                found_subst = lambda kk: key_subst(kk, lambda y: skey_ if y in firsts else None)
                rw0 = rw
                rw = lambda kk: rw0(found_subst(kk))
                args = [rw(strip_cast(a)) for a in nk[2][2:]]
            else:
                rule.bad(OWNER + "::prepare:found-entry", g.loc(N), "the entry looked up in c^+'s block map is used without the test that it was found", cfgname)

        def pf(it, which):
            return [("field", "std::pair::" + which, ("op", "->", it))] + [("field", q, ("op", "->", it)) for q in ()]

        def memb(it, which):
            # bimap view iterators expose ->first / ->second
            out = []
            for fa_ in fa:
                pass
            return None
        # identify the four block variables by the member they read
        def blk(it, which):
            cands = set()
            for d, v in gctx.decls.items():
                if v.get("init") is None:
                    continue
                k = gctx.key(v["init"], inline=False)
                k = strip_conv(k)
                if k[0] == "field" and k[1].endswith("::" + which) and k[2] in (("op", "->", it), ("op", "*", it)):
                    cands.add(("var", d, v["n"]))
            return cands
        # keys are inlined in `args`; build expected keys from the inlined initialisers
        def inl(it, which):
            for d, v in gctx.decls.items():
                if v.get("init") is None:
                    continue
                k0 = strip_conv(gctx.key(v["init"], inline=False))
                if k0[0] == "field" and k0[1].endswith("::" + which) and k0[2] in (("op", "->", it), ("op", "*", it)):
                    return rw(strip_cast(gctx.key(v["init"])))
            return None
        Lb = inl(Ci, "first")     # left block of c  = outer space
        Rb = inl(Ci, "second")    # right block of c = inner space
        CXr = inl(CXi, "first")   # right view: first = right block of c^+
        CXl = inl(CXi, "second")
        if found_by is not None:
            # (in the look-up form the members of the found entry need not be copied into locals)
            civ = gctx.key(gctx.decls[CXi[1]]["init"]) if gctx.decls.get(CXi[1], {}).get("init") is not None and gctx.single_assignment(CXi[1]) else CXi
            CXr = CXr or rw(("field", "boost::bimaps::relation::detail::mirror_storage::first", ("op", "->", civ)))
            CXl = CXl or rw(("field", "boost::bimaps::relation::detail::mirror_storage::second", ("op", "->", civ)))
        site = OWNER + "::prepare:stripe-test"
        if None in (Lb, Rb, CXr, CXl):
            raise AnalysisBroken(OWNER.split("::")[-1] + "::prepare: block variables are not read from ->first/->second of the two iterators")
        if Lb == CXr and Rb == CXl:
            rule.ok(site, g.loc(N), "part is created under left(c) == right(c^+) and right(c) == left(c^+)", cfgname)
        else:
            miss = []
            if Lb != CXr:
                miss.append("left block of c == right block of c^+")
            if Rb != CXl:
                miss.append("right block of c == left block of c^+")
            rule.bad(site, g.loc(N), "a part is created without the test %s: c and c^+ parts of different block pairs are combined" % " and ".join(miss), cfgname)
        want = [("mcall", "Pomerol::FieldOperator::getPartFromLeftIndex", Cm, Lb), ("mcall", "Pomerol::FieldOperator::getPartFromRightIndex", CXm, Lb),
                ("mcall", "Pomerol::Hamiltonian::getPart", fld(OWNER + "::H"), Rb), ("mcall", "Pomerol::Hamiltonian::getPart", fld(OWNER + "::H"), Lb),
                ("mcall", "Pomerol::DensityMatrix::getPart", fld(OWNER + "::DM"), Rb), ("mcall", "Pomerol::DensityMatrix::getPart", fld(OWNER + "::DM"), Lb)]
        names = ["C part (left index = outer block)", "CX part (right index = outer block)", "HpartInner = H(right block of c)", "HpartOuter = H(left block of c)",
                 "DMpartInner = DM(right block of c)", "DMpartOuter = DM(left block of c)"]
        site = OWNER + "::prepare:part-arguments"
        bad = [names[i] for i in range(6) if i >= len(args) or un_ptr(args[i]) != want[i]]
        if bad:
            rule.bad(site, g.loc(N), "the part is constructed with wrong block data for: %s" % "; ".join(bad), cfgname)
        else:
            rule.ok(site, g.loc(N), "(C[L], CX[..,L], H[R], H[L], DM[R], DM[L]) with L = left block of c (outer), R = right block (inner)", cfgname)
    # constructor maps parameters to the members of the same role
    ctor = [x for x in db.fns_named(PARTCLS + "::" + PARTCLS.split("::")[-1]) if x.kind == "ctor" and len(x.params) == 6]
    if len(ctor) != 1:
        raise AnalysisBroken("part constructor not found")
    c = ctor[0]
    cctx = Ctx(c, db)
    order = [LEFT, RIGHT, "HpartInner", "HpartOuter", "DMpartInner", "DMpartOuter"]
    site = PARTCLS + "::GreensFunctionPart:member-binding"
    bad = []
    for i, nm in enumerate(order):
        ini = [x for x in c.d.get("inits", []) if x.get("field") == nm]
        if len(ini) != 1 or cctx.key(ini[0]["e"])[:2] != ("param", c.params[i]["d"]):
            bad.append(nm)
    if bad:
        rule.bad(site, c.loc(), "constructor parameter %d.. is not stored in the member of the same role: %s" % (order.index(bad[0]) + 1, bad), cfgname)
    else:
        rule.ok(site, c.loc(), "parameters (C, CX, HpartInner, HpartOuter, DMpartInner, DMpartOuter) initialise the members of the same name", cfgname)

    if found_by is not None:
        # no merge walk: the loop must simply visit every entry of c's left view
        site = OWNER + "::prepare:walk"
        okw = False
        for L_ in enclosing_loops(g, N):
            shp_ = loop_shape(g, gctx, L_)
            if shp_.get("kind") in ("iter", "range") and shp_.get("bound") is not None and shp_["bound"][0] == "field" and shp_["bound"][1].endswith("::left") and not shp_.get("exits"):
                okw = True
        if okw:
            walkrule.ok(site, g.loc(N), "every entry of c's left view is visited; its partner is looked up by key in c^+'s right view", cfgname)
        else:
            raise AnalysisBroken(OWNER.split("::")[-1] + "::prepare: look-up form, but the loop over c's block map is not recognised")
        return c
    check_block_walk(walkrule, g, gctx, gat, cfgname, OWNER + "::prepare", N)
    return c


def check_block_walk(rule, g, gctx, gat, cfgname, name, N):
    """sorted merge join over two bimap views (block level), decided per path through one iteration:
       key(a) <  key(b): only a advances;  key(a) > key(b): only b advances;  equal keys: both advance.
       Written as  `if (ka <= kb) a++; if (ka >= kb) b++;`  or as a three-way split with `continue` - any form."""
    from pv import paths as P
    site = name + ":walk"
    incs = {}
    for j, n in g.walk(g.body):
        if (n["k"] == "call" and n["ck"] == "op" and n.get("op") == "++") or (n["k"] == "un" and n["op"] == "++"):
            d = g.nodes[n["args"][0] if n["k"] == "call" else n["sub"]]
            if d["k"] == "ref" and "iterator" in (d.get("t") or ""):
                incs[j] = (d["d"], d["n"])
    its = sorted({v for v in incs.values()})
    if len(its) != 2:
        raise AnalysisBroken("%s: expected increments of two iterators, found %s" % (name, [x[1] for x in its]))
    loops = [L for L in enclosing_loops(g, list(incs)[0]) if all(L in enclosing_loops(g, j) for j in incs)]
    if not loops:
        raise AnalysisBroken("%s: the two iterators are not advanced inside one loop" % name)
    L = loops[0]
    hdr, plist = P.loop_body_paths(g, L)
    if not plist:
        raise AnalysisBroken("%s: no path through the walk loop" % name)
    (da, na), (db_, nb) = its
    va, vb = ("var", da, na), ("var", db_, nb)

    def sortkey(v):
        # the key the view is ordered by: ->first of the iterator
        return [("field", q, ("op", "->", v)) for q in ("boost::bimaps::relation::detail::normal_storage::first", "boost::bimaps::relation::detail::mirror_storage::first", "std::pair::first")]

    def snap(k):
        def f_(x):
            if x[0] == "var" and x[1] in gctx.decls and gctx.decls[x[1]].get("init") is not None and not gctx.mut.get(x[1]) and x[1] not in (da, db_):
                return gctx.key(gctx.decls[x[1]]["init"])
            return None
        return key_subst(k, f_)
    problems = []
    nfeasible = 0
    for path in plist:
        fa = {(x[0], snap(x[1]), snap(x[2])) if x[0] in ("<", "<=", "==", "!=") else x for x in P.path_facts(g, gctx, path)}
        if not P.feasible(fa):
            continue
        nfeasible += 1
        ids = P.nodes_on_path(g, path[1:])
        adv = [incs[j][0] for j in ids if j in incs]
        rel = None
        for ka in sortkey(va):
            for kb in sortkey(vb):
                rel = rel or P.relation(fa, ka, kb)
        want = {"<": [da], ">": [db_], "==": sorted([da, db_])}.get(rel)
        nm = {da: na, db_: nb}
        if want is None:
            if adv:
                problems.append("on a path where the order of the two block keys is %s, %s advance(s)" % ("only known as " + rel if rel else "not tested", " and ".join(nm[d_] for d_ in adv)))
            else:
                problems.append("an iteration can finish without advancing either iterator (the walk stalls)")
            continue
        if len(adv) != len(set(adv)):
            nm2 = {da: na, db_: nb}
            problems.append("%s advances more than once in one iteration: an entry of its view is never compared (a block pair is skipped)" % " and ".join(sorted({nm2[x] for x in adv if adv.count(x) > 1})))
            continue
        if rel == "==" and adv and set(adv) <= {da, db_}:
            continue      # keys are unique in each bimap view: after a match advancing either iterator (or both) loses no pair
        if sorted(adv) != want:
            problems.append("when key(%s) %s key(%s) the walk advances %s instead of %s: %s" % (
                na, rel, nb, " and ".join(nm[x] for x in adv) or "nothing", " and ".join(nm[x] for x in want),
                "a block pair is skipped" if adv else "the walk stalls"))
    if nfeasible == 0:
        raise AnalysisBroken("%s: no feasible path through the walk loop" % name)
    if problems:
        rule.bad(site, g.loc(L), "; ".join(sorted(set(problems))[:2]), cfgname)
    else:
        rule.ok(site, g.loc(L), "merge join: on every feasible path the iterator with the smaller block key advances alone and at least one advances on equal keys (%d paths)" % nfeasible, cfgname)


ACCUMULATING_METHODS = ("add_term", "push_back", "push_front", "insert", "emplace", "emplace_back")


def _unreset_accumulators(db, f, depth=7):
    """Objects whose state would be accumulated twice if f ran again.  f and every method that f (transitively, through
    repository code) invokes ON ANOTHER ComputableObject (a part) is an *entry*; the members an entry grows -- itself or through
    methods it calls on `this` -- by add_term / push_back / insert / container += must be reset (clear() / assignment, outside
    loops) in the entry before the first statement that grows them.  Returns a list of texts, one per unreset member."""
    out = []
    seen = set()

    def derives(rec):
        todo, done = [rec], set()
        while todo:
            r_ = todo.pop()
            if r_ in done:
                continue
            done.add(r_)
            if r_ == "Pomerol::ComputableObject":
                return True
            todo.extend((db.records.get(r_) or {}).get("bases", []))
        return False

    def direct(g):
        gctx = Ctx(g, db)
        accs, resets, thiscalls, othercalls = [], [], [], []
        for j, n in g.walk(g.body):
            if n["k"] == "call" and n.get("ck") == "method" and n.get("obj") is not None:
                ok_ = gctx.key(n["obj"], inline=False)
                short = strip_targs(n.get("cname") or "").split("::")[-1]
                if ok_[0] == "field" and len(ok_) == 3 and ok_[2] == THIS and short in ACCUMULATING_METHODS:
                    accs.append((j, ok_[1]))
                    continue
                if ok_[0] == "field" and len(ok_) == 3 and ok_[2] == THIS and short in ("clear", "resize", "assign", "swap"):
                    resets.append((j, ok_[1]))
                    continue
            elif (n["k"] == "bin" and n["op"] in ("=", "+=")) or (n["k"] == "call" and n.get("ck") == "op" and n.get("op") in ("=", "+=") and len(n.get("args", [])) == 2):
                l_ = n["l"] if n["k"] == "bin" else n["args"][0]
                lk = gctx.key(l_, inline=False)
                if lk[0] == "field" and len(lk) == 3 and lk[2] == THIS:
                    if n["op"] == "=":
                        resets.append((j, lk[1]))
                    elif "std::" in (g.nodes[l_].get("t") or "") and "complex" not in (g.nodes[l_].get("t") or ""):
                        accs.append((j, lk[1]))
                    continue
            if n["k"] in ("call", "construct"):
                cf = db.callee_fn(n)
                if cf is None or cf.body is None or cf.body < 0 or cf.kind in ("ctor", "dtor") or not (cf.file or "").startswith(f.file.rsplit("/", 3)[0]):
                    continue
                onthis = n["k"] == "call" and n.get("ck") == "method" and n.get("obj") is not None and g.nodes[n["obj"]]["k"] == "this"
                (thiscalls if onthis else othercalls).append((j, cf))
        return accs, resets, thiscalls, othercalls

    def grown(g, stack=()):
        """{field: [node in g responsible]} through this-calls"""
        accs, resets, thiscalls, _ = direct(g)
        res = {}
        for j, fq in accs:
            res.setdefault(fq, []).append(j)
        for j, cf in thiscalls:
            if cf.mangled in stack:
                continue
            for fq in grown(cf, stack + (g.mangled,)):
                res.setdefault(fq, []).append(j)
        return res

    def visit(g, d, entry):
        key_ = (g.mangled, entry)
        if key_ in seen or g.body is None or g.body < 0 or d < 0:
            return
        seen.add(key_)
        accs, resets, thiscalls, othercalls = direct(g)
        if entry and g.rec and derives(g.rec):
            for fq, nodes_ in sorted(grown(g).items()):
                for j in nodes_:
                    pj = g.cfg.pos1(j)
                    good = any(fq2 == fq and g.cfg.pos1(r_) is not None and pj is not None and g.cfg.dominates(g.cfg.pos1(r_), pj) and not enclosing_loops(g, r_) for r_, fq2 in resets)
                    if not good:
                        t = "%s grows its member %s (line %s) without resetting it first" % (g.qn, fq.split("::")[-1], g.loc(j).rsplit(":", 1)[-1])
                        if t not in out:
                            out.append(t)
                        break
        for j, cf in thiscalls:
            visit(cf, d - 1, False)
        for j, cf in othercalls:
            visit(cf, d - 1, True)
    visit(f, depth, True)
    return out


def check_status_guards(rule, db, cfgname, owners):
    """prepare()/compute() of a ComputableObject: `if (Status >= X) return;` at the top and `Status = Y;` at the end must
    name the same level, otherwise a second call either repeats the function's effects (accumulating results twice)
    or the function never runs."""
    ST = ("field", "Pomerol::ComputableObject::Status", THIS)
    # a copy carries the Status of its source: a user-written copy constructor that copies the computed state (parts, results)
    # but default-initialises the ComputableObject base leaves Status = Constructed on an object that already holds its parts,
    # so the next prepare()/compute() on the copy runs again and every result is doubled
    for c in sorted([x for x in db.fns.values() if x.rec in owners and x.kind == "ctor" and len(x.params) == 1 and x.body is not None and x.body >= 0 and
                     x.rec in (x.params[0].get("t") or "") and "&" in (x.params[0].get("t") or "") and "&&" not in (x.params[0].get("t") or "")], key=lambda y: (y.file, y.line)):
        cctx = Ctx(c, db)
        src = ("param", c.params[0]["d"], c.params[0]["n"])
        inits = c.d.get("inits", [])
        if not any(i.get("written") for i in inits) and not [1 for _ in c.walk(c.body) if _[1]["k"] not in ("block", "null")]:
            continue        # compiler-style member-wise copy
        base = [i for i in inits if i.get("base") == "Pomerol::ComputableObject"]
        site = "%s:copy-keeps-status" % c.qn
        # "state that Status describes" = the fields prepare()/compute() of the class write (parts, Vanishing, result ...)
        from pv.effects import Effects
        eff = Effects(db)
        computed = set()
        for pc in [x for x in db.fns.values() if x.rec == c.rec and x.body is not None and x.body >= 0 and strip_targs(x.name).split("::")[-1] in ("prepare", "compute")]:
            computed |= {w for w in eff.this_writes(pc) if not w.startswith("deref:") and not w.endswith("::Status")}
        is_computed_field = lambda y: y[0] == "field" and len(y) == 3 and y[1] in computed and y[2][:2] == src[:2]
        copies_state = any(i.get("field") and i.get("e") is not None and key_contains(cctx.key(i["e"]), is_computed_field) for i in inits) or \
            any(key_contains(cctx.key(j), is_computed_field) for j, n in c.walk(c.body) if n["k"] in ("call", "bin", "for", "forrange", "decl") or n.get("init") is not None)
        if not copies_state:
            for j, n in c.walk(c.body):
                try:
                    if key_contains(cctx.key(j), is_computed_field):
                        copies_state = True
                        break
                except Exception:
                    continue
        st_assigned = any(n["k"] == "bin" and n["op"] == "=" and cctx.key(n["l"], inline=False) == ST and cctx.key(n["r"]) == ("field", "Pomerol::ComputableObject::Status", src) for j, n in c.walk(c.body))
        if not base and not st_assigned:
            continue        # the class does not derive from ComputableObject directly (handled where its base is copied)
        bk = cctx.key(base[0]["e"]) if base and base[0].get("e") is not None else None
        if st_assigned or (bk is not None and (bk == src or key_contains(bk, lambda y: y[:2] == src[:2]))):
            rule.ok(site, c.loc(), "the ComputableObject base (Status) is copied from the source together with the state it describes", cfgname)
        elif copies_state:
            rule.bad(site, c.loc(), "the copy constructor copies the object's state from %s but default-initialises its ComputableObject base: the copy holds the prepared / computed data with Status = Constructed, "
                     "so prepare()/compute() on the copy do their work a second time (parts appended twice, every value doubled)" % src[2], cfgname)
    for f in sorted([x for x in db.fns.values() if x.rec in owners and x.body is not None and x.body >= 0 and
                     strip_targs(x.name).split("::")[-1] in ("prepare", "compute")], key=lambda y: (y.file, y.line, len(y.params))):
        ctx = Ctx(f, db)
        guards, sets = [], []
        weakened = []
        body = f.nodes[f.body]
        for s_ in body.get("body", []) if body["k"] == "block" else []:
            n = f.nodes[s_]
            if n["k"] == "if" and n.get("else") is None and any(m["k"] == "return" for _, m in f.walk(n["then"])) and not any(m["k"] in ("call",) and m.get("ck") == "method" for _, m in f.walk(n["then"])):
                allf = ctx.cmp_fact(n["c"], True)
                if len(allf) > 1 and any(ST in fct[1:] for fct in allf if fct[0] in ("<", "<=", "==")):
                    weakened.append((s_, [fct for fct in allf if not (fct[0] in ("<", "<=", "==") and ST in fct[1:])]))
                for fct in allf:
                    if fct[0] in ("<", "<=", "==") and ST in fct[1:] and any(x[0] == "enum" for x in fct[1:]):
                        en = [x for x in fct[1:] if x[0] == "enum"][0]
                        # Status >= X  is normalised to  X <= Status
                        if fct[0] == "<=" and fct[2] == ST:
                            guards.append((s_, en, ">="))
                        elif fct[0] == "<" and fct[2] == ST:
                            guards.append((s_, en, ">"))
                        else:
                            guards.append((s_, en, "other"))
        for j, n in f.walk(f.body):
            if n["k"] == "bin" and n["op"] == "=" and ctx.key(n["l"], inline=False) == ST and not enclosing_loops(f, j):
                rk = ctx.key(n["r"])
                if rk[0] == "enum":
                    sets.append((j, rk))
        if not guards or not sets:
            continue
        if weakened:
            # the early return fires only under a further condition: the function can run again on a computed object, so
            # everything it (or a part it drives) accumulates must be reset first
            acc_probs = _unreset_accumulators(db, f)
            wsite = "%s/%d:rerun-resets-accumulators" % (f.qn, len(f.params))
            extra_ = "; ".join(sorted(str(x)[:60] for x in weakened[0][1]))
            if acc_probs:
                rule.bad(wsite, f.loc(weakened[0][0]), "the early return of a finished object is taken only if also {%s}; otherwise the function runs again, and %s: every repeated call adds the same contributions once more" % (
                    extra_, "; ".join(acc_probs[:2])), cfgname)
            else:
                rule.ok(wsite, f.loc(weakened[0][0]), "runs again when {%s} fails; everything it accumulates is cleared first" % extra_, cfgname)
        site = "%s/%d:idempotent" % (f.qn, len(f.params))
        g_, s_last = guards[0], sets[-1]
        if g_[2] == "other":
            rule.unknown(site, f.loc(g_[0]), "the early-return test of Status is not of the form Status >= level", cfgname)
        elif g_[2] == ">=" and g_[1] == s_last[1]:
            rule.ok(site, f.loc(g_[0]), "returns at once when Status >= %s, the level it sets at the end" % g_[1][1].split("::")[-1], cfgname)
        elif g_[1][2] > s_last[1][2] or (g_[2] == ">" and g_[1][2] >= s_last[1][2]):
            rule.bad(site, f.loc(g_[0]), "the early return needs Status %s %s but the function only raises Status to %s: the guard never fires after the function ran, so every further call repeats its effects "
                     "(results accumulated with += are added again)" % (g_[2], g_[1][1].split("::")[-1], s_last[1][1].split("::")[-1]), cfgname)
        else:
            rule.bad(site, f.loc(g_[0]), "the function returns early already at Status %s %s, below the level %s it is meant to establish: after the previous stage it never does its work" % (
                g_[2], g_[1][1].split("::")[-1], s_last[1][1].split("::")[-1]), cfgname)


def check_memo_flags(rule, db, cfgname, classes):
    """A member function that returns at once when a boolean member of its object is set ("already done") and sets that
    member when it has done its work caches the fact that the containers it walked were processed.  Every other member
    function that changes one of those containers must reset the flag, otherwise work added later is never done (e.g.
    prepareAll(A); computeAll(); prepareAll(B); computeAll() leaves the operators of B uncomputed).
    One instance per scanned class (no gate: trivially coherent) or per (gate, mutator)."""
    from pv.effects import Effects
    eff = Effects(db)
    for cls in classes:
        methods = [x for x in db.fns.values() if x.rec == cls and x.body is not None and x.body >= 0 and x.kind not in ("ctor", "dtor")]
        if not methods:
            continue
        gates = []
        for m in sorted(methods, key=lambda y: (y.file, y.line)):
            mctx = Ctx(m, db)
            body = m.nodes[m.body]
            for s_ in body.get("body", []) if body["k"] == "block" else []:
                n = m.nodes[s_]
                if n["k"] == "if" and n.get("else") is None and any(mm["k"] == "return" for _, mm in m.walk(n["then"])):
                    for fct in mctx.cmp_fact(n["c"], True):
                        if fct[0] == "true" and fct[1][0] == "field" and len(fct[1]) == 3 and fct[1][2] == THIS:
                            fq = fct[1][1]
                            sets = [j for j, nn in m.walk(m.body) if nn["k"] == "bin" and nn["op"] == "=" and mctx.key(nn["l"], inline=False) == fct[1] and mctx.key(nn["r"]) == ("lit", 1)]
                            if sets:
                                gates.append((m, mctx, fq, s_))
        if not gates:
            rule.ok("%s:no-stale-done-flag" % cls, sorted(methods, key=lambda y: (y.file, y.line))[0].loc(), "no member function is gated by a boolean `already done` member", cfgname)
            continue
        for m, mctx, fq, s_ in gates:
            # containers of the object that the gated function walks
            walked = set()
            for j, n in m.walk(m.body):
                if n["k"] in ("for", "while", "forrange"):
                    shp = loop_shape(m, mctx, j)
                    b_ = shp.get("bound")
                    if b_ is not None:
                        for y in [b_] + [x for x in (b_[2:] if isinstance(b_, tuple) else [])]:
                            if isinstance(y, tuple) and y[0] == "field" and len(y) == 3 and y[2] == THIS:
                                walked.add(y[1])
            site0 = "%s:done-flag:%s" % (m.qn, fq.split("::")[-1])
            if not walked:
                rule.unknown(site0, m.loc(s_), "the function is gated by the member %s, but what it processes was not identified" % fq.split("::")[-1], cfgname)
                continue
            stale = []
            for o in methods:
                if o.mangled == m.mangled or o.d.get("const"):
                    continue
                w = eff.this_writes(o)
                if (w & walked) and fq not in w:
                    stale.append((o, sorted(x.split("::")[-1] for x in (w & walked))))
            if stale:
                o, ws = stale[0]
                rule.bad(site0, m.loc(s_), "%s returns at once when %s is set and sets it after processing %s; %s changes %s without resetting the flag: what it adds is never processed by a later call" % (
                    m.qn.split("::")[-1], fq.split("::")[-1], ", ".join(sorted(x.split("::")[-1] for x in walked)), o.qn.split("::")[-1], ", ".join(ws)), cfgname)
            else:
                rule.ok(site0, m.loc(s_), "every member function that changes %s resets %s" % (", ".join(sorted(x.split("::")[-1] for x in walked)), fq.split("::")[-1]), cfgname)


def check_copy_ctors_complete(rule, db, cfgname, classes, exempt=()):
    """A user-written copy constructor takes over EVERY data member of its source: each member is initialised / assigned from
    an expression that depends on the source (directly, or inside a loop that walks one of the source's containers).  A member
    that is left default-constructed or set to a constant makes the copy a different object (a copied lattice that reports
    no terms, a copied function that recomputes ...).  Members of reference type and those listed in `exempt` are skipped."""
    from pv.effects import Effects
    eff = Effects(db)
    for cls in classes:
        rec = db.records.get(cls)
        if rec is None:
            continue
        for c in sorted([x for x in db.fns.values() if x.rec == cls and x.kind == "ctor" and len(x.params) == 1 and x.body is not None and x.body >= 0 and
                         strip_targs(cls) in strip_targs(x.params[0].get("t") or "") and "&" in (x.params[0].get("t") or "") and "&&" not in (x.params[0].get("t") or "")], key=lambda y: (y.file, y.line)):
            cctx = Ctx(c, db)
            src = ("param", c.params[0]["d"], c.params[0]["n"])
            ms = lambda k_: key_contains(k_, lambda y: y[:2] == src[:2])
            inits = c.d.get("inits", [])
            if not any(i.get("written") for i in inits) and not [1 for _, n in c.walk(c.body) if n["k"] not in ("block", "null")]:
                continue
            covered, const_only = set(), set()
            partial_loops = []
            for i in inits:
                if i.get("field") and i.get("e") is not None and i.get("written"):
                    (covered if ms(cctx.key(i["e"])) else const_only).add(i["field"])
                if i.get("base") and i.get("e") is not None and ms(cctx.key(i["e"])):
                    covered.add("base:" + i["base"])
            for tgt, j in eff.direct(c):
                if tgt[0] != "this":
                    continue
                fname = tgt[1].split("::")[-1]
                dep = False
                try:
                    dep = ms(cctx.key(j))
                except Exception:
                    dep = False
                if not dep:
                    for L_ in enclosing_loops(c, j):
                        ln = c.nodes[L_]
                        for fld_ in ("init", "c", "range"):
                            if ln.get(fld_) is not None and any(ms(cctx.key(x)) for x, nn in c.walk(ln[fld_]) if nn["k"] in ("call", "member", "ref", "construct")):
                                dep = True
                        if dep and ln.get("c") is not None:
                            # a deep-copy loop must run over the whole container of the source: a loop that continues only WHILE its
                            # iterator EQUALS end() copies nothing
                            for fc_ in cctx.cmp_fact(ln["c"], True):
                                if fc_[0] == "==" and any(isinstance(y, tuple) and y[0] == "mcall" and y[1].split("::")[-1] in ("end", "cend") for y in fc_[1:]):
                                    dep = False
                                    partial_loops.append((fname, c.loc(L_)))
                (covered if dep else const_only).add(fname)
            site = "%s:copy-takes-every-member" % c.qn
            miss = []
            for f_ in rec.get("fields", []):
                if f_.get("static") or f_["n"] in exempt or "&" in (f_.get("t") or ""):
                    continue
                if f_["n"] not in covered:
                    miss.append(f_["n"] + (" (the copying loop runs only while its iterator equals end(): nothing is copied)" if any(pl[0] == f_["n"] for pl in partial_loops) else
                                           " (set to a constant)" if f_["n"] in const_only else " (not initialised from the source)"))
            delegates = any(n_["k"] == "call" and n_.get("ck") == "method" and n_.get("obj") is not None and c.nodes[n_["obj"]]["k"] == "this" and
                            any(ms(cctx.key(a_)) for a_ in n_.get("args", [])) for _, n_ in c.walk(c.body))
            if miss and delegates:
                rule.unknown(site, c.loc(), "the copy constructor hands its source to a helper member function (not followed); members not seen copied here: %s" % ", ".join(miss), cfgname)
            elif miss:
                rule.bad(site, c.loc(), "the copy constructor does not take over: %s -- a copy behaves differently from its source" % ", ".join(miss), cfgname)
            else:
                rule.ok(site, c.loc(), "every data member is initialised from the source", cfgname)


def ground_energy_verdict(db):
    """Hamiltonian::computeGroundEnergy: GroundEnergy = min over ALL blocks of the block's lowest eigenvalue.
    Returns (verdict, text) with verdict in ok / bad / unknown.  Recognised forms: a vector filled per block (index loop or
    std::transform over parts) followed by minCoeff(); a running minimum std::min(x, part_min) over all blocks whose start value
    is not a constant.  Positive evidence of a defect: maxCoeff, a partial loop, a running minimum started from a literal."""
    HH, HP, SC = "Pomerol::Hamiltonian", "Pomerol::HamiltonianPart", "Pomerol::StatesClassification::"
    from pv.loops import covers
    ge = db.fn(HH + "::computeGroundEnergy", nparams=0)
    ctx = Ctx(ge, db)
    GE = fld(HH + "::GroundEnergy")
    parts = fld(HH + "::parts")
    bounds = [("mcall", "std::vector::size", parts), ("ctor", "Pomerol::BlockNumber", ("mcall", "std::vector::size", parts)), ("mcall", SC + "NumberOfBlocks", fld(HH + "::S"))]

    def full_loop(node):
        for Lp in enclosing_loops(ge, node):
            shp = loop_shape(ge, ctx, Lp)
            if shp["kind"] == "index" and shp["start"] == ("lit", 0) and shp["rel"] == "<" and shp["bound"] in bounds and not shp.get("exits") and not shp.get("continues"):
                return shp, True
            if shp["kind"] in ("iter", "range") and covers(shp, parts):
                return shp, True
            if shp["kind"] in ("index", "iter", "range"):
                return shp, False
        return None, None

    def is_part_min(k, shp):
        return k[0] == "mcall" and k[1] == HP + "::getMinimumEigenvalue" and (shp is None or shp.get("var") is None or key_contains(k, lambda y: y[:2] == shp["var"][:2]))
    asg = [j for j, n in ge.walk(ge.body) if n["k"] == "bin" and n["op"] == "=" and ctx.key(n["l"]) == GE]
    if len(asg) != 1:
        return "unknown", "GroundEnergy is assigned %d times in computeGroundEnergy" % len(asg)
    A = asg[0]
    rk = ctx.key(ge.nodes[A]["r"], inline=False)
    if rk[0] == "mcall" and rk[1].endswith("::maxCoeff"):
        return "bad", "the ground energy is the MAXIMUM of the blocks' lowest eigenvalues"

    def running_min(target_key, node):
        """node: X = std::min(X, part_min) (either argument order) inside a loop over all parts"""
        r = ctx.key(ge.nodes[node]["r"], inline=False)
        if not (r[0] == "call" and r[1].split("<")[0] in ("std::min", "min") and len(r) == 4):
            return None
        args = [r[2], r[3]]
        if target_key not in args:
            return None
        other = [a for a in args if a != target_key]
        shp, full = full_loop(node)
        if shp is None:
            return None
        if not other or not is_part_min(ctx.key(ge.nodes[node]["r"])[2 if args[0] != target_key else 3], shp):
            return ("unknown", "the running minimum does not take the lowest eigenvalue of the visited block")
        if not full:
            return ("bad", "not every block contributes its lowest eigenvalue (loop over the parts is not full-range)")
        return ("running", None)
    if rk[0] == "mcall" and rk[1].endswith("::minCoeff") and rk[2][0] == "var":
        vec = rk[2]
        for m in ctx.mut.get(vec[1], []):
            mn = ge.nodes[m]
            if mn["k"] == "bin" and mn["op"] == "=":
                shp, full = full_loop(m)
                rr = ctx.key(mn["r"])
                if shp is None:
                    continue
                if not full:
                    return "bad", "not every block contributes its lowest eigenvalue (loop over the parts is not full-range)"
                if is_part_min(rr, shp) and key_contains(ctx.key(mn["l"], inline=False), lambda y: y[:2] == shp["var"][:2]):
                    return "ok", "min over all blocks of the block's lowest eigenvalue (vector + minCoeff)"
                return "bad", "the per-block entry is %s, not the lowest eigenvalue of that block" % str(rr)[:60]
        # filled by an algorithm: std::transform(parts.begin(), parts.end(), vec.data(), functor returning part->getMinimumEigenvalue())
        for j in ge.calls():
            n = ge.nodes[j]
            if strip_targs(n.get("cname") or "") == "std::transform" and len(n["args"]) == 4:
                k = ctx.key(j, inline=False)
                b_, e_, out_, fn_ = k[2], k[3], k[4], k[5]
                if b_[0] == "mcall" and b_[1].split("::")[-1] in ("begin", "cbegin") and b_[2] == parts and e_[0] == "mcall" and e_[1].split("::")[-1] in ("end", "cend") and e_[2] == parts and \
                        key_contains(out_, lambda y: y[:2] == vec[:2]):
                    cls_ = fn_[1] if fn_[0] == "ctor" else None
                    ops = [x for x in db.fns.values() if cls_ and strip_targs(x.name).replace("(anonymous namespace)::", "") == cls_.replace("(anonymous namespace)::", "") + "::operator()" and len(x.params) == 1 and x.body is not None and x.body >= 0]
                    if len(ops) == 1:
                        from pv.paths import return_cases
                        rc = return_cases(ops[0], Ctx(ops[0], db))
                        if rc and len(rc) == 1 and rc[0]["key"][0] == "mcall" and rc[0]["key"][1] == HP + "::getMinimumEigenvalue" and key_contains(rc[0]["key"], lambda y: y[0] == "param"):
                            return "ok", "min over all blocks of the block's lowest eigenvalue (std::transform over parts + minCoeff)"
        return "unknown", "the vector whose minimum is taken is filled in a form that is not analysed"
    # running minimum, directly on GroundEnergy or on a local that is assigned to it afterwards
    targets = []
    if rk[0] == "var":
        targets.append(rk)
    rm = running_min(GE, A)
    cand = None
    if rm is not None:
        cand = (GE, rm, A)
    for t in targets:
        for m in ctx.mut.get(t[1], []):
            mn = ge.nodes[m]
            if mn["k"] == "bin" and mn["op"] == "=":
                r2 = running_min(t, m)
                if r2 is not None:
                    cand = (t, r2, m)
    if cand is None:
        return "unknown", "GroundEnergy is not obtained by a recognised minimum over the blocks"
    tgt, (st, txt), node = cand
    if st != "running":
        return st, txt
    # start value of the running minimum
    start = None
    if tgt == GE:
        for c in [x for x in db.fns_named(HH + "::Hamiltonian") if x.kind == "ctor"]:
            for i in c.d.get("inits", []):
                if i.get("field") == "GroundEnergy" and i.get("written"):
                    start = Ctx(c, db).key(i["e"])
        pre = [j for j in asg if j != node]
    else:
        dv = ctx.decls.get(tgt[1], {})
        if dv.get("init") is not None:
            start = ctx.key(dv["init"])
    if start is None:
        return "unknown", "the start value of the running minimum was not found"
    s0 = start
    while isinstance(s0, tuple) and s0[0] in ("cast", "ctor") and len(s0) == 3:
        s0 = s0[2]
    if s0[0] == "lit" or (s0[0] == "un" and s0[1] == "-" and s0[2][0] == "lit"):
        return "bad", "the minimum over the blocks is taken together with the constant start value %s: whenever the whole spectrum lies above it the ground energy is that constant, and exp(-beta(E - E0)) is no longer bounded by 1" % (s0[1] if s0[0] == "lit" else "-%s" % s0[2][1])
    if is_part_min(s0, None) or key_contains(s0, lambda y: y[0] == "call" and "numeric_limits" in y[1]):
        return "ok", "running minimum over all blocks, started from %s" % ("a block's own minimum" if is_part_min(s0, None) else "the largest representable value")
    return "unknown", "the start value of the running minimum (%s) is not analysed" % str(s0)[:50]
