"""C12 — Wick's theorem for quadratic Hamiltonians (structural clauses only).

The statement is an identity between computed values for a class of inputs.  The two anchored mechanisms are formula
sites: the disconnected part that Vertex4::value adds/subtracts at coinciding frequencies, and the resonant /
non-resonant bookkeeping of the two-particle multi-term (quadratic models have the most degenerate spectra, so every
resonant branch and every merge of like terms is exercised).  This check re-evaluates, under C12's own rule ids, the
formula rules of C15, C02, C01 and C11 at those sites.  Each is a necessary condition: a wrong sign or frequency
argument in the disconnected part, a wrong resonant coefficient, a wrong delta-branch decision or a wrong merge of like
terms leaves a non-zero vertex for free fermions, while the interacting models of the test suite reach these branches
only partially.  Not decided: the identity itself (G = (z-h)^{-1}, vanishing vertex)."""
from pv.check import run_check, ViewCheck
from checks import c01, c02, c11, c13, c15


def body(chk, db, cfgname):
    r1 = chk.rule("C12-R1", "vertex = chi + [n1=n3] beta G13(n1) G24(n2) - [n2=n3] beta G14(n1) G23(n2), with the stored values filled from the same formula", "F6 formula (rule C15-R4)", 3)
    r2 = chk.rule("C12-R2", "two-particle multi-term: poles and the six coefficients, term evaluation incl. the resonant (delta) branches, merging of like terms, table path == on-demand path", "F6 formula + tables (rules C02-R1, R2, R4, R5, R6)", 36)
    r3 = chk.rule("C12-R3", "single-particle side: G is the plain sum over parts and terms of R/(z-P) with the Lehmann residue and pole", "F5+F6 formula (rules C01-R1, C11-R2)", 10)
    r4 = chk.rule("C12-R4", "every index quadruple: the container hands out the stored element with the frequency permutation and sign of its index order", "F7 tables + F6 (rules C13-R1, C13-R2)", 26)
    c15.body(ViewCheck(chk, {"C15-R4": r1}), db, cfgname)
    c13.body(ViewCheck(chk, {"C13-R1": r4, "C13-R2": r4}), db, cfgname)
    c02.body(ViewCheck(chk, {"C02-R1": r2, "C02-R2": r2, "C02-R4": r2, "C02-R5": r2, "C02-R6": r2, "C02-R7": r2}), db, cfgname)
    c01.body(ViewCheck(chk, {"C01-R1": r3}), db, cfgname)
    c11.body(ViewCheck(chk, {"C11-R2": r3}), db, cfgname)
    chk.undecided.append("G(z) = (z - h)^{-1} and the vanishing of the irreducible vertex for quadratic Hamiltonians (identity between computed values); numerical behaviour of the resonance decision for nearly degenerate levels")


if __name__ == "__main__":
    run_check("C12", "Wick's theorem for quadratic models: structural clauses at the anchored formula sites", body)
