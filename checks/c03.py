"""C03 — block-wise diagonalisation: structural part (DESIGN.md §3 C03).
The value-level statement (spectrum equality, orthonormality, H v = E v) is NOT decidable statically; the solver is Eigen's.
Decided: both branches of HamiltonianPart::compute define the eigen-system, the (Fock, eigen) orientation agrees between
producer and readers, the block matrix is filled from the symbolic Hamiltonian, ground energy and look-ups."""
from pv.check import run_check
from pv.entail import entails
from pv.expr import Ctx, guard_facts, key_contains
from pv.facts import AnalysisBroken, strip_targs
from pv.loops import covers, enclosing_loops, loop_shape, no_early_exit
from pv import roles
from checks.lehmann import fld, THIS
from checks.c07 import deconv

HP = "Pomerol::HamiltonianPart"
HH = "Pomerol::Hamiltonian"
SC = "Pomerol::StatesClassification::"


def body(chk, db, cfgname):
    Hm, Ev = fld(HP + "::H"), fld(HP + "::Eigenvalues")
    r1 = chk.rule("C03-R1", "both branches of HamiltonianPart::compute define eigenvalues and eigenvectors (1x1: value read before the overwrite; general: self-adjoint solver with eigenvectors)", "F1 ordering", 2)
    f = db.fn(HP + "::compute", nparams=0)
    with r1.guard(HP + "::compute", f.loc(), cfgname):
        ctx = Ctx(f, db)
        at = guard_facts(f, ctx)
        h00 = ("op", "()", Hm, ("lit", 0), ("lit", 0))
        reads = []     # Eigenvalues << H(0,0)  /  Eigenvalues(0) = H(0,0)
        writes1 = []   # H(0,0) = 1
        solver = None
        evecs = evals = None
        readpos = {}

        def add_read(j, rhs):
            """Eigenvalues(0) = <value>: the value may have been read from H(0,0) earlier into a local"""
            vk = ctx.key(rhs)
            if key_contains(vk, lambda y: y == h00):
                reads.append((j, vk))
                rn = f.nodes[rhs]
                while rn["k"] == "cast":
                    rn = f.nodes[rn["sub"]]
                readpos[j] = ctx.decls[rn["d"]]["declnode"] if rn["k"] == "ref" and rn.get("dk") == "local" and "declnode" in ctx.decls.get(rn["d"], {}) else j
        for j, n in f.walk(f.body):
            if n["k"] == "call" and n.get("ck") == "op" and n.get("op") in ("<<", "="):
                k = ctx.key(j, inline=False)
                if k[1] == "<<" and k[2] == Ev:
                    add_read(j, n["args"][1])
                if k[1] == "=" and k[2] == Hm and k[3][0] == "mcall" and k[3][1].endswith("::eigenvectors"):
                    evecs = (j, k[3][2])
                if k[1] == "=" and k[2] == Ev and k[3][0] == "mcall" and k[3][1].endswith("::eigenvalues"):
                    evals = (j, k[3][2])
                if k[1] == "=" and k[2][:3] == ("op", "()", Ev):
                    add_read(j, n["args"][1])
                if k[1] == "=" and k[2] == h00:
                    writes1.append((j, k[3]))
            if n["k"] == "bin" and n["op"] == "=":
                k = ctx.key(j, inline=False)
                if k[2] == h00:
                    writes1.append((j, k[3]))
                if k[2][:3] == ("op", "()", Ev):
                    add_read(j, n["r"])
            if n["k"] == "decl":
                for v in n["vars"]:
                    if v.get("init") is not None and "SelfAdjointEigenSolver" in v.get("t", ""):
                        solver = (j, v, ctx.key(v["init"], inline=False))
        # 1x1 branch
        site = HP + "::compute:1x1"
        one = None
        for j, val in reads:
            fa = at.get(f.cfg.pos1(j), frozenset())
            if any(x[0] == "==" and ("lit", 1) in (x[1], x[2]) and key_contains(x, lambda y: y[0] == "mcall" and y[1].endswith("::rows") and y[2] == Hm) for x in fa):
                one = (j, val)
        if one is None:
            # no special case: the general branch handles size 1 as well
            if not reads and not writes1:
                r1.ok(site, f.loc(), "no special case for 1x1 blocks (handled by the solver)", cfgname)
            else:
                r1.bad(site, f.loc(), "the 1x1 special case does not take the eigenvalue from H(0,0) under H.rows() == 1", cfgname)
        else:
            j, val = one
            want = ("call", "std::real", h00) if cfgname == "complex" else h00
            ok_val = val in (want, h00, ("call", "std::real", h00), ("call", "real", h00))
            w = [x for x in writes1 if x[1] == ("lit", 1)]
            resized = any(n["k"] == "call" and n["ck"] == "method" and strip_targs(n.get("cname") or "").endswith("::resize") and ctx.key(n["obj"]) == Ev and ctx.key(n["args"][0]) == ("lit", 1)
                          and f.cfg.dominates(f.cfg.pos1(jj), f.cfg.pos1(j)) for jj, n in f.walk(f.body))
            if not ok_val:
                r1.bad(site, f.loc(j), "the eigenvalue of a 1x1 block is %s, expected (the real part of) H(0,0)" % (val,), cfgname)
            elif w and not f.cfg.dominates(f.cfg.pos1(readpos.get(j, j)), f.cfg.pos1(w[0][0])):
                r1.bad(site, f.loc(w[0][0]), "H(0,0) is overwritten with the eigenvector entry 1 BEFORE the eigenvalue is read from it: every 1x1 block reports eigenvalue 1", cfgname)
            elif not w:
                r1.bad(site, f.loc(j), "the eigenvector of a 1x1 block is not set to (1): H keeps the matrix element and is later used as the eigenvector matrix", cfgname)
            elif not resized:
                r1.bad(site, f.loc(j), "Eigenvalues is not resized to 1 before the eigenvalue is stored", cfgname)
            else:
                r1.ok(site, f.loc(j), "Eigenvalues(1) <- %sH(0,0), then H(0,0) = 1" % ("real " if cfgname == "complex" else ""), cfgname)
        site = HP + "::compute:general"
        probs = []
        if solver is None:
            probs.append("no Eigen::SelfAdjointEigenSolver is constructed")
        else:
            sk = solver[2]
            sv = ("var", solver[1]["d"], solver[1]["n"])
            if not (sk[0] == "ctor" and sk[2] == Hm):
                probs.append("the solver is not applied to the block matrix H")
            if not (len(sk) >= 4 and sk[3][0] == "enum" and sk[3][1] == "Eigen::ComputeEigenvectors"):
                probs.append("the solver is not asked for eigenvectors (ComputeEigenvectors)")
            if evecs is None or evecs[1][:2] != sv[:2]:
                probs.append("H is not replaced by Solver.eigenvectors()")
            if evals is None or evals[1][:2] != sv[:2]:
                probs.append("Eigenvalues is not Solver.eigenvalues()")
            if evecs and evals and not (f.cfg.dominates(f.cfg.pos1(solver[0]), f.cfg.pos1(evecs[0])) and f.cfg.dominates(f.cfg.pos1(solver[0]), f.cfg.pos1(evals[0]))):
                probs.append("results are read before the solver ran")
        if probs:
            r1.bad(site, f.loc(), "; ".join(probs), cfgname)
        else:
            r1.ok(site, f.loc(), "SelfAdjointEigenSolver(H, ComputeEigenvectors); H = eigenvectors(); Eigenvalues = eigenvalues()", cfgname)

    # ---- nothing else in compute() defines or reorders the eigen-system
    with r1.guard(HP + "::compute:no-other-definition", f.loc(), cfgname):
        site = HP + "::compute:no-other-definition"
        known = {x[0] for x in reads} | {x[0] for x in writes1} | ({evecs[0]} if evecs else set()) | ({evals[0]} if evals else set())
        reorder = None
        other = None
        for j, n in f.walk(f.body):
            if n["k"] == "call" and n.get("ck") == "func" and strip_targs(n.get("cname") or "") in ("std::sort", "std::stable_sort", "std::reverse", "std::swap", "std::partial_sort", "std::rotate", "std::nth_element", "std::swap_ranges"):
                touches_ev = any(key_contains(ctx.key(a), lambda y: y == Ev) for a in n["args"])
                touches_h = any(key_contains(ctx.key(a), lambda y: y == Hm) for a in n["args"])
                if touches_ev != touches_h:
                    reorder = (j, strip_targs(n.get("cname") or ""), "Eigenvalues" if touches_ev else "H")
            if j in known:
                continue
            if (n["k"] == "call" and n.get("ck") == "op" and n.get("op") in ("=", "<<", "+=", "-=", "*=")) or (n["k"] == "bin" and n["op"] in ("=", "+=", "-=", "*=")):
                lk = ctx.key(n["args"][0] if n["k"] == "call" else n["l"], inline=False)
                if lk in (Ev, Hm) or (lk[0] == "op" and lk[1] in ("()", "[]") and lk[2] in (Ev, Hm)):
                    other = other or (j, "assignment to %s" % ("Eigenvalues" if (lk == Ev or lk[2:3] == (Ev,)) else "H"))
            if n["k"] == "call" and n.get("ck") == "method" and n.get("obj") is not None and ctx.key(n["obj"]) in (Ev, Hm):
                short_ = strip_targs(n.get("cname") or "").split("::")[-1]
                if short_.startswith("set") or short_ in ("swap", "fill", "conservativeResize", "transposeInPlace", "adjointInPlace", "reverseInPlace"):
                    other = other or (j, "%s.%s()" % ("Eigenvalues" if ctx.key(n["obj"]) == Ev else "H", short_))
        if reorder is not None:
            r1.bad(site, f.loc(reorder[0]), "%s is reordered with %s but %s is not: eigenvalue k no longer belongs to eigenvector column k (H v = E v fails, look-ups by state label return another state's energy)" % (
                reorder[2], reorder[1], "H" if reorder[2] == "Eigenvalues" else "Eigenvalues"), cfgname)
        elif other is not None:
            r1.unknown(site, f.loc(other[0]), "the eigen-system is also defined by %s, in a branch this rule does not analyse" % other[1], cfgname)
        else:
            r1.ok(site, f.loc(), "Eigenvalues and H are written only by the 1x1 special case and from the solver's results", cfgname)

    r2 = chk.rule("C03-R2", "orientation agreement: H is (Fock position, eigenstate) after compute and every reader uses that order", "F5 index spaces", 4)
    getters = [(HP + "::getEigenState", ("mcall", "Eigen::DenseBase::col", Hm), "H.col(state)"),
               (HP + "::getMatrixElement", ("op", "()", Hm), "H(m,n)"),
               (HP + "::getEigenValue", ("op", "()", Ev), "Eigenvalues(state)")]
    for qn, want, descr in getters:
        g = db.fn(qn)
        with r2.guard(qn, g.loc(), cfgname):
            gctx = Ctx(g, db)
            rets = [j for j, n in g.walk(g.body) if n["k"] == "return" and n.get("sub") is not None]
            pk = tuple(("param", p["d"], p["n"]) for p in g.params)
            good = False
            for j in rets:
                k = gctx.key(g.nodes[j]["sub"])
                k = k[2] if k[0] in ("ctor", "cast") and len(k) == 3 else k
                if k[:len(want)] == want and tuple(k[len(want):]) == pk:
                    good = True
                if want[0] == "mcall" and k[0] == "mcall" and k[1].split("::")[-1] == "col" and k[2] == Hm and tuple(k[3:]) == pk:
                    good = True
            if good:
                r2.ok(qn, g.loc(), "returns %s" % descr, cfgname)
            else:
                bad_row = any(gctx.key(g.nodes[j]["sub"])[0] == "mcall" and gctx.key(g.nodes[j]["sub"])[1].split("::")[-1] == "row" for j in rets)
                r2.bad(qn, g.loc(), "does not return %s%s" % (descr, " (a ROW of the eigenvector matrix is returned: eigenvectors are its columns)" if bad_row else ""), cfgname)
    scope = [x for x in db.fns.values() if ("/src/" in x.file or "/include/" in x.file) and x.body is not None and x.body >= 0]
    nconf = 0
    for x in sorted(scope, key=lambda y: (y.file, y.line, y.mangled)):
        bad, nuse = roles.conflicts(x, db)
        if nuse == 0:
            continue
        nconf += 1
        site = "%s/%d:index-roles" % (x.qn, len(x.params))
        if bad:
            nm, lst = bad[0]
            r2.bad(site, x.loc(lst[0][2]), "variable '%s' is used as %s" % (nm, " and as ".join(sorted({"%s index (%s)" % (r, d) for r, d, _ in lst}))), cfgname)
        else:
            r2.ok(site, x.loc(), "%d typed index uses, each variable in one space" % nuse, cfgname)

    r3 = chk.rule("C03-R3", "the block matrix is <bra|H|ket> for every ket of the block and every image state", "F5+F1", 1)
    f = db.fn(HP + "::prepare", nparams=0)
    with r3.guard(HP + "::prepare", f.loc(), cfgname):
        ctx = Ctx(f, db)
        asg = [j for j, n in f.walk(f.body) if n["k"] == "bin" and n["op"] == "=" and ctx.key(n["l"], inline=False)[:3] == ("op", "()", Hm)]
        asg += [j for j, n in f.walk(f.body) if n["k"] == "call" and n.get("ck") == "op" and n.get("op") == "=" and ctx.key(n["args"][0], inline=False)[:3] == ("op", "()", Hm)]
        if len(asg) != 1:
            raise AnalysisBroken("HamiltonianPart::prepare: expected one element assignment H(l,r) = ...")
        A = asg[0]
        k = ctx.key(A)
        l, r, v = k[2][3], k[2][4], k[3]
        Ls = enclosing_loops(f, A)
        shapes = [loop_shape(f, ctx, x) for x in Ls]
        ketloop = [s for s in shapes if s["kind"] == "index" and s["start"] == ("lit", 0) and no_early_exit(s) and s["var"][:2] == r[:2]]
        imgloop = [s for s in shapes if s["kind"] in ("iter", "other") and s["var"] is not None and s["var"][:2] != r[:2]]
        probs = []
        S_, B_, F_ = fld(HP + "::S"), fld(HP + "::Block"), fld(HP + "::F")
        full_bounds = (("mcall", SC + "getBlockSize", S_, B_), ("mcall", HP + "::getSize", THIS), ("mcall", "std::vector::size", ("mcall", SC + "getFockStates", S_, B_)))
        if not ketloop:
            # positive evidence first: (a) row and column exchanged -- the ROW is a counter over the block and the COLUMN is the
            # position of an image state; (b) a counter loop on the column whose condition is `r + k < bound` (last kets skipped)
            rowloop = [s_ for s_ in shapes if s_["kind"] == "index" and s_["start"] == ("lit", 0) and s_["var"][:2] == l[:2]]
            if rowloop and r[0] == "mcall" and r[1] == SC + "getInnerState":
                r3.bad(HP + "::prepare", f.loc(A), "row and column are exchanged: the matrix element <bra|H|ket> is stored at (position of ket, position of bra) -- the transposed (and for complex elements non-conjugated) block", cfgname)
                raise AnalysisBroken("HamiltonianPart::prepare: (see violation)")
            for Lx in Ls:
                nx = f.nodes[Lx]
                if nx["k"] == "for" and nx.get("c") is not None:
                    for fc_ in ctx.cmp_fact(nx["c"], True):
                        if fc_[0] in ("<", "<=") and fc_[1][0] == "op" and fc_[1][1] == "+" and len(fc_[1]) == 4 and fc_[1][2][:2] == r[:2] and fc_[1][3][0] == "lit" and fc_[1][3][1] > 0:
                            r3.bad(HP + "::prepare", f.loc(Lx), "the column index stops %s before the end of the block: the last ket(s) of the block get no column" % fc_[1][3][1], cfgname)
                            raise AnalysisBroken("HamiltonianPart::prepare: (see violation)")
            raise AnalysisBroken("HamiltonianPart::prepare: the loop over the kets (column index from 0) was not recognised")
        kb_ = deconv(ketloop[0]["bound"])
        if kb_ not in full_bounds:
            if any(key_contains(kb_, lambda y, fb=fb: y == fb) for fb in full_bounds) and kb_[0] == "op" and kb_[1] in ("-", "/"):
                probs.append("the column index does not run over all states of the block (bound %s)" % str(kb_)[:60])
            else:
                raise AnalysisBroken("HamiltonianPart::prepare: the bound of the ket loop (%s) is not a recognised spelling of the block size" % str(kb_)[:60])
        kets = [("mcall", SC + "getFockState", S_, B_, r), ("op", "[]", ("mcall", SC + "getFockStates", S_, B_), r), ("mcall", "std::vector::at", ("mcall", SC + "getFockStates", S_, B_), r),
                ("mcall", "std::vector::operator[]", ("mcall", SC + "getFockStates", S_, B_), r)]
        acts = [("mcall", "Pomerol::Operator::actRight", F_, kk_) for kk_ in kets]
        from pv.loops import element_keys
        from pv.paths import every_iteration
        # the loop over the image states: an iterator / range loop over F.actRight(ket) that encloses the assignment
        img = None
        for Lx in Ls:
            sx = loop_shape(f, ctx, Lx)
            if sx["kind"] in ("iter", "range") and sx.get("bound") in acts:
                img = (Lx, sx)
        elem_first = l[3] if (l[0] == "mcall" and l[1] == SC + "getInnerState" and len(l) == 4 and l[3][0] == "field" and l[3][1] == "std::pair::first") else None
        if not (l[0] == "mcall" and l[1] == SC + "getInnerState"):
            probs.append("the row index is not the inner position (getInnerState) of an image state")
        elif img is None:
            if l[3] in kets:
                probs.append("the row index is the position of the ket itself, not of an image state of H|ket>")
            else:
                raise AnalysisBroken("HamiltonianPart::prepare: the loop over the image states F.actRight(ket) that encloses H(l,r) = ... was not found")
        else:
            Lx, sx = img
            eks = element_keys(sx, sx["bound"])
            if elem_first is None or elem_first[2] not in eks:
                raise AnalysisBroken("HamiltonianPart::prepare: the row index is not read from the image state visited by the loop (form not analysed)")
            if not (v[0] == "field" and v[1] == "std::pair::second" and v[2] in eks):
                probs.append("the stored value is not the amplitude of the same image state")
            if not (covers(sx, sx["bound"]) and every_iteration(f, Lx, A) is not False):
                probs.append("not every image state of H|ket> (all entries of F.actRight(ket), ket = Fock state `right` of the block) is written")
        if probs:
            r3.bad(HP + "::prepare", f.loc(A), "; ".join(probs), cfgname)
        else:
            r3.ok(HP + "::prepare", f.loc(A), "H(inner(bra), right) = <bra|F|ket(right)> for every ket of the block and every bra in F|ket>", cfgname)

    r4 = chk.rule("C03-R4", "ground energy = minimum over all blocks; eigenvalue look-up by state label; concatenation of the spectra", "F1+F6", 3)
    from checks.c09 import full_index_loop
    ge = db.fn(HH + "::computeGroundEnergy", nparams=0)
    with r4.guard(HH + "::computeGroundEnergy", ge.loc(), cfgname):
        gectx = Ctx(ge, db)
        from checks.lehmann import ground_energy_verdict
        gv, why = ground_energy_verdict(db)
        if gv == "unknown":
            raise AnalysisBroken("Hamiltonian::computeGroundEnergy: " + why)
        good = gv == "ok"
        mev = db.fn(HP + "::getMinimumEigenvalue", nparams=0)
        mctx = Ctx(mev, db)
        mins = [j for j, n in mev.walk(mev.body) if n["k"] == "return" and mctx.key(n["sub"]) == ("mcall", "Eigen::DenseBase::minCoeff", Ev)]
        if good and mins:
            r4.ok(HH + "::computeGroundEnergy", ge.loc(), "min over all blocks of Eigenvalues.minCoeff()", cfgname)
        else:
            r4.bad(HH + "::computeGroundEnergy", ge.loc(), why if not good else "getMinimumEigenvalue is not Eigenvalues.minCoeff()", cfgname)
    g = db.fn(HH + "::getEigenValue", nparams=1)
    with r4.guard(HH + "::getEigenValue", g.loc(), cfgname):
        gctx = Ctx(g, db)
        st = ("param", g.params[0]["d"], g.params[0]["n"])
        S_ = fld(HH + "::S")
        rets = [j for j, n in g.walk(g.body) if n["k"] == "return"]
        if len(rets) != 1:
            raise AnalysisBroken("Hamiltonian::getEigenValue: expected one return (several returns are not analysed)")
        k = gctx.key(g.nodes[rets[0]]["sub"])
        want_obj = [("mcall", HH + "::getPart", THIS, ("mcall", SC + "getBlockNumber", S_, st)), ("un", "*", ("op", "[]", fld(HH + "::parts"), ("mcall", SC + "getBlockNumber", S_, st)))]
        good = k[0] == "mcall" and k[1] == HP + "::getEigenValue" and deconv(k[2]) in [deconv(x) for x in want_obj] and k[3] == ("mcall", SC + "getInnerState", S_, st)
        if good:
            r4.ok(HH + "::getEigenValue", g.loc(), "part(getBlockNumber(state)).getEigenValue(getInnerState(state)) for the same state", cfgname)
        else:
            r4.bad(HH + "::getEigenValue", g.loc(), "the eigenvalue of a state label is not looked up in the state's own block at the state's own position", cfgname)
    g = db.fn(HH + "::getEigenValues", nparams=0)
    with r4.guard(HH + "::getEigenValues", g.loc(), cfgname):
        gctx = Ctx(g, db)
        copies = [j for j in g.calls(callee_re=r"^std::copy")]
        adv = [j for j, n in g.walk(g.body) if n["k"] == "bin" and n["op"] == "+="]
        good = False
        why = "expected one std::copy per block and one offset increment"
        # the per-block transfer: std::copy(src.data(), src.data()+src.size(), out.data()+off)  or  out.segment(off, src.size()) = src
        segs = []
        for j, n in g.walk(g.body):
            if (n["k"] == "call" and n.get("ck") == "op" and n.get("op") == "=" and len(n["args"]) == 2) or (n["k"] == "bin" and n["op"] == "="):
                lk_ = gctx.key(n["args"][0] if n["k"] == "call" else n["l"], inline=False)
                if lk_[0] == "mcall" and lk_[1].split("::")[-1] in ("segment", "middleRows") and len(lk_) == 5:
                    segs.append((j, lk_, gctx.key(n["args"][1] if n["k"] == "call" else n["r"], inline=False)))
        form = None
        if len(copies) == 1 and len(adv) == 1 and not segs:
            form = "copy"
        elif len(segs) == 1 and len(adv) == 1 and not copies:
            form = "segment"
        elif not copies and not segs:
            raise AnalysisBroken("Hamiltonian::getEigenValues: the per-block transfer is neither std::copy nor a segment assignment")
        if form:
            X = copies[0] if form == "copy" else segs[0][0]
            ak = gctx.key(adv[0], inline=False)
            off = ak[2]
            Ls = enclosing_loops(g, X)
            shp = loop_shape(g, gctx, Ls[0]) if Ls else None
            if form == "copy":
                ck = gctx.key(X, inline=False)
                src = ck[2][2] if ck[2][0] == "mcall" else None
            else:
                _, lk_, rk_ = segs[0]
                src = rk_
                # same shape as the std::copy call: (callee, begin, end, destination)
                ck = ("call", "segment", None, None, ("op", "+", lk_[2], lk_[3]) if lk_[4] == ("mcall", "Eigen::EigenBase::size", src) else ("bad",))
                copies = [X]
            full = shp is not None and shp["kind"] == "index" and deconv(shp["start"]) == ("lit", 0) and no_early_exit(shp) and \
                deconv(shp["bound"]) in (("mcall", SC + "NumberOfBlocks", fld(HH + "::S")), ("mcall", "std::vector::size", fld(HH + "::parts")))
            srcdecl = gctx.decls.get(src[1], {}) if src and src[0] == "var" else {}
            src_ok = srcdecl.get("init") is not None and key_contains(gctx.key(srcdecl["init"]), lambda y: y[0] == "mcall" and y[1] == HP + "::getEigenValues") and \
                shp is not None and key_contains(gctx.key(srcdecl["init"]), lambda y: y[:2] == shp["var"][:2])
            dst_ok = ck[4][0] == "op" and ck[4][1] == "+" and ck[4][3][:2] == off[:2]
            adv_ok = ak[3] == ("mcall", "Eigen::EigenBase::size", src) and g.cfg.dominates(g.cfg.pos1(copies[0]), g.cfg.pos1(adv[0])) and enclosing_loops(g, adv[0])[:1] == Ls[:1]
            offdecl = gctx.decls.get(off[1], {})
            zero = offdecl.get("init") is not None and gctx.key(offdecl["init"]) == ("lit", 0)
            good = full and src_ok and dst_ok and adv_ok and zero
            if not full:
                why = "not every block's eigenvalues are copied"
            elif not adv_ok:
                why = "the output offset is not advanced by the size of the block just copied"
            elif not dst_ok or not zero:
                why = "eigenvalues are not copied to out.data() + offset starting from 0"
            else:
                why = "the copied vector is not the eigenvalues of the current block"
        if good:
            r4.ok(HH + "::getEigenValues", g.loc(), "copies every block's eigenvalues to consecutive positions (offset += size)", cfgname)
        else:
            r4.bad(HH + "::getEigenValues", g.loc(), why, cfgname)
    r_idem = chk.rule("C03-R5", "prepare()/compute() are idempotent: the early-return level is the level the function establishes", "F1 pairing", 3)
    from checks.lehmann import check_status_guards
    check_status_guards(r_idem, db, cfgname, ("Pomerol::Hamiltonian", "Pomerol::HamiltonianPart"))
    chk.undecided.append("equality of the multiset of block eigenvalues with the spectrum of the full 2^N matrix, orthonormality and H v = E v (value level; Eigen's SelfAdjointEigenSolver is trusted)")


if __name__ == "__main__":
    run_check("C03", "block-wise diagonalisation: structure", body)
