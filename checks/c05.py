"""C05 — symbolic operator algebra: structural necessary conditions (DESIGN.md §3 C05).
The statement — normal ordering is correct for every polynomial — needs a proof about a recursive sort and is NOT decided.
Decided: swap <=> sign flip, contraction before the swap with the unflipped coefficient, accumulate => zero check,
sibling agreement of += / -=, monomial action, derived operations, shortcut vs polynomial form, whole-monomial equality."""
import sympy as sp
from pv.check import run_check
from pv.entail import entails
from pv.expr import Ctx, guard_facts, key_contains, key_subst
from pv.facts import AnalysisBroken, strip_targs
from pv.loops import covers, enclosing_loops, loop_shape, stmts_of, no_early_exit
from pv.formula import Formula
from pv.cfg import acyclic_paths
from pv.paths import nodes_on_path, return_cases
from pv.symenv import env_at, value_key
from checks.lehmann import fld, THIS

OP = "Pomerol::Operator"
PRE = "Pomerol::OperatorPresets::"


def pk(f, i):
    return ("param", f.params[i]["d"], f.params[i]["n"])


def body(chk, db, cfgname):
    # ================================================================== R1
    r1 = chk.rule("C05-R1", "normal ordering: every swap of neighbours flips the sign once; the contraction is emitted before the swap with the unflipped coefficient; equal neighbours annihilate the monomial", "F1 pairing", 4)
    f = db.fn(OP + "::normalize_and_insert", nparams=3)
    with r1.guard(OP + "::normalize_and_insert", f.loc(), cfgname):
        ctx = Ctx(f, db)
        at = guard_facts(f, ctx)
        m, coeff, target = pk(f, 0), pk(f, 1), pk(f, 2)
        swaps = [j for j in f.calls() if strip_targs(f.nodes[j].get("cname") or "") in ("std::swap", "boost::swap")]
        negs = [j for j, n in f.walk(f.body) if n["k"] == "bin" and n["op"] == "=" and ctx.key(n["l"], inline=False)[:2] == coeff[:2] and
                ctx.key(n["r"], inline=False) in (("un", "-", coeff), ("op", "-", coeff), ("op", "*", ("lit", -1), coeff), ("op", "*", coeff, ("lit", -1)))]
        negs += [j for j, n in f.walk(f.body) if (n["k"] == "bin" and n["op"] == "*=" and ctx.key(n["l"], inline=False)[:2] == coeff[:2] and ctx.key(n["r"]) in (("lit", -1), ("un", "-", ("lit", 1))))]
        negs += [j for j, n in f.walk(f.body) if n["k"] == "call" and n.get("ck") == "op" and n.get("op") == "=" and ctx.key(n["args"][0], inline=False)[:2] == coeff[:2] and
                 ctx.key(n["args"][1], inline=False) in (("un", "-", coeff), ("op", "-", coeff))]
        recs = [j for j in f.calls(cname=OP + "::normalize_and_insert")]

        def stmt_index(node):
            """(enclosing block node, index of the statement of that block which contains `node`)"""
            prev = node
            for a in f.ancestors(node):
                an = f.nodes[a]
                if an["k"] == "block" and prev in an["body"]:
                    return a, an["body"].index(prev)
                prev = a
            return None, None
        site = OP + "::normalize_and_insert:swap<=>sign"
        if len(swaps) != 1:
            raise AnalysisBroken("expected exactly one swap of neighbouring factors, found %d" % len(swaps))
        S = swaps[0]
        sk = ctx.key(S)
        a_, b_ = sk[2], sk[3]
        # the swapped objects are m[n-1] and m[n]
        nb = None
        for x, y in ((a_, b_), (b_, a_)):
            if x[0] == "op" and x[1] == "[]" and y[0] == "op" and y[1] == "[]" and x[2] == m and y[2] == m and x[3] == ("op", "-", y[3], ("lit", 1)):
                nb = (x, y)
        fa = at.get(f.cfg.pos1(S), frozenset())
        probs = []
        if nb is None:
            probs.append("the swapped elements are not the neighbours m[n-1], m[n]")
        else:
            prev, cur = nb
            gt = any(x[0] == "<" and x[1] == cur and x[2] == prev for x in fa) or any(x[0] == "true" and x[1] in (("op", ">", prev, cur), ("op", "<", cur, prev)) for x in fa)
            if not gt:
                probs.append("neighbours are swapped without the test prev > cur (the sort does not terminate / orders wrongly)")
        same_block = [j for j in negs if f.cfg.pos1(j)[0] == f.cfg.pos1(S)[0]]
        if len(negs) != 1 or len(same_block) != 1:
            probs.append("the coefficient is negated %d time(s), %d of them on the path of the swap: every transposition of two fermion operators must flip the sign exactly once" % (len(negs), len(same_block)))
        if probs:
            r1.bad(site, f.loc(S), "; ".join(probs), cfgname)
        else:
            r1.ok(site, f.loc(S), "std::swap(m[n-1], m[n]) and coeff = -coeff occur together, once, under prev > cur", cfgname)
        site = OP + "::normalize_and_insert:contraction"
        probs = []
        if len(recs) != 1:
            probs.append("the contraction term is emitted %d times" % len(recs))
        else:
            R = recs[0]
            rfa = at.get(f.cfg.pos1(R), frozenset())
            rk = ctx.key(R, inline=False)
            # under prev == flip(cur): an equality fact between prev and a local copy of cur whose type tag was inverted
            eqs = [x for x in rfa if (x[0] == "==" and nb is not None and (nb[0] in (x[1], x[2]))) or (x[0] == "true" and x[1][0] == "op" and x[1][1] == "==" and nb is not None and nb[0] in x[1][2:])]
            if not eqs:
                # some other condition relating the two neighbours?  then the form is not analysed; no condition at all is a defect
                rel_ = [x for x in rfa if nb is not None and key_contains(x, lambda y: y == nb[0]) and key_contains(x, lambda y: y == nb[1]) and x[0] in ("true", "false", "==", "!=")
                        and not (x[0] in ("<", "<=") )]
                rel_ = [x for x in rel_ if not (x[0] in ("==", "!=") and set(x[1:]) == {nb[0], nb[1]})]
                if rel_:
                    raise AnalysisBroken("the guard of the contraction relates the two neighbours in a form that is not analysed")
                probs.append("the contraction is not guarded by prev == (cur with creation/annihilation flipped)")
            else:
                other = None
                for x in eqs:
                    ops = x[1:] if x[0] == "==" else x[1][2:]
                    for o in ops:
                        if o != nb[0]:
                            other = o
                okflip = False
                if other is not None and other[0] == "var":
                    dv = ctx.decls.get(other[1], {})
                    init_ok = dv.get("init") is not None and ctx.key(dv["init"]) == nb[1]
                    muts = ctx.mut.get(other[1], [])
                    flip = False
                    for mj in muts:
                        mk = ctx.key(mj, inline=False)
                        if mk[0] == "op" and mk[1] == "=" and mk[2][0] == "call" and "get<0" in str(mk[2][1]) and key_contains(mk[3], lambda y: y[0] == "un" and y[1] == "!"):
                            flip = True
                    okflip = init_ok and flip and len(muts) == 1
                if not okflip:
                    probs.append("the object compared with prev is not a copy of cur with only its creation/annihilation tag inverted")
            # the `if` that holds the contraction must be an earlier statement of the block that holds the swap and the sign flip
            sb, si = stmt_index(S)
            before = True
            prevn = R
            ridx = None
            for a in f.ancestors(R):
                if a == sb:
                    ridx = f.nodes[a]["body"].index(prevn)
                    break
                prevn = a
            if ridx is None or ridx >= si:
                before = False
            for j in same_block:
                nb_, ni = stmt_index(j)
                if nb_ != sb or ridx is None or ridx >= ni:
                    before = False
            if not before:
                probs.append("the contraction is emitted after the swap / after the sign flip (it must use the monomial and coefficient as they were before the transposition)")
            if rk[3][:2] != coeff[:2]:
                probs.append("the contraction does not carry the current (unflipped) coefficient")
            if rk[4] != target:
                probs.append("the contraction is not inserted into the same target map")
            # the reduced monomial: m without positions n-1, n
            if rk[2][0] == "var" and nb is not None:
                nvar = nb[1][3]
                # ranges of m appended to the new monomial: std::copy(first, last, back_inserter(new)) or new.insert(new.end(), first, last)
                import sympy as _sp
                nsym = _sp.Symbol("n")

                def offset(k):
                    """('b', e): m.begin() + e   /   ('e', e): m.end() + e   (e a sympy expression in n); None if not of that form"""
                    if k[0] == "mcall" and k[1].split("::")[-1] in ("begin", "cbegin") and k[2] == m:
                        return ("b", _sp.Integer(0))
                    if k[0] == "mcall" and k[1].split("::")[-1] in ("end", "cend") and k[2] == m:
                        return ("e", _sp.Integer(0))
                    if k == nvar:
                        return ("n", nsym)
                    if k[0] == "lit" and isinstance(k[1], int):
                        return ("n", _sp.Integer(k[1]))
                    if k[0] == "cast":
                        return offset(k[2])
                    if k[0] == "op" and len(k) == 4 and k[1] in ("+", "-"):
                        a1, b1 = offset(k[2]), offset(k[3])
                        if a1 is None or b1 is None:
                            return None
                        sg = 1 if k[1] == "+" else -1
                        if a1[0] in ("b", "e") and b1[0] == "n":
                            return (a1[0], a1[1] + sg * b1[1])
                        if a1[0] == "n" and b1[0] in ("b", "e") and sg == 1:
                            return (b1[0], a1[1] + b1[1])
                        if a1[0] == "n" and b1[0] == "n":
                            return ("n", a1[1] + sg * b1[1])
                    return None
                ranges = []
                for c in f.calls():
                    cn_ = strip_targs(f.nodes[c].get("cname") or "")
                    ck_ = ctx.key(c, inline=False)
                    if cn_ == "std::copy" and key_contains(ck_, lambda y: y[:2] == rk[2][:2]) and len(ck_) >= 5:
                        ranges.append((offset(ck_[2]), offset(ck_[3])))
                    elif cn_ == "std::vector::insert" and f.nodes[c].get("obj") is not None and ctx.key(f.nodes[c]["obj"], inline=False)[:2] == rk[2][:2] and len(ck_) == 6:
                        ranges.append((offset(ck_[4]), offset(ck_[5])))
                dv_ = ctx.decls.get(rk[2][1], {})
                if dv_.get("init") is not None:
                    ik_ = ctx.key(dv_["init"], inline=False)
                    if ik_[0] == "ctor" and ik_[1] == "std::vector" and len(ik_) >= 4 and offset(ik_[2]) is not None and offset(ik_[2])[0] in ("b", "e"):
                        ranges.insert(0, (offset(ik_[2]), offset(ik_[3])))      # monomial_t new_m(first, last)
                if not ranges:
                    raise AnalysisBroken("the way the contracted monomial is assembled is not recognised (neither std::copy nor insert of ranges of m)")
                if any(a1 is None or b1 is None for a1, b1 in ranges):
                    raise AnalysisBroken("a range appended to the contracted monomial is not of the form m.begin()+k / m.end()")
                # the ranges are APPENDED: the receiving monomial must be empty whenever a contraction starts, i.e. it is declared
                # (or cleared / re-assigned) inside every loop that encloses the appends -- a buffer declared once per call and
                # never cleared still holds the previous contraction's factors when a second contraction happens in the same call
                appends = [c for c in f.calls() if (strip_targs(f.nodes[c].get("cname") or "") == "std::copy" and key_contains(ctx.key(c, inline=False), lambda y: y[:2] == rk[2][:2])) or
                           (strip_targs(f.nodes[c].get("cname") or "") == "std::vector::insert" and f.nodes[c].get("obj") is not None and ctx.key(f.nodes[c]["obj"], inline=False)[:2] == rk[2][:2])]
                dnode = dv_.get("declnode") if 'dv_' in dir() else None
                dv0 = ctx.decls.get(rk[2][1], {})
                dnode = dv0.get("declnode")
                if appends and dnode is not None:
                    Lapp = set(enclosing_loops(f, appends[0]))
                    Ldecl = set(enclosing_loops(f, dnode))
                    fresh = Lapp <= Ldecl
                    if not fresh:
                        for c in f.calls():
                            nn_ = f.nodes[c]
                            if nn_.get("ck") == "method" and strip_targs(nn_.get("cname") or "").split("::")[-1] == "clear" and nn_.get("obj") is not None and ctx.key(nn_["obj"], inline=False)[:2] == rk[2][:2] \
                                    and Lapp <= set(enclosing_loops(f, c)) and f.cfg.dominates(f.cfg.pos1(c), f.cfg.pos1(appends[0])):
                                fresh = True
                    if not fresh:
                        probs.append("the monomial that receives the contraction is declared outside the sorting loop and never cleared: when one call performs a second contraction "
                                     "(a product that needs two or more, e.g. (c0 c1)(c+0 c+1)) the new factors are appended to those of the first")
                want_r = [(("b", _sp.Integer(0)), ("b", nsym - 1)), (("b", nsym + 1), ("e", _sp.Integer(0)))]
                norm_r = [((a1[0], _sp.expand(a1[1])), (b1[0], _sp.expand(b1[1]))) for a1, b1 in ranges]
                if norm_r != want_r:
                    probs.append("the contracted monomial is not m with the two factors at positions n-1, n removed (ranges appended: %s)" % "; ".join("[%s%+d.. , %s%s)" % (a1[0], 0, b1[0], "") if False else "[%s, %s)" % (a1, b1) for a1, b1 in norm_r))
        if probs:
            r1.bad(site, f.loc(recs[0]) if recs else f.loc(), "; ".join(probs), cfgname)
        else:
            r1.ok(site, f.loc(recs[0]), "under prev == flip(cur): normalize_and_insert(m \\ {n-1,n}, coeff, target) before the swap", cfgname)
        site = OP + "::normalize_and_insert:pauli"
        rets = [j for j, n in f.walk(f.body) if n["k"] == "return"]
        good = False
        for j in rets:
            rfa = at.get(f.cfg.pos1(j), frozenset())
            if nb is not None and any(x[0] == "==" and set(x[1:]) == {nb[0], nb[1]} for x in rfa):
                ins = [c for c in f.calls() if strip_targs(f.nodes[c].get("cname") or "") == "std::map::insert"]
                if not any(f.cfg.dominates(f.cfg.pos1(c), f.cfg.pos1(j)) for c in ins):
                    good = True
        if good:
            r1.ok(site, f.loc(), "equal neighbours (c c or c+ c+ of one mode): return without inserting anything", cfgname)
        else:
            r1.bad(site, f.loc(), "a monomial with two equal neighbouring factors is not discarded (c_i c_i must vanish)", cfgname)
        site = OP + "::normalize_and_insert:insert"
        ins = [c for c in f.calls() if strip_targs(f.nodes[c].get("cname") or "") == "std::map::insert" and ctx.key(f.nodes[c]["obj"]) == target]
        good = len(ins) == 1 and ctx.key(f.nodes[ins[0]]["args"][0], inline=False) in (("call", "std::make_pair", m, coeff), ("ctor", "std::pair", m, coeff))
        if not ins:
            # delegated to a helper that receives (target, m, coeff): not analysed here
            helpers = [c for c in f.calls() if c not in recs and db.callee_fn(f.nodes[c]) is not None and db.callee_fn(f.nodes[c]).rec == OP and
                       {m, coeff, target} <= set(ctx.key(a, inline=False) for a in f.nodes[c]["args"])]
            if helpers:
                r1.unknown(site, f.loc(helpers[0]), "the insertion of (m, coeff) into the target is delegated to %s" % f.nodes[helpers[0]].get("cname"), cfgname)
            else:
                r1.bad(site, f.loc(), "the normal-ordered monomial is not inserted as (m, coeff) into the target", cfgname)
        elif good:
            r1.ok(site, f.loc(ins[0]), "the ordered monomial is inserted with the accumulated coefficient", cfgname)
        else:
            r1.bad(site, f.loc(), "the normal-ordered monomial is not inserted as (m, coeff) into the target", cfgname)

    # ================================================================== R2
    r2 = chk.rule("C05-R2", "every in-place accumulation of a coefficient is followed by the near-zero erasure; += and -= differ only in sign", "F1 pairing + F4 siblings", 5)
    accs = {}
    scope = [x for x in db.fns.values() if x.rec == OP and x.body is not None and x.body >= 0]
    for g in sorted(scope, key=lambda y: (y.file, y.line, y.mangled)):
        gctx = Ctx(g, db)
        for j, n in g.walk(g.body):
            if n["k"] == "bin" and n["op"] in ("+=", "-=") or (n["k"] == "call" and n.get("ck") == "op" and n.get("op") in ("+=", "-=")):
                l = n["l"] if n["k"] == "bin" else n["args"][0]
                r = n["r"] if n["k"] == "bin" else n["args"][1]
                lk = gctx.key(l, inline=False)
                if lk[0] == "field" and lk[1] == "std::pair::second" and lk[2][0] == "op" and lk[2][1] == "->" and lk[2][2][0] == "var":
                    it = lk[2][2]
                    par = g.parent_map().get(j)
                    sib = stmts_of(g, par) if par is not None else []
                    nxt = sib[sib.index(j) + 1] if j in sib and sib.index(j) + 1 < len(sib) else None
                    okz = False
                    if nxt is not None and g.nodes[nxt]["k"] == "call" and strip_targs(g.nodes[nxt].get("cname") or "") == OP + "::erase_zero_monomial":
                        ak = [gctx.key(a, inline=False) for a in g.nodes[nxt]["args"]]
                        okz = len(ak) == 2 and ak[1][:2] == it[:2]
                    site = "%s/%s:accumulate" % (g.qn, g.params[0]["tw"] if g.params else "")
                    accs[site] = (g, j, n["op"] if n["k"] == "bin" else n["op"], gctx.key(r, inline=False))
                    if okz:
                        r2.ok(site, g.loc(j), "it->second %s ...; erase_zero_monomial(.., it)" % (n["op"]), cfgname)
                    else:
                        r2.bad(site, g.loc(j), "a coefficient is accumulated in place but the entry is not passed to erase_zero_monomial right afterwards: terms that cancel stay in the polynomial with coefficient ~0 "
                               "(sizes differ, == and commutes() give wrong answers)", cfgname)
    ez = db.fn(OP + "::erase_zero_monomial", nparams=2)
    with r2.guard(OP + "::erase_zero_monomial", ez.loc(), cfgname):
        ectx = Ctx(ez, db)
        eat = guard_facts(ez, ectx)
        er = [j for j in ez.calls() if strip_targs(ez.nodes[j].get("cname") or "") == "std::map::erase"]
        good = False
        if len(er) == 1:
            fa = eat.get(ez.cfg.pos1(er[0]), frozenset())
            it = pk(ez, 1)
            good = any(x[0] == "<" and x[1][0] == "call" and x[1][1] in ("std::abs", "abs") and key_contains(x[1], lambda y: y == ("field", "std::pair::second", ("op", "->", it))) for x in fa) and \
                ectx.key(ez.nodes[er[0]]["obj"]) == pk(ez, 0) and ectx.key(ez.nodes[er[0]]["args"][0])[:2] == it[:2]
        if good:
            r2.ok(OP + "::erase_zero_monomial", ez.loc(), "erases the entry iff |coefficient| is below the tolerance", cfgname)
        else:
            r2.bad(OP + "::erase_zero_monomial", ez.loc(), "does not erase exactly the entry whose |coefficient| is below the tolerance", cfgname)
    # siblings: operator+= / operator-= (scalar and Operator)
    for ptype, label in ((r"double|complex", "scalar"), (r"Operator", "Operator")):
        pick = lambda lst: [x for x in lst if len(x.params) == 1 and __import__("re").search(ptype, x.params[0]["t"]) and not (label == "scalar" and "Operator" in x.params[0]["t"])]
        plus = pick(db.fn(OP + "::operator+=", allow_many=True))
        minus = pick(db.fn(OP + "::operator-=", allow_many=True))
        site = OP + "::operator+=/-=(%s)" % label
        if len(plus) != 1 or len(minus) != 1:
            raise AnalysisBroken("operator+= / operator-= (%s) not found" % label)
        with r2.guard(site, plus[0].loc(), cfgname):
            sp_, sm_ = sign_signature(plus[0], db), sign_signature(minus[0], db)
            if sp_ is None or sm_ is None:
                raise AnalysisBroken("insert / accumulate pattern not recognised")
            probs = []
            if sp_["insert_sign"] != +1 or sp_["acc_op"] != "+=":
                probs.append("operator+= inserts/accumulates with the wrong sign")
            if sm_["insert_sign"] != -1 or sm_["acc_op"] != "-=":
                probs.append("operator-= does not insert -x for a new monomial and accumulate with -= for an existing one (A - B then differs from A + (-B) depending on which monomials A already has)")
            if probs:
                r2.bad(site, minus[0].loc(), "; ".join(probs), cfgname)
            else:
                r2.ok(site, plus[0].loc(), "same structure; new monomial inserted with +x / -x, existing one accumulated with += / -=", cfgname)

    # ================================================================== R3
    r3 = chk.rule("C05-R3", "action of a monomial on a Fock state: factors applied right to left, Pauli test before the write, Jordan-Wigner sign counts occupied modes below the index", "F1 ordering", 1)
    cands = [x for x in db.fn(OP + "::actRight", allow_many=True) if len(x.params) == 2]
    if len(cands) != 1:
        raise AnalysisBroken("Operator::actRight(monomial, ket) not found")
    f = cands[0]
    with r3.guard(OP + "::actRight", f.loc(), cfgname):
        ctx = Ctx(f, db)
        at = guard_facts(f, ctx)
        envs = env_at(f, ctx)
        mono, ket = pk(f, 0), pk(f, 1)
        writes = [j for j, n in f.walk(f.body) if (n["k"] in ("bin", "call")) and ctx.key(j, inline=False)[:2] == ("op", "=") and ctx.key(j, inline=False)[2][0] == "op" and ctx.key(j, inline=False)[2][1] == "[]"
                  and ctx.key(j, inline=False)[2][2][0] == "var" and "dynamic_bitset" in (ctx.decls.get(ctx.key(j, inline=False)[2][2][1], {}).get("t") or "")]
        if len(writes) != 1:
            raise AnalysisBroken("expected one bit write bra[ind] = ...")
        Wt = writes[0]
        wk = ctx.key(Wt, inline=False)
        bra, ind = wk[2][2], wk[2][3]
        Ls = enclosing_loops(f, Wt)
        n_ = f.nodes[Ls[-1]] if Ls else None
        probs = []
        unknowns = []
        # ---- which factor is being applied, and in which order are the factors visited
        factor = None          # key of the current factor
        if n_ is None:
            probs.append("the factors are not applied in a loop")
        else:
            shp_o = loop_shape(f, ctx, Ls[-1])
            size = ("mcall", "std::vector::size", mono)
            ini = f.nodes[n_["init"]]["vars"][0] if n_.get("init") is not None and f.nodes[n_["init"]]["k"] == "decl" else None
            direction = None
            if ini is not None:
                iv = ("var", ini["d"], ini["n"])
                st = ctx.key(ini["init"])
                cnd = ctx.cmp_fact(n_["c"], True) if n_.get("c") is not None else []
                inc = f.nodes[n_["inc"]] if n_.get("inc") is not None else {}
                incop = inc.get("op") if inc.get("k") in ("un", "call") else None
                if st == ("op", "-", size, ("lit", 1)) and cnd == [("<=", ("lit", 0), iv)] and incop == "--":
                    direction, factor = "down", ("op", "[]", mono, iv)
                elif st[0] == "mcall" and st[1].split("::")[-1] in ("rbegin", "crbegin") and st[2] == mono and incop == "++" and \
                        any(x[0] == "!=" and key_contains(x, lambda y: y[0] == "mcall" and y[1].split("::")[-1] in ("rend", "crend") and y[2] == mono) for x in cnd):
                    direction, factor = "down", ("op", "*", iv)
                elif covers(dict(shp_o, exits=[]), mono):      # ascending over all factors (the early return of the Pauli test is not a truncation of the order)
                    direction = "up"
            if direction == "up":
                probs.append("factors are applied from the first (leftmost) to the last: a monomial acts on a ket with its rightmost factor first")
            elif direction is None:
                unknowns.append("the order in which the factors are visited is not recognised")
        # ---- truth tables over (factor is a creation operator, mode occupied)
        cre, ann = ("enum", OP + "::creation", 0), ("enum", OP + "::annihilation", 1)
        tied = {}
        for j, n in f.walk(f.body):
            if n["k"] == "call" and n.get("ck") == "op" and n.get("op") == "=" and len(n["args"]) == 2:
                lk_ = ctx.key(n["args"][0], inline=False)
                if lk_[0] == "call" and lk_[1].split("::")[-1].startswith("tie") and len(lk_) == 4:
                    tied[lk_[2][:2]] = 0
                    tied[lk_[3][:2]] = 1

        def comp_of(k):
            """0 / 1 if key k denotes the type / the index component of the current factor"""
            if k[0] == "var" and k[:2] in tied:
                return tied[k[:2]]
            if k[0] == "call" and "get<" in k[1] and len(k) == 3:
                return 0 if ("get<0" in k[1] or "create_annihilate" in k[1] or "get<Pomerol::Operator::create_annihilate" in k[1]) else (1 if "get<1" in k[1] else None)
            return None

        def tt(k, is_cre, occ):
            """value of boolean key k when the factor is a creation operator (is_cre) and mode `ind` is occupied (occ); None = unknown"""
            if k[0] == "cast":
                return tt(k[2], is_cre, occ)
            if k[0] == "lit":
                return bool(k[1])
            if k[0] == "enum":
                return ("enum", k == cre)
            if k[0] == "mcall" and k[1].endswith("operator bool") and len(k) == 3:
                return tt(k[2], is_cre, occ)
            if k[0] == "op" and k[1] == "[]" and len(k) == 4 and k[2][:2] == bra[:2]:
                return occ if (k[3] == ind or comp_of(k[3]) == 1 or comp_of(ctx.key_of_var(k[3]) if hasattr(ctx, "key_of_var") else k[3]) == 1) else None
            if comp_of(k) == 0:
                return ("type", is_cre)
            if k[0] == "un" and k[1] == "!":
                v = tt(k[2], is_cre, occ)
                v = v[1] if isinstance(v, tuple) and v[0] == "type" else v
                return None if v is None or isinstance(v, tuple) else (not v)
            if k[0] == "op" and len(k) == 4 and k[1] in ("==", "!=", "&&", "||"):
                a_, b_ = tt(k[2], is_cre, occ), tt(k[3], is_cre, occ)
                if a_ is None or b_ is None:
                    return None

                def as_bool(v):
                    # type component as bool: creation <-> true iff the enumerator `creation` converts to true
                    if isinstance(v, tuple) and v[0] == "type":
                        return v[1] if cre[2] else (not v[1])
                    if isinstance(v, tuple) and v[0] == "enum":
                        return bool(cre[2]) if v[1] else bool(ann[2])
                    return v
                if k[1] in ("==", "!="):
                    if isinstance(a_, tuple) and isinstance(b_, tuple) and {a_[0], b_[0]} == {"type", "enum"}:
                        t_ = a_ if a_[0] == "type" else b_
                        e_ = a_ if a_[0] == "enum" else b_
                        eq = (t_[1] == e_[1])
                    else:
                        eq = as_bool(a_) == as_bool(b_)
                    return eq if k[1] == "==" else (not eq)
                a2, b2 = as_bool(a_), as_bool(b_)
                return (a2 and b2) if k[1] == "&&" else (a2 or b2)
            return None
        # the value written into the mode: occupied iff the factor creates
        vk = ctx.key(f.nodes[Wt]["r"] if f.nodes[Wt]["k"] == "bin" else f.nodes[Wt]["args"][1])
        wv = [tt(vk, c_, False) for c_ in (True, False)]
        wv = [x[1] if isinstance(x, tuple) and x[0] == "type" else x for x in wv]
        if cre[2] == 0 and all(isinstance(x, bool) for x in wv) and False:
            pass
        if None in wv or any(isinstance(x, tuple) for x in wv):
            unknowns.append("the value written into the mode is not recognised as a function of the factor's type")
        elif wv != [True, False]:
            probs.append("the mode is not set to 'occupied iff the factor is a creation operator'")
        # Pauli test, decided path by path through one application of a factor: for each of the four cases (factor creates /
        # annihilates) x (mode occupied / empty) every path whose branch conditions are compatible with the case must end in
        # the error return for (creation, occupied) and (annihilation, empty), and must perform the bit write for the other two.
        # Any way of writing the test (one condition, nested ifs, early returns per operator type, ?:) gives the same table.
        pauli = None
        if n_ is not None:
            hdr_, lblocks_ = f.cfg.loop_blocks(Ls[-1])
            wpos = f.cfg.pos1(Wt)
            starts_ = [s_ for s_ in f.cfg.blocks[hdr_].succs if s_ is not None and s_ in lblocks_ and s_ != hdr_] if hdr_ is not None else []
            plist_ = []
            for st_ in starts_:
                plist_ += acyclic_paths(f.cfg, st_, {hdr_, f.cfg.exit})
                if st_ in (hdr_, f.cfg.exit):
                    plist_ = []
            err_nodes = {j for j, n in f.walk(f.body) if n["k"] == "return" and key_contains(ctx.key(n["sub"]), lambda y: y == ("global", "Pomerol::ERROR_FOCK_STATE"))}
            if not plist_ or wpos is None or len(plist_) > 400:
                pauli = "unknown"
            else:
                verdicts = set()
                for pth in plist_:
                    onp = nodes_on_path(f, pth)
                    kind = "error" if any(j in err_nodes for j in onp) else ("write" if (wpos[0] in pth and pth[-1] == hdr_) else ("other-return" if pth[-1] == f.cfg.exit else "skip"))
                    widx = pth.index(wpos[0]) if wpos[0] in pth else None
                    # facts of the edges taken, with the index of the block they were decided in
                    efacts = []
                    for bi, (b_, nx_) in enumerate(zip(pth, pth[1:])):
                        for k_, s_ in enumerate(f.cfg.blocks[b_].succs):
                            if s_ == nx_:
                                lbl = f.cfg.edge_label(b_, k_)
                                if lbl is not None:
                                    for fa_ in ctx.cmp_fact(lbl[0], lbl[1]) or []:
                                        efacts.append((bi, fa_, ctx.cmp_fact(lbl[0], lbl[1], inline=False)))
                                break
                    for is_cre in (True, False):
                        for occ in (True, False):
                            compatible = True
                            for bi, fa_, raw_ in efacts:
                                if fa_[0] in ("true", "false"):
                                    v_ = tt(fa_[1], is_cre, occ)
                                    want = fa_[0] == "true"
                                else:
                                    v_ = tt(("op", "==" if fa_[0] == "==" else fa_[0], fa_[1], fa_[2]), is_cre, occ) if fa_[0] in ("==", "!=") else None
                                    want = True
                                v_ = v_[1] if isinstance(v_, tuple) and v_[0] == "type" else v_
                                mentions = key_contains(("x",) + tuple(fa_[1:]), lambda y: (y[0] == "op" and y[1] == "[]" and len(y) == 4 and y[2][:2] == bra[:2]) or comp_of(y) == 0)
                                if v_ is None or isinstance(v_, tuple):
                                    if mentions:
                                        verdicts.add(("unknown", "a branch condition on the factor type / the occupation is not understood: %s" % (fa_,)))
                                    continue
                                if widx is not None and bi >= widx and key_contains(("x",) + tuple(x for r_ in raw_ for x in r_[1:]), lambda y: y[0] == "op" and y[1] == "[]" and len(y) == 4 and y[2][:2] == bra[:2]):
                                    verdicts.add(("bad", "the occupation of the mode is tested after the bit was written (it then no longer tells whether the operator may act)"))
                                if v_ != want:
                                    compatible = False
                                    break
                            if not compatible:
                                continue
                            must_err = (is_cre and occ) or (not is_cre and not occ)
                            case_ = "%s on an %s mode" % ("creation" if is_cre else "annihilation", "occupied" if occ else "empty")
                            if must_err and kind != "error":
                                verdicts.add(("bad", "%s is not rejected (a path compatible with it %s)" % (case_, "writes the bit" if kind == "write" else "skips the factor")))
                            if not must_err and kind != "write":
                                verdicts.add(("bad", "%s does not reach the bit write (%s)" % (case_, "the error state is returned" if kind == "error" else "the factor is skipped")))
                bads_ = sorted(x[1] for x in verdicts if x[0] == "bad")
                unks_ = sorted(x[1] for x in verdicts if x[0] == "unknown")
                if bads_:
                    pauli = "bad"
                    probs.append("the Pauli test is wrong: " + "; ".join(bads_[:3]))
                elif unks_:
                    pauli = "unknown"
                else:
                    pauli = "ok"
        if pauli == "unknown":
            unknowns.append("the Pauli test could not be evaluated path by path")
        # sign: loop j in [0, ind) flipping when bra[j]
        sgn_ok = False
        for j, n in f.walk(f.body):
            if n["k"] == "for" and j not in Ls[-1:]:
                shp = loop_shape(f, ctx, j)
                bnd_raw = ctx.cmp_fact(f.nodes[j]["c"], True) if f.nodes[j].get("c") is not None else []
                ind_full = ctx.key(f.nodes[Wt]["l"] if f.nodes[Wt]["k"] == "bin" else f.nodes[Wt]["args"][0])[3]
                if shp["kind"] == "index" and shp["rel"] == "<" and (shp["bound"][:2] == ind[:2] or shp["bound"] == ind_full) and not shp["exits"]:
                    st = value_key(f, ctx, envs, f.nodes[f.nodes[j]["init"]]["vars"][0]["init"], j) if f.nodes[j].get("init") is not None else None
                    flips = [x for x, m_ in f.walk(shp["body"]) if is_sign_flip(ctx, m_)]
                    if st == ("lit", 0) and len(flips) == 1:
                        ffa = at.get(f.cfg.pos1(flips[0]), frozenset())
                        bj = ("op", "[]", bra, shp["var"])
                        if (("true", bj) in ffa or ("true", ("mcall", "boost::dynamic_bitset::reference::operator bool", bj)) in ffa) and \
                                f.cfg.dominates_block(f.cfg.pos1(f.nodes[j]["c"])[0], f.cfg.pos1(Wt)[0]) or \
                                ((("true", bj) in ffa or ("true", ("mcall", "boost::dynamic_bitset::reference::operator bool", bj)) in ffa) and stmt_before(f, j, Wt)):
                            sgn_ok = True
        sign_loops = [j for j, n in f.walk(f.body) if n["k"] in ("for", "while", "forrange") and j not in Ls[-1:] and any(is_sign_flip(ctx, m_) for x, m_ in f.walk(n["body"]))]
        # positive evidence of a width limit: a fixed-width integer mask obtained by shifting a literal by the mode index
        # ((1ul << ind) - 1 as "all modes below ind"): it wraps once the index reaches the width of the integer, while FockState
        # (a dynamic bitset) and the polynomial algebra carry any number of modes
        shift_masks = []
        for j, n in f.walk(f.body):
            if n["k"] == "bin" and n["op"] == "<<":
                lk_, rk_ = ctx.key(n["l"]), ctx.key(n["r"])
                while lk_[0] == "cast" and len(lk_) == 3:
                    lk_ = lk_[2]
                if lk_[0] == "lit" and isinstance(lk_[1], int) and (rk_ == ind or comp_of(rk_) == 1 or key_contains(rk_, lambda y: y == ind or comp_of(y) == 1)):
                    shift_masks.append(j)
        if shift_masks:
            probs.append("the modes below the index are selected with a fixed-width integer mask (%s): the shift wraps for indices at or beyond the width of the integer (64), so for states with more modes the Jordan-Wigner sign is wrong" % f.s(shift_masks[0])[:40])
        if not sgn_ok and not sign_loops:
            # no loop that flips a sign per occupied mode: the sign is obtained in another way (masks, popcount, a helper); whether
            # that equals the parity of the occupied modes below the index is not decided here
            unknowns.append("the Jordan-Wigner sign is not accumulated by a loop over the modes below the index (form not analysed)")
        elif not sgn_ok:
            probs.append("the sign is not (-1)^(number of occupied modes j with 0 <= j < ind), evaluated before the bit is written")
        # the accumulated sign is what the function returns (after the loop over the factors): the flipped variable itself,
        # or -- when the parity is kept as a bool -- `parity ? -1 : 1`
        flipvars = set()
        for x, m_ in f.walk(f.body):
            if is_sign_flip(ctx, m_):
                lk_ = ctx.key(m_["l"], inline=False)
                if lk_[0] == "var":
                    flipvars.add(lk_[:2])
        if flipvars and n_ is not None:
            after = [j for j, n in f.walk(f.body) if n["k"] == "return" and n.get("sub") is not None and j not in [x for x, _ in f.walk(Ls[-1])] and stmt_before(f, Ls[-1], j)]
            for j in after:
                rk_ = ctx.key(f.nodes[j]["sub"])
                comps = [x for x in rk_[2:]] if rk_[0] == "call" and "make_tuple" in rk_[1] else None
                if comps is None or len(comps) != 2:
                    unknowns.append("the value returned after the factors were applied is not make_tuple(state, sign)")
                    continue
                sk = strip_conv(unctor(comps[1]))
                sk = strip_conv(sk)
                okret = False
                badret = None
                if sk[0] == "var" and sk[:2] in flipvars and "bool" not in (ctx.decls.get(sk[1], {}).get("t") or ""):
                    okret = True
                elif sk[0] == "cond" and strip_conv(sk[1])[0] == "var" and strip_conv(sk[1])[:2] in flipvars:
                    neg1 = (("lit", -1), ("un", "-", ("lit", 1)), ("lit", -1.0))
                    if strip_conv(sk[2]) in neg1 and strip_conv(sk[3]) in (("lit", 1), ("lit", 1.0)):
                        okret = True
                    elif strip_conv(sk[3]) in neg1 and strip_conv(sk[2]) in (("lit", 1), ("lit", 1.0)):
                        badret = "the parity flag is converted with the wrong orientation (odd parity gives +1)"
                elif not key_contains(sk, lambda y: y[0] == "var" and y[:2] in flipvars):
                    badret = "the sign accumulated over the occupied modes is not part of the returned matrix element"
                if badret:
                    probs.append(badret)
                elif not okret:
                    unknowns.append("the way the accumulated sign enters the returned matrix element is not recognised")
        if probs:
            r3.bad(OP + "::actRight(monomial,ket)", f.loc(), "; ".join(probs), cfgname)
        elif unknowns:
            r3.unknown(OP + "::actRight(monomial,ket)", f.loc(), "; ".join(unknowns), cfgname)
        else:
            r3.ok(OP + "::actRight(monomial,ket)", f.loc(), "right-to-left, Pauli test, sign over occupied modes in [0,ind), bit := creator", cfgname)

    # ================================================================== R4
    r4 = chk.rule("C05-R4", "derived operations: commutator AB-BA, anticommutator AB+BA, commutes <=> AB == BA", "F6 non-commutative formula", 3)
    A = ("un", "*", THIS)
    for nm, want in (("getCommutator", ("op", "-")), ("getAntiCommutator", ("op", "+")), ("commutes", ("op", "=="))):
        g = db.fn(OP + "::" + nm, nparams=1)
        with r4.guard(OP + "::" + nm, g.loc(), cfgname):
            gctx = Ctx(g, db)
            B = pk(g, 0)
            rets = [j for j, n in g.walk(g.body) if n["k"] == "return" and n.get("sub") is not None]
            AB, BA = ("op", "*", A, B), ("op", "*", B, A)

            def is_good(k):
                return k[:2] == want and len(k) == 4 and ((unctor(k[2]), unctor(k[3])) == (AB, BA) or (want[1] in ("+", "==") and (unctor(k[2]), unctor(k[3])) == (BA, AB)))
            verdicts = [is_good(unctor(gctx.key(g.nodes[j]["sub"]))) for j in rets]
            if rets and all(verdicts):
                r4.ok(OP + "::" + nm, g.loc(), "(*this)*rhs %s rhs*(*this)" % want[1], cfgname)
            elif any(verdicts):
                # a further return (a fast path that answers without forming the products): whether its condition implies the
                # same answer is a statement about operator algebra, not about the shape of the code -- no verdict
                other = [j for j, v_ in zip(rets, verdicts) if not v_][0]
                r4.unknown(OP + "::" + nm, g.loc(other), "%s also returns %s on a path that does not compare (*this)*rhs with rhs*(*this) (fast path not analysed)" % (nm, g.s(g.nodes[other]["sub"])[:40]), cfgname)
            else:
                r4.bad(OP + "::" + nm, g.loc(), "%s is not built as (*this)*rhs %s rhs*(*this)" % (nm, want[1]), cfgname)

    # ================================================================== R5
    r5 = chk.rule("C05-R5", "specialised N and S_z: the diagonal shortcut counts exactly the modes the polynomial form is built from", "F4 sibling agreement", 3)
    nctor = [x for x in db.fns_named(PRE + "N::N") if x.kind == "ctor" and len(x.params) == 1]
    ng = db.fn(PRE + "N::getMatrixElement", nparams=1)
    with r5.guard(PRE + "N", ng.loc(), cfgname):
        c = nctor[0]
        cctx = Ctx(c, db)
        nmodes = fld(PRE + "N::Nmodes")
        adds = [j for j, n in c.walk(c.body) if n["k"] == "call" and n.get("ck") == "op" and n.get("op") == "+="]
        poly_ok = False
        if len(adds) == 1:
            Ls = enclosing_loops(c, adds[0])
            shp = loop_shape(c, cctx, Ls[0]) if Ls else None
            ak = cctx.key(adds[0], inline=False)
            poly_ok = shp is not None and shp["kind"] == "index" and shp["start"] == ("lit", 0) and shp["rel"] == "<" and shp["bound"] in (nmodes, pk(c, 0)) and no_early_exit(shp) and \
                ak[3] == ("call", PRE + "n", shp["var"])
        gctx = Ctx(ng, db)
        ket = pk(ng, 0)
        rets = [j for j, n in ng.walk(ng.body) if n["k"] == "return"]
        rk = value_key(ng, gctx, env_at(ng, gctx), ng.nodes[rets[0]]["sub"], rets[0]) if rets else None
        site = PRE + "N:shortcut-vs-polynomial"
        if not poly_ok:
            r5.bad(site, c.loc(), "the polynomial form of N is not the sum of n(i) over all i < Nmodes", cfgname)
        elif rk == ("mcall", "boost::dynamic_bitset::count", ket):
            r5.bad(site, ng.loc(), "the polynomial form is sum_{i < Nmodes} n_i, but the shortcut returns ket.count(), the number of ALL occupied modes of the state: for a state with more modes than Nmodes "
                   "(N restricted to a subset of modes) the specialised operator and its generic form disagree", cfgname)
        else:
            # accepted: a count restricted to i < Nmodes
            good = False
            for oc in occupied_counts(ng, gctx, ket):
                shp = oc["loop"]
                if oc["sign"] != 1:
                    continue
                if shp["kind"] == "index" and shp["start"] == ("lit", 0) and oc["elem"][:2] == shp["var"][:2] and not [e for e in shp["exits"] if e[1] != "stop-condition"] and \
                        key_contains(("x", shp["bound"]) + tuple(shp.get("extra", [])), lambda y: y == nmodes):
                    b_ = shp["bound"]
                    # the bound is Nmodes itself, or min(Nmodes, ket.size()), or Nmodes with a second condition i < ket.size()
                    if b_ == nmodes or (b_[0] == "call" and b_[1].startswith("std::min") and nmodes in [strip_conv(x) for x in b_[2:]]) or shp.get("extra"):
                        good = True
            if good:
                r5.ok(site, ng.loc(), "counts the occupied modes i < Nmodes, as the polynomial sum_{i<Nmodes} n_i does", cfgname)
            else:
                raise AnalysisBroken("N::getMatrixElement(ket): shortcut form not recognised")
    sg = db.fn(PRE + "Sz::getMatrixElement", nparams=1)
    gt = db.fn(PRE + "Sz::generateTerms", nparams=0)
    with r5.guard(PRE + "Sz", sg.loc(), cfgname):
        gctx = Ctx(sg, db)
        tctx = Ctx(gt, db)
        ket = pk(sg, 0)
        up, dn = fld(PRE + "Sz::SpinUpIndices"), fld(PRE + "Sz::SpinDownIndices")
        # polynomial: += 0.5 n(up[i]), -= 0.5 n(down[i])
        terms = {}
        for j, n in gt.walk(gt.body):
            if n["k"] == "call" and n.get("ck") == "op" and n.get("op") in ("+=", "-="):
                k = tctx.key(j, inline=False)
                r = k[3]
                if r[0] == "op" and r[1] == "*":
                    fac = [x for x in r[2:] if x[0] == "lit"]
                    nn = [x for x in r[2:] if x[0] == "call" and x[1] == PRE + "n"]
                    if fac and nn and nn[0][2][0] == "op" and nn[0][2][1] == "[]":
                        terms[nn[0][2][2]] = (1 if n["op"] == "+=" else -1) * fac[0][1]
        poly_ok = terms.get(up) == 0.5 and terms.get(dn) == -0.5
        # shortcut: 0.5*(sum test(up) - sum test(down))
        rets = [j for j, n in sg.walk(sg.body) if n["k"] == "return"]
        rk = gctx.key(sg.nodes[rets[0]]["sub"], inline=False)
        counts = {}
        accexpr = {}
        U_, D_ = sp.Symbol("n_up"), sp.Symbol("n_down")
        for oc in occupied_counts(sg, gctx, ket):
            shp = oc["loop"]
            for cont in (up, dn):
                hit = False
                if covers(shp, cont) and (oc["elem"] in [x for x in __import__("pv.loops", fromlist=["element_keys"]).element_keys(shp, cont)] or
                                           (oc["elem"][0] in ("un", "op") and oc["elem"][1] == "*" and oc["elem"][2][:2] == shp["var"][:2])):
                    hit = True
                elif shp["kind"] == "other" and shp.get("var") is None:
                    # iterator declared before the loop and only advanced in the for-header:  for (; it != V.end(); it++)
                    lp = sg.nodes[shp["node"]]
                    cnd = gctx.cmp_fact(lp["c"], True) if lp.get("c") is not None else []
                    if any(x[0] == "!=" and key_contains(x, lambda y: y[0] == "mcall" and y[1].split("::")[-1] == "end" and y[2] == cont) for x in cnd):
                        hit = True
                if hit and no_early_exit(shp):
                    counts[cont] = oc["acc"]
                    accexpr.setdefault(oc["acc"], []).append((oc["node"], oc["sign"] * (U_ if cont == up else D_)))
        site = PRE + "Sz:shortcut-vs-polynomial"
        good = False
        if up in counts and dn in counts:
            # every accumulator starts at 0 and is changed by the recognised counts only; the returned expression, with each
            # accumulator replaced by the signed counts it collects, must be (n_up - n_down)/2
            F5 = Formula()
            subs_ = {}
            clean = True
            for acc, lst in accexpr.items():
                dv = gctx.decls.get(acc[1]) if acc[0] == "var" else None
                ini = strip_conv(gctx.key(dv["init"])) if dv and dv.get("init") is not None else None
                others = [m for m in gctx.mut.get(acc[1], []) if m not in [x[0] for x in lst] and m != (dv or {}).get("declnode")] if dv else [1]
                if ini not in (("lit", 0), ("lit", 0.0)) or others:
                    clean = False
                subs_[F5.atom(acc)] = sum(x[1] for x in lst)
            if clean:
                try:
                    got = F5.conv(rk).subs(subs_)
                    good = F5.equal(got, (U_ - D_) / 2)
                except AnalysisBroken:
                    good = False
        if poly_ok and good:
            r5.ok(site, sg.loc(), "0.5*(#occupied up - #occupied down) over the same index lists as +0.5 n(up_i) - 0.5 n(down_i)", cfgname)
        elif not poly_ok:
            r5.bad(site, gt.loc(), "the polynomial form of S_z is not sum_i (+1/2 n(up_i) - 1/2 n(down_i))", cfgname)
        elif key_contains(gctx.key(sg.nodes[rets[0]]["sub"]), lambda y: y == ("mcall", "boost::dynamic_bitset::count", ket)):
            r5.bad(site, sg.loc(), "the shortcut uses ket.count(), the number of ALL occupied modes of the state, while the polynomial form only involves the operator's own spin-up / spin-down index lists: "
                   "for an S_z built over a subset of the modes the specialised operator and its generic form disagree", cfgname)
        elif not (up in counts and dn in counts):
            raise AnalysisBroken("Sz::getMatrixElement(ket): the two counts over the spin-up / spin-down index lists were not recognised")
        else:
            r5.bad(site, sg.loc(), "the shortcut is not 1/2 (number of occupied spin-up indices - number of occupied spin-down indices) over the operator's own index lists: it disagrees with the polynomial form "
                   "(e.g. when the operator covers a subset of the modes)", cfgname)
    for cls in ("N", "Sz"):
        g = db.fn(PRE + cls + "::getMatrixElement", nparams=2)
        with r5.guard(PRE + cls + "::getMatrixElement(bra,ket)", g.loc(), cfgname):
            gctx = Ctx(g, db)
            bra, ket = pk(g, 0), pk(g, 1)
            site = PRE + cls + "::getMatrixElement(bra,ket)"
            diag = ("mcall", PRE + cls + "::getMatrixElement", THIS, ket)
            eq_ = ("==",) + tuple(sorted([bra, ket], key=repr))
            ne_ = ("!=",) + tuple(sorted([bra, ket], key=repr))
            cases = return_cases(g, gctx)
            if not cases:
                raise AnalysisBroken(cls + "::getMatrixElement(bra,ket): the returning paths cannot be enumerated")
            wrong = []
            for c_ in cases:
                v_ = strip_conv(unctor(c_["key"]))
                if eq_ in c_["facts"]:
                    if unctor(v_) != diag:
                        wrong.append("for bra == ket it does not return the diagonal shortcut getMatrixElement(ket)")
                elif ne_ in c_["facts"]:
                    if v_ not in (("lit", 0), ("lit", 0.0)):
                        wrong.append("for bra != ket it does not return 0")
                else:
                    raise AnalysisBroken(cls + "::getMatrixElement(bra,ket): a returning path does not decide bra == ket")
            if not wrong:
                r5.ok(site, g.loc(), "0 off the diagonal, the diagonal shortcut on it (%d cases)" % len(cases), cfgname)
            else:
                r5.bad(site, g.loc(), "off-diagonal matrix elements of a diagonal operator are not 0 / the diagonal does not use the shortcut of the same state: " + "; ".join(sorted(set(wrong))), cfgname)

    # ================================================================== R6
    r6 = chk.rule("C05-R6", "equality of polynomials compares whole monomials (sizes and all factors) and coefficients", "F8 guards", 2)
    eqs = db.fn("Pomerol::operator==", allow_many=True)
    for g in sorted(eqs, key=lambda x: x.sig):
        if not ("Operator" in g.sig or "monomials_map_t" in g.sig):
            continue
        with r6.guard(g.sig, g.loc(), cfgname):
            gctx = Ctx(g, db)
            gat = guard_facts(g, gctx)
            for j in g.calls(callee_re=r"^std::equal"):
                n = g.nodes[j]
                if len(n["args"]) != 3:
                    r6.ok("%s:std::equal" % g.sig, g.loc(j), "four-iterator std::equal compares lengths itself", cfgname)
                    continue
                k = gctx.key(j)
                a_beg, a_end, b_beg = k[2], k[3], k[4]
                ca = a_beg[2] if a_beg[0] == "mcall" else None
                cb = b_beg[2] if b_beg[0] == "mcall" else None
                site = "%s:std::equal" % g.sig
                if ca is None or cb is None:
                    raise AnalysisBroken("std::equal ranges are not begin()/end() of containers")
                # a size equality of the two ranges must hold whenever std::equal is evaluated (conjunct to its left, or dominating test)
                sizes = lambda c_: [("mcall", "std::vector::size", c_), ("mcall", "std::map::size", c_), ("mcall", "std::map::size", ("field", OP + "::monomials", c_))]
                fa = gat.get(g.cfg.pos1(j), frozenset())
                okz = any(entails(fa, ("==",) + tuple(sorted([sa, sb], key=repr))) for sa in sizes(ca) for sb in sizes(cb))
                if okz:
                    r6.ok(site, g.loc(j), "std::equal(a.begin(), a.end(), b.begin()) is evaluated only when a.size() == b.size()", cfgname)
                else:
                    r6.bad(site, g.loc(j), "std::equal(%s.begin(), %s.end(), %s.begin()) is evaluated without a.size() == b.size(): only the first a.size() factors are compared, so a shorter monomial equals any longer one "
                           "with that prefix (the constant 1 compares equal to 1*c^+_0 c_0), and a longer one reads past the end of the shorter" % (short(ca), short(ca), short(cb)), cfgname)
            # an equality written without std::equal (hand-written merge of the two ranges): wherever it answers
            # "equal" both ranges must be known to be exhausted, otherwise a polynomial equals every longer one it is a prefix of
            if not g.calls(callee_re=r"^std::equal") and len(g.params) == 2:
                pa, pb = [("param", p_["d"], p_["n"]) for p_ in g.params]
                site = "%s:hand-written-comparison" % g.sig
                trues = []
                for j, n in g.walk(g.body):
                    if n["k"] == "return" and n.get("sub") is not None:
                        rk = gctx.key(n["sub"])
                        rk = rk[2] if rk[0] == "cast" else rk
                        trues.append((j, rk))
                loops = [j for j, n in g.walk(g.body) if n["k"] in ("for", "while", "do")]
                if loops and trues:
                    def exhausted(fa, rk, P_):
                        ends = lambda k: k[0] == "mcall" and k[1].split("::")[-1] in ("end", "cend") and key_contains(k, lambda y: y == P_)
                        for x in list(fa) + ([("==", rk[2], rk[3])] if rk[0] == "op" and rk[1] == "==" and len(rk) == 4 else []):
                            if x[0] == "==" and (ends(x[1]) or ends(x[2])):
                                return True
                            if x[0] == "==" and key_contains(x[1], lambda y: y[0] == "mcall" and y[1].endswith("::size")) and key_contains(x, lambda y: y == pa) and key_contains(x, lambda y: y == pb):
                                return True
                        return False
                    verdict = None
                    for j, rk in trues:
                        if rk == ("lit", 0):
                            continue
                        fa = gat.get(g.cfg.pos1(j), frozenset())
                        ea, eb = exhausted(fa, rk, pa), exhausted(fa, rk, pb)
                        if not (ea and eb):
                            verdict = (j, "answers 'equal' at %s although %s may still have monomials that were never looked at: every polynomial equals any longer one it is a prefix of (Operator() == X for every X), so commutes() holds whenever A*B vanishes" % (
                                g.loc(j), "the right operand" if ea else ("the left operand" if eb else "either operand")))
                    if verdict:
                        r6.bad(site, g.loc(verdict[0]), verdict[1], cfgname)
                    else:
                        r6.unknown(site, g.loc(), "hand-written comparison loop: both ranges are exhausted where it answers 'equal', the element-wise part is not analysed", cfgname)
    r8 = chk.rule("C05-R8", "std::map::insert does not overwrite: every insertion into a monomial map either consults the returned flag and accumulates into the existing entry, or targets a map that is provably empty", "F1 pairing", 5)
    check_map_inserts(r8, db, cfgname)

    r7 = chk.rule("C05-R7", "the elementary generators build the monomial they are named after: c(i), c_dag(i), n(i) = c+_i c_i, n_offdiag(i,j) = c+_i c_j, each with coefficient 1", "F7 summaries (bodies evaluated on symbolic mode indices)", 4)
    check_generators(r7, db, cfgname)

    chk.undecided.append("correctness of the recursive bubble sort for every polynomial (associativity, CAR, agreement with Jordan-Wigner matrices) — needs an inductive proof, not a structural rule")


def occupied_counts(g, gctx, ket):
    """accumulations of the form  acc += ket.test(e) | ket[e]   or   if (ket.test(e)) ++acc   inside a loop over an index set.
    Returns list of dicts {acc: key, loop: shape, elem: key of e}"""
    out = []
    at_ = None
    for j, n in g.walk(g.body):
        acc = e = None
        sign = 1
        if n["k"] == "bin" and n["op"] in ("+=", "-="):
            sign = 1 if n["op"] == "+=" else -1
            rk = gctx.key(n["r"], inline=False)
            while rk[0] == "cast":
                rk = rk[2]
            if rk[0] == "mcall" and rk[1] == "boost::dynamic_bitset::test" and rk[2] == ket:
                acc, e = gctx.key(n["l"], inline=False), rk[3]
            elif rk[0] == "op" and rk[1] == "[]" and rk[2] == ket:
                acc, e = gctx.key(n["l"], inline=False), rk[3]
        elif n["k"] == "un" and n["op"] in ("++", "--"):
            sign = 1 if n["op"] == "++" else -1
            at_ = at_ or guard_facts(g, gctx)
            fa = at_.get(g.cfg.pos1(j), frozenset())
            for x in fa:
                if x[0] == "true":
                    t = x[1]
                    if t[0] == "mcall" and t[1].endswith("operator bool") and len(t) == 3:
                        t = t[2]
                    if (t[0] == "mcall" and t[1] == "boost::dynamic_bitset::test" and t[2] == ket) or (t[0] == "op" and t[1] == "[]" and t[2] == ket):
                        acc, e = gctx.key(n["sub"], inline=False), t[3]
        if acc is None:
            continue
        Ls = [L for L in enclosing_loops(g, j) if g.nodes[L]["k"] in ("for", "forrange")]
        if Ls:
            out.append({"acc": acc, "loop": loop_shape(g, gctx, Ls[0]), "elem": e, "node": j, "sign": sign})
    return out


def strip_conv(k):
    while isinstance(k, tuple) and ((k[0] == "cast" and len(k) == 3) or (k[0] == "ctor" and len(k) == 3)):
        k = k[2]
    return k


def is_sign_flip(ctx, m_):
    """x *= -1   |   x = -x   |   x = x * -1   |   x = -1 * x"""
    neg1 = (("lit", -1), ("un", "-", ("lit", 1)))
    if m_["k"] != "bin":
        return False
    if m_["op"] == "*=" and ctx.key(m_["r"]) in neg1:
        return True
    if m_["op"] == "=":
        l = ctx.key(m_["l"], inline=False)
        r = ctx.key(m_["r"], inline=False)
        if r == ("un", "-", l):
            return True
        if r == ("un", "!", l) or (r[0] == "cast" and len(r) == 3 and r[2] == ("un", "!", l)):
            return True      # parity kept as a bool: negative = !negative
        if r[0] == "op" and r[1] == "*" and len(r) == 4 and ((r[2] == l and r[3] in neg1) or (r[3] == l and r[2] in neg1)):
            return True
    return False


def stmt_before(f, a, b):
    """statement containing node a precedes the statement containing node b in their common block"""
    chain_a = [a] + list(f.ancestors(a))
    chain_b = [b] + list(f.ancestors(b))
    for x in chain_a:
        if x in chain_b and f.nodes[x]["k"] == "block":
            body = f.nodes[x]["body"]
            ia = [i for i, s_ in enumerate(body) if s_ in chain_a]
            ib = [i for i, s_ in enumerate(body) if s_ in chain_b]
            return bool(ia) and bool(ib) and ia[0] < ib[0]
    return False


def unctor(k):
    while isinstance(k, tuple) and k[0] == "ctor" and k[1] == OP and len(k) == 3:
        k = k[2]
    return k


def short(k):
    if k[0] == "field":
        return (short(k[2]) + "." if k[2][0] != "this" else "") + k[1].split("::")[-1]
    if k[0] in ("param", "var"):
        return k[2]
    return k[0]


def sign_signature(g, db):
    """(insert sign, accumulate operator, shape) of an Operator::operator+= / -= overload"""
    ctx = Ctx(g, db)
    x = pk(g, 0)
    ins = [j for j in g.calls() if strip_targs(g.nodes[j].get("cname") or "") == "std::map::insert"]
    acc = [j for j, n in g.walk(g.body) if (n["k"] == "bin" and n["op"] in ("+=", "-=")) or (n["k"] == "call" and n.get("ck") == "op" and n.get("op") in ("+=", "-=") and
           ctx.key(n["args"][0], inline=False)[0] == "field")]
    if len(ins) != 1 or len(acc) != 1:
        return None
    ik = ctx.key(g.nodes[ins[0]]["args"][0], inline=False)
    n = g.nodes[acc[0]]
    accop = n["op"]
    rk = ctx.key(n["r"] if n["k"] == "bin" else n["args"][1], inline=False)
    # inserted coefficient: last component of make_pair(..., c) or the pair itself
    sign = None
    if ik[0] in ("call", "ctor") and len(ik) >= 4:
        c = ik[-1]
        if c[0] in ("un", "op") and c[1] == "-" and len(c) == 3:
            sign = -1
        else:
            sign = +1
    elif ik[0] in ("var", "param"):
        sign = +1       # the whole (monomial, coefficient) pair of the right-hand side
    shape = (len(list(g.walk(g.body))) // 4, len(g.calls()) // 2)
    return {"insert_sign": sign, "acc_op": accop, "shape": shape}


def check_map_inserts(r8, db, cfgname):
    """Polynomials are maps monomial -> coefficient.  `insert` leaves an existing entry untouched, so a contribution that
    is inserted without looking at the returned `inserted` flag is lost whenever the monomial is already present."""
    scope = [x for x in db.fns.values() if (x.rec == OP or x.qn.startswith(PRE)) and x.body is not None and x.body >= 0]
    for g in sorted(scope, key=lambda y: (y.file, y.line, y.mangled)):
        gctx = Ctx(g, db)
        at = None
        ins = [j for j, n in g.walk(g.body) if n["k"] == "call" and n.get("ck") == "method" and strip_targs(n.get("cname") or "") == "std::map::insert"
               and n.get("obj") is not None and (g.nodes[n["obj"]].get("t") or "").replace("const ", "").startswith("std::map<") and "Operator::op_type" in (g.nodes[n["obj"]].get("t") or "")]
        for j in ins:
            n = g.nodes[j]
            site = "%s/%s:insert@%s" % (g.qn, g.params[0]["tw"] if g.params else "", g.loc(j).rsplit(":", 1)[-1])
            tk = gctx.key(n["obj"], inline=False)
            # (a) the result is kept and its flag is branched on, the not-inserted branch accumulating into it->second
            par = g.parent_map().get(j)
            kept = False
            p_ = par
            for _ in range(4):
                if p_ is None:
                    break
                pn = g.nodes[p_]
                if (pn["k"] == "bin" and pn["op"] == "=") or (pn["k"] == "call" and pn.get("ck") == "op" and pn.get("op") == "=") or pn["k"] == "decl":
                    kept = True
                    break
                p_ = g.parent_map().get(p_)
            if kept:
                sib = stmts_of(g, g.parent_map().get(p_)) if g.parent_map().get(p_) is not None else []
                nxt = sib[sib.index(p_) + 1] if p_ in sib and sib.index(p_) + 1 < len(sib) else None
                acc = False
                if nxt is not None and g.nodes[nxt]["k"] == "if":
                    for jj, nn in g.walk(nxt):
                        if (nn["k"] == "bin" and nn["op"] in ("+=", "-=")) or (nn["k"] == "call" and nn.get("ck") == "op" and nn.get("op") in ("+=", "-=")):
                            acc = True
                if acc:
                    r8.ok(site, g.loc(j), "the returned flag is consulted and an existing entry is accumulated into", cfgname)
                else:
                    r8.unknown(site, g.loc(j), "the result of insert is kept but the handling of an existing entry is not recognised", cfgname)
                continue
            # (b) the map is a local that is empty at this point: declared in this function, no other insertion / element write
            # before, and the insertion is not inside a loop
            from pv.loops import enclosing_loops
            fresh = tk[0] == "var" or (tk[0] == "field" and tk[2][0] == "var")
            root = tk if tk[0] == "var" else (tk[2] if tk[0] == "field" else None)
            others = [x for x in ins if x != j and gctx.key(g.nodes[x]["obj"], inline=False) == tk]
            if fresh and root is not None and gctx.decls.get(root[1]) is not None and not enclosing_loops(g, j) and not others:
                dv = gctx.decls[root[1]]
                copied = dv.get("init") is not None and g.nodes[dv["init"]]["k"] == "construct" and g.nodes[dv["init"]].get("args")
                if not copied:
                    r8.ok(site, g.loc(j), "single insertion into a freshly constructed (empty) polynomial", cfgname)
                    continue
            r8.bad(site, g.loc(j), "a contribution is put into the map with insert() and the returned flag is ignored%s: if the monomial is already present the contribution is silently dropped" % (
                " inside a loop" if enclosing_loops(g, j) else ""), cfgname)



def check_generators(r7, db, cfgname):
    """The four free functions every operator is built from are straight-line: their extracted bodies are evaluated on
    distinct mode indices and the resulting monomial map is compared with the documented monomial."""
    from pv.summ import Interp, Obj, Thrown
    OPQ = "Pomerol::Operator::"
    enum = {}
    rec = db.records.get("Pomerol::Operator")
    for f in db.fns.values():
        if f.qn in (PRE + "c", PRE + "c_dag"):
            for j, n in f.walk(f.body):
                if n["k"] == "ref" and n.get("dk") == "enumerator":
                    enum[n.get("n") or n.get("q", "").split("::")[-1]] = n["v"]
    if set(enum) != {"creation", "annihilation"} or enum["creation"] == enum["annihilation"]:
        raise AnalysisBroken("the enumerators creation / annihilation were not found in c() / c_dag(): %s" % (enum,))
    CR, AN = enum["creation"], enum["annihilation"]
    want = {"c": (1, lambda a: ((AN, a[0]),)), "c_dag": (1, lambda a: ((CR, a[0]),)),
            "n": (1, lambda a: ((CR, a[0]), (AN, a[0]))), "n_offdiag": (2, lambda a: ((CR, a[0]), (AN, a[1])))}
    for name, (npar, mono) in sorted(want.items()):
        f = db.fn(PRE + name, nparams=npar)
        site = PRE + name
        with r7.guard(site, f.loc(), cfgname):
            args = [5, 9][:npar]
            ip = Interp(db, {"construct Pomerol::Operator": lambda fr, i, a: Obj("Operator", **{OPQ + "monomials": {}})})
            try:
                got = ip.call_fn(f, list(args))
            except Thrown as t:
                raise AnalysisBroken("%s throws %s" % (name, t.tt))
            if not isinstance(got, Obj) or OPQ + "monomials" not in got.f:
                raise AnalysisBroken("%s does not return an Operator built in place" % name)
            m = {tuple(tuple(x) for x in k): v for k, v in got.f[OPQ + "monomials"].items()}
            exp = {mono(args): 1}
            show = lambda d: " + ".join("%s %s" % (v, " ".join(("c+" if t_ == CR else "c") + "_%s" % {5: "i", 9: "j"}.get(ix, ix) for t_, ix in k)) for k, v in d.items()) or "0"
            if m == exp or {k: float(v) for k, v in m.items()} == {k: 1.0 for k in exp}:
                r7.ok(site, f.loc(), "== " + show(exp), cfgname)
            else:
                r7.bad(site, f.loc(), "%s(%s) builds %s, it must be %s" % (name, ", ".join("ij"[:npar]), show(m), show(exp)), cfgname)



if __name__ == "__main__":
    run_check("C05", "symbolic operator algebra: structural conditions", body)
