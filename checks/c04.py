"""C04 — lattice terms and presets produce the documented Hamiltonian (DESIGN.md §3 C04).

What is decided (statically, from the extracted skeleton of the preset code):
  R1  every Lattice::Term::Presets factory builds the monomial written in its documentation
  R2  every LatticePresets::add* emits the documented sum (emission structure == reviewed reference records;
      where the structure was changed the expansion of the extracted summary on bounded layouts decides and
      provides the witness)
  R3  addHopping inserts the Hermitian conjugate (conj(t) in the complex configuration)
  R4  lattice terms are stored and translated factor by factor, left to right, scaled by Value
  R5  algebraic consequences of the extracted summaries on bounded layouts: Hermiticity, SU(2) invariance of
      Kanamori (U' = U - 2J) and of the spin-spin exchange
Not decided: the Fock-space matrix itself (goes through Operator, C05, and HamiltonianPart, C03); layouts larger
than the bounded ones when the emission structure differs from the reference."""
import itertools

import sympy as sp

from pv.check import run_check
from pv.expr import Ctx
from pv.facts import AnalysisBroken, strip_targs
from pv.loops import enclosing_loops, loop_shape
from pv.summ import DMap, Interp, Obj, Thrown, clone
from checks.lehmann import fld, THIS

LP = "Pomerol::LatticePresets::"
TP = "Pomerol::Lattice::Term::Presets::"
T_ = "Pomerol::Lattice::Term::"
SITE = "Pomerol::Lattice::Site::"
UP, DOWN = 1, 0


# ====================================================================== independent fermion algebra
def normal_order(mono, coeff=1):
    """mono: tuple of (dag, idx).  Returns {normal-ordered monomial: coefficient} using {c_i, c+_j} = delta_ij.
    Normal order: creators first (ascending index), then annihilators (ascending index)."""
    out = {}
    work = [(tuple(mono), sp.sympify(coeff))]
    while work:
        m, c = work.pop()
        if c == 0:
            continue
        for p in range(len(m) - 1):
            (da, ia), (db_, ib) = m[p], m[p + 1]
            if da == db_:
                if ia == ib:
                    m = None
                    break
                if ia > ib:
                    work.append((m[:p] + (m[p + 1], m[p]) + m[p + 2:], -c))
                    m = None
                    break
            elif not da and db_:
                # c_a c+_b = delta_ab - c+_b c_a
                if ia == ib:
                    work.append((m[:p] + m[p + 2:], c))
                work.append((m[:p] + (m[p + 1], m[p]) + m[p + 2:], -c))
                m = None
                break
        if m is not None:
            out[m] = out.get(m, 0) + c
    return {k: v for k, v in out.items() if sp.expand(v) != 0}


def padd(a, b, s=1):
    out = dict(a)
    for k, v in b.items():
        out[k] = out.get(k, 0) + s * v
    return {k: sp.expand(v) for k, v in out.items() if sp.expand(v) != 0}


def pmul(a, b):
    out = {}
    for ka, va in a.items():
        for kb, vb in b.items():
            for k, v in normal_order(ka + kb, va * vb).items():
                out[k] = out.get(k, 0) + v
    return {k: sp.expand(v) for k, v in out.items() if sp.expand(v) != 0}


def pdag(a):
    out = {}
    for k, v in a.items():
        for k2, v2 in normal_order(tuple((not d, i) for d, i in reversed(k)), sp.conjugate(v)).items():
            out[k2] = out.get(k2, 0) + v2
    return {k: sp.expand(v) for k, v in out.items() if sp.expand(v) != 0}


def pcomm(a, b):
    return padd(pmul(a, b), pmul(b, a), -1)


def P(mono, coeff=1):
    return normal_order(tuple(mono), coeff)


def cdag(i):
    return (True, i)


def cann(i):
    return (False, i)


def n_(i):
    return (cdag(i), cann(i))


def psum(items):
    out = {}
    for it in items:
        out = padd(out, it)
    return out


def show_poly(p):
    if not p:
        return "0"
    def mono(m):
        return " ".join(("c+" if d else "c") + "(%s,%s,%s)" % i for d, i in m) or "1"
    return " + ".join("(%s) %s" % (v, mono(k)) for k, v in sorted(p.items(), key=lambda kv: repr(kv[0]))[:6]) + (" + ..." if len(p) > 6 else "")


# ====================================================================== the lattice model of the interpreter
TS = "Pomerol::Lattice::TermStorage::"


def make_lattice(layout):
    sites = {lab: Obj("Site", **{SITE + "Label": lab, SITE + "OrbitalSize": o, SITE + "SpinSize": s}) for lab, (o, s) in layout.items()}
    storage = Obj("TermStorage", **{TS + "Terms": DMap(list), TS + "MaxTermOrder": 0})
    return Obj("Lattice", **{"Pomerol::Lattice::Sites": sites, "Pomerol::Lattice::Terms": storage})


def new_term(fr, i, args):
    if len(args) == 1 and isinstance(args[0], Obj) and args[0].cls == "Term":
        return clone(args[0])          # new Term(*T): the copy constructor is checked field by field in C04-R4
    ini = fr.nodes[i].get("init")
    ctor = fr.ip.db.callee_fn(fr.nodes[ini]) if ini is not None and fr.nodes[ini]["k"] == "construct" else None
    if ctor is not None and ctor.body is not None and ctor.body >= 0 and not fr.nodes[ini].get("copy"):
        # the constructor that is actually called is interpreted on an empty record
        o = Obj("Term", **{T_ + "N": 0, T_ + "OperatorSequence": [], T_ + "SiteLabels": [], T_ + "Spins": [], T_ + "Orbitals": [], T_ + "Value": sp.Integer(0)})
        return fr.ip.run_ctor(ctor, args, o)
    if len(args) != 1 or not isinstance(args[0], int):
        fr.bad(i, "new Term(...) with unexpected arguments")
    N = args[0]
    return Obj("Term", **{T_ + "N": N, T_ + "OperatorSequence": [0] * N, T_ + "SiteLabels": [""] * N, T_ + "Spins": [0] * N, T_ + "Orbitals": [0] * N, T_ + "Value": sp.Integer(0)})


# --- Operator algebra primitives used when IndexHamiltonian::prepare is interpreted (independent model of Operator)
def _opobj(poly=None):
    return Obj("Operator", poly=dict(poly or {}))


def op_default(fr, i, args):
    return _opobj()


def op_cdag(fr, i, obj, args):
    return _opobj(P([cdag(args[0])]))


def op_c(fr, i, obj, args):
    return _opobj(P([cann(args[0])]))


def op_n(fr, i, obj, args):
    return _opobj(P([cdag(args[0]), cann(args[0])]))


def op_noffdiag(fr, i, obj, args):
    # OperatorPresets::n_offdiag(i, j) = c+_i c_j (its own body is part of C05, here it is a primitive of the algebra model)
    return _opobj(P([cdag(args[0]), cann(args[1])]))


def op_isempty(fr, i, obj, args):
    return len(obj.f["poly"]) == 0


def op_imul(fr, i, obj, args):
    a, b = ([obj] + list(args)) if obj is not None else args
    if isinstance(b, Obj):
        a.f["poly"] = pmul(a.f["poly"], b.f["poly"])
    else:
        # Operator::operator*=(MelemType): scales every coefficient (a negligible factor clears the polynomial)
        a.f["poly"] = {k: sp.expand(b * v) for k, v in a.f["poly"].items() if sp.expand(b * v) != 0}
    return a


def op_iadd(fr, i, obj, args):
    a, b = ([obj] + list(args)) if obj is not None else args
    a.f["poly"] = padd(a.f["poly"], b.f["poly"])
    return a


def op_scal(fr, i, obj, args):
    a, b = args
    if isinstance(a, Obj) and isinstance(b, Obj):
        return _opobj(pmul(a.f["poly"], b.f["poly"]))
    if isinstance(a, Obj):
        a, b = b, a
    return _opobj({k: sp.expand(a * v) for k, v in b.f["poly"].items() if sp.expand(a * v) != 0})


def op_assign(fr, i, obj, args):
    a, b = ([obj] + list(args)) if obj is not None else args
    a.f["poly"] = dict(b.f["poly"])
    return a


def get_index(fr, i, obj, args):
    return tuple(args)


PRIMS = {"new Pomerol::Lattice::Term": new_term,
         "construct Pomerol::Operator": op_default,
         "Pomerol::OperatorPresets::c_dag": op_cdag, "Pomerol::OperatorPresets::c": op_c,
         "Pomerol::OperatorPresets::n": op_n, "Pomerol::OperatorPresets::n_offdiag": op_noffdiag,
         "Pomerol::Operator::isEmpty": op_isempty, "Pomerol::Operator::operator*=": op_imul, "Pomerol::Operator::operator+=": op_iadd,
         "Pomerol::operator*": op_scal, "boost::operators_impl::operator*": op_scal, "Pomerol::Operator::operator=": op_assign,
         "Pomerol::IndexClassification::getIndex": get_index}


def term_poly(t, where):
    f = t.f
    N = f[T_ + "N"]
    seq, labs, orbs, spins = f[T_ + "OperatorSequence"], f[T_ + "SiteLabels"], f[T_ + "Orbitals"], f[T_ + "Spins"]
    if not (len(seq) == len(labs) == len(orbs) == len(spins) == N):
        raise Thrown("a term whose arrays do not have N entries", where)
    return P([(bool(seq[k]), (labs[k], orbs[k], spins[k])) for k in range(N)], f[T_ + "Value"])


def stored_terms(L):
    st = L.f["Pomerol::Lattice::Terms"].f[TS + "Terms"]
    return [t for order in sorted(st) for t in st[order]]


def lattice_poly(L):
    return psum(term_poly(t, "(stored term)") for t in stored_terms(L))


# ====================================================================== documented operators (include/pomerol/LatticePresets.h)
def doc_factory(name, a):
    """documented monomial of factory `name` called with argument list a; None = documented as invalid"""
    if name == "Hopping/7":
        L1, L2, V, o1, o2, s1, s2 = a
        return P([cdag((L1, o1, s1)), cann((L2, o2, s2))], V)
    if name == "Hopping/5":
        L1, L2, V, o, s = a
        return P([cdag((L1, o, s)), cann((L2, o, s))], V)
    if name == "Level/4":
        L, V, o, s = a
        return P(n_((L, o, s)), V)
    if name == "NupNdown/7":
        L1, L2, V, o1, o2, s1, s2 = a
        return P(n_((L1, o1, s1)) + n_((L2, o2, s2)), V)
    if name == "NupNdown/6":
        L, V, o1, o2, s1, s2 = a
        return P(n_((L, o1, s1)) + n_((L, o2, s2)), V)
    if name == "NupNdown/4":
        L, V, o1, o2 = a
        return P(n_((L, o1, UP)) + n_((L, o2, DOWN)), V)
    if name == "NupNdown/5":
        L, V, o, s1, s2 = a
        return P(n_((L, o, s1)) + n_((L, o, s2)), V)
    if name == "Spinflip/6":
        L, V, o1, o2, s1, s2 = a
        if o1 == o2 or s1 == s2:
            return None
        return P([cdag((L, o1, s1)), cdag((L, o2, s2)), cann((L, o2, s1)), cann((L, o1, s2))], V)
    if name == "PairHopping/6":
        L, V, o1, o2, s1, s2 = a
        if o1 == o2 or s1 == s2:
            return None
        return P([cdag((L, o1, s1)), cdag((L, o1, s2)), cann((L, o2, s1)), cann((L, o2, s2))], V)
    if name == "SplusSminus/4":
        L1, L2, V, o = a
        return P([cdag((L1, o, UP)), cann((L1, o, DOWN)), cdag((L2, o, DOWN)), cann((L2, o, UP))], V)
    if name == "SminusSplus/4":
        L1, L2, V, o = a
        return P([cdag((L1, o, DOWN)), cann((L1, o, UP)), cdag((L2, o, UP)), cann((L2, o, DOWN))], V)
    raise AnalysisBroken("no documented monomial for factory " + name)


def sizes(layout, lab):
    return layout[lab]


def doc_preset(name, layout, a, complex_cfg):
    """documented operator of preset `name` (arguments a, without the lattice) on `layout`;
    None = the documentation restricts the preset to other layouts / arguments"""
    def orbs(l):
        return range(layout[l][0])

    def spins(l):
        return range(layout[l][1])
    cj = (lambda x: sp.conjugate(x)) if complex_cfg else (lambda x: x)
    if name == "addCoulombS/4":
        l, U, eps = a
        return psum([P(n_((l, o, s)) + n_((l, o, s2)), U) for o in orbs(l) for s in spins(l) for s2 in spins(l) if s > s2] +
                    [P(n_((l, o, s)), eps) for o in orbs(l) for s in spins(l)])
    if name in ("addCoulombP/6", "addCoulombP/5"):
        if name == "addCoulombP/5":
            l, U, J, eps = a
            Up = U - 2 * J
        else:
            l, U, Up, J, eps = a
        if layout[l][0] <= 1 or layout[l][1] <= 1:
            return None
        t = []
        for o in orbs(l):
            for s in spins(l):
                t.append(P(n_((l, o, s)), eps))
                for s2 in spins(l):
                    if s > s2:
                        t.append(P(n_((l, o, s)) + n_((l, o, s2)), U))
                for o2 in orbs(l):
                    if o2 == o:
                        continue
                    t.append(P(n_((l, o, s)) + n_((l, o2, s)), (Up - J) / 2))
                    for s2 in spins(l):
                        if s > s2:
                            t.append(P(n_((l, o, s)) + n_((l, o2, s2)), Up))
                            t.append(P([cdag((l, o, s)), cdag((l, o2, s2)), cann((l, o2, s)), cann((l, o, s2))], -J))
                            t.append(P([cdag((l, o2, s)), cdag((l, o2, s2)), cann((l, o, s)), cann((l, o, s2))], -J))
        return psum(t)
    if name == "addLevel/3":
        l, eps = a
        return psum(P(n_((l, o, s)), eps) for o in orbs(l) for s in spins(l))
    if name == "addMagnetization/3":
        l, mH = a
        if layout[l][1] != 2:
            return None
        # documented (after the D12 documentation fix): sum_alpha mH (n_up - n_down) = 2 mH S_z
        return psum([P(n_((l, o, UP)), mH) for o in orbs(l)] + [P(n_((l, o, DOWN)), -mH) for o in orbs(l)])
    if name in ("addSzSz/4", "addSS/4"):
        l1, l2, J = a
        if layout[l1] != layout[l2] or layout[l1][1] != 2:
            return None

        def sz(l, o):
            return padd(P(n_((l, o, UP)), sp.Rational(1, 2)), P(n_((l, o, DOWN)), -sp.Rational(1, 2)))

        def splus(l, o):
            return P([cdag((l, o, UP)), cann((l, o, DOWN))])

        def sminus(l, o):
            return P([cdag((l, o, DOWN)), cann((l, o, UP))])
        t = []
        for o in orbs(l1):
            zz = pmul(sz(l1, o), sz(l2, o))
            t.append({k: J * v for k, v in zz.items()})
            if name == "addSS/4":
                pm = padd(pmul(splus(l1, o), sminus(l2, o)), pmul(sminus(l1, o), splus(l2, o)))
                t.append({k: J / 2 * v for k, v in pm.items()})
        return psum(t)
    if name in ("addHopping/8", "addHopping/7", "addHopping/6", "addHopping/4"):
        if name == "addHopping/8":
            l1, l2, t_, o1, o2, s1, s2 = a
            pairs = [((o1, s1), (o2, s2))]
            if o1 >= layout[l1][0] or o2 >= layout[l2][0] or s1 >= layout[l1][1] or s2 >= layout[l2][1]:
                return None
        elif name == "addHopping/7":
            l1, l2, t_, o1, o2, s = a
            pairs = [((o1, s), (o2, s))]
            if o1 >= layout[l1][0] or o2 >= layout[l2][0] or s >= layout[l1][1] or s >= layout[l2][1]:
                return None
        elif name == "addHopping/6":
            l1, l2, t_, o1, o2 = a
            if o1 >= layout[l1][0] or o2 >= layout[l2][0] or layout[l1][1] != layout[l2][1]:
                return None
            pairs = [((o1, s), (o2, s)) for s in spins(l1)]
        else:
            l1, l2, t_ = a
            if layout[l1] != layout[l2]:
                return None
            pairs = [((o, s), (o, s)) for s in spins(l1) for o in orbs(l1)]
        return psum([P([cdag((l1,) + x), cann((l2,) + y)], t_) for x, y in pairs] + [P([cdag((l2,) + y), cann((l1,) + x)], cj(t_)) for x, y in pairs])
    raise AnalysisBroken("no documented operator for preset " + name)


# ====================================================================== emission records (structure of a preset)
def _nm(k):
    if not isinstance(k, tuple):
        return str(k)
    t = k[0]
    if t in ("var", "param"):
        return k[2]
    if t == "lit":
        return repr(k[1]) if isinstance(k[1], str) else str(k[1])
    if t == "enum":
        return k[1].split("::")[-1]
    if t == "field":
        return "%s.%s" % (_nm(k[2]), k[1].split("::")[-1])
    if t == "op" and len(k) == 4:
        if k[1] == "[]":
            return "%s[%s]" % (_nm(k[2]), _nm(k[3]))
        return "(%s %s %s)" % (_nm(k[2]), k[1], _nm(k[3]))
    if t in ("un",) or (t == "op" and len(k) == 3):
        return "%s%s" % (k[1], _nm(k[2]))
    if t == "call":
        return "%s(%s)" % (k[1].split("::")[-1], ", ".join(_nm(x) for x in k[2:]))
    if t == "mcall":
        return "%s.%s(%s)" % (_nm(k[2]), k[1].split("::")[-1], ", ".join(_nm(x) for x in k[3:]))
    if t == "cast":
        return _nm(k[2])
    if t == "this":
        return "this"
    return t + "(" + ", ".join(_nm(x) for x in k[1:]) + ")"


def records(f, db):
    """normalised emission records of preset f: one line per addTerm / forwarding call with its enclosing loops and guards"""
    ctx = Ctx(f, db)
    pm = f.parent_map()
    out = []
    for j, n in f.walk(f.body):
        if n["k"] != "call":
            continue
        cn = strip_targs(n.get("cname") or "")
        if not (cn in ("Pomerol::Lattice::TermStorage::addTerm", "Pomerol::Lattice::addTerm") or cn.startswith(LP)):
            continue
        # enclosing structure, outermost first
        path = []
        names = {}
        child, cur = j, pm.get(j)
        chain = []
        while cur is not None:
            chain.append((cur, child))
            child, cur = cur, pm.get(cur)
        for cur, child in reversed(chain):
            cnode = f.nodes[cur]
            if cnode["k"] == "for" and child == cnode.get("body"):
                sh = loop_shape(f, ctx, cur)
                if sh["kind"] != "index" or sh["exits"]:
                    raise AnalysisBroken("%s: loop at %s is not a plain index loop" % (f.qn, f.loc(cur)))
                names[sh["var"][1]] = "v%d" % len(names)
                path.append(("for", sh["var"], sh["start"], sh["rel"], sh["bound"]))
            elif cnode["k"] == "if" and child in (cnode.get("then"), cnode.get("else")):
                path.append(("if" if child == cnode.get("then") else "ifnot", ctx.key(cnode["c"])))
            elif cnode["k"] in ("while", "do", "switch"):
                raise AnalysisBroken("%s: emission under a %s statement" % (f.qn, cnode["k"]))

        def ren(k):
            from pv.expr import key_subst
            return key_subst(k, lambda x: ("var", x[1], names[x[1]]) if x[0] == "var" and x[1] in names else None)
        parts = []
        for p in path:
            if p[0] == "for":
                parts.append("for %s in [%s, %s%s)" % (names[p[1][1]], _nm(ren(p[2])), _nm(ren(p[4])), "" if p[3] == "<" else "+1"))
            else:
                parts.append("%s %s" % (p[0], _nm(ren(p[1]))))
        k = ren(ctx.key(j))
        if cn.startswith(LP):
            what = "%s(%s)" % (cn.split("::")[-1], ", ".join(_nm(x) for x in k[2:]))
        else:
            arg = k[3] if len(k) > 3 else None
            via = "storage" if cn.endswith("TermStorage::addTerm") else "checked"
            what = "%s <- %s" % (via, _nm(arg))
        out.append(" | ".join(parts + [what]))
    # preconditions: top-level guards that throw
    pre = []
    body = f.nodes[f.body]
    for s in body.get("body", []):
        sn = f.nodes[s]
        if sn["k"] == "if" and sn.get("else") is None and any(m["k"] == "throw" for _, m in f.walk(sn["then"])):
            pre.append("require not " + _nm(ctx.key(sn["c"])))
    return pre + out


# emission records of the reviewed tree (each line was compared with the formula in include/pomerol/LatticePresets.h;
# in the complex configuration the conjugate hopping term carries conj(t))
REFERENCE = {
    "addCoulombS/4": [
        'require not (L.Sites.find(Label) == L.Sites.end())',
        'for v0 in [0, L.Sites[Label].OrbitalSize) | for v1 in [0, L.Sites[Label].SpinSize) | if abs(Level) | storage <- Level(Label, Level, v0, v1)',
        'for v0 in [0, L.Sites[Label].OrbitalSize) | for v1 in [0, L.Sites[Label].SpinSize) | for v2 in [0, v1) | if abs(U) | storage <- NupNdown(Label, U, v0, v0, v1, v2)',
    ],
    "addCoulombP/6": [
        'require not (L.Sites.find(Label) == L.Sites.end())',
        'require not ((L.Sites[Label].OrbitalSize <= 1) || (L.Sites[Label].SpinSize <= 1))',
        'for v0 in [0, L.Sites[Label].OrbitalSize) | for v1 in [0, L.Sites[Label].SpinSize) | if abs(Level) | storage <- Level(Label, Level, v0, v1)',
        'for v0 in [0, L.Sites[Label].OrbitalSize) | for v1 in [0, L.Sites[Label].SpinSize) | for v2 in [0, L.Sites[Label].OrbitalSize) | if (v0 != v2) | storage <- NupNdown(Label, ((U_p - J) / 2), v0, v2, v1, v1)',
        'for v0 in [0, L.Sites[Label].OrbitalSize) | for v1 in [0, L.Sites[Label].SpinSize) | for v2 in [0, v1) | if abs(U) | storage <- NupNdown(Label, U, v0, v0, v1, v2)',
        'for v0 in [0, L.Sites[Label].OrbitalSize) | for v1 in [0, L.Sites[Label].SpinSize) | for v2 in [0, v1) | for v3 in [0, L.Sites[Label].OrbitalSize) | if (v0 != v3) | if abs(U_p) | storage <- NupNdown(Label, U_p, v0, v3, v1, v2)',
        'for v0 in [0, L.Sites[Label].OrbitalSize) | for v1 in [0, L.Sites[Label].SpinSize) | for v2 in [0, v1) | for v3 in [0, L.Sites[Label].OrbitalSize) | if (v0 != v3) | if abs(J) | storage <- Spinflip(Label, -J, v0, v3, v1, v2)',
        'for v0 in [0, L.Sites[Label].OrbitalSize) | for v1 in [0, L.Sites[Label].SpinSize) | for v2 in [0, v1) | for v3 in [0, L.Sites[Label].OrbitalSize) | if (v0 != v3) | if abs(J) | storage <- PairHopping(Label, -J, v0, v3, v1, v2)',
    ],
    "addCoulombP/5": [
        'addCoulombP(L, Label, U, (U - (2 * J)), J, Level)',
    ],
    "addLevel/3": [
        'require not (L.Sites.find(Label) == L.Sites.end())',
        'for v0 in [0, L.Sites[Label].OrbitalSize) | for v1 in [0, L.Sites[Label].SpinSize) | if abs(Level) | storage <- Level(Label, Level, v0, v1)',
    ],
    "addMagnetization/3": [
        'require not (L.Sites.find(Label) == L.Sites.end())',
        'require not (L.Sites[Label].SpinSize != 2)',
        'for v0 in [0, L.Sites[Label].OrbitalSize) | storage <- Level(Label, Magnetization, v0, up)',
        'for v0 in [0, L.Sites[Label].OrbitalSize) | storage <- Level(Label, -Magnetization, v0, down)',
    ],
    "addSzSz/4": [
        'require not (L.Sites.find(Label1) == L.Sites.end())',
        'require not (L.Sites.find(Label2) == L.Sites.end())',
        'require not ((L.Sites[Label1].OrbitalSize != L.Sites[Label2].OrbitalSize) || (L.Sites[Label1].SpinSize != L.Sites[Label2].SpinSize))',
        'require not (L.Sites[Label1].SpinSize != 2)',
        'for v0 in [0, L.Sites[Label1].OrbitalSize) | storage <- NupNdown(Label1, Label2, (-ExchJ / 4), v0, v0, up, down)',
        'for v0 in [0, L.Sites[Label1].OrbitalSize) | storage <- NupNdown(Label1, Label2, (-ExchJ / 4), v0, v0, down, up)',
        'for v0 in [0, L.Sites[Label1].OrbitalSize) | if (Label1 != Label2) | storage <- NupNdown(Label1, Label2, (ExchJ / 4), v0, v0, up, up)',
        'for v0 in [0, L.Sites[Label1].OrbitalSize) | if (Label1 != Label2) | storage <- NupNdown(Label1, Label2, (ExchJ / 4), v0, v0, down, down)',
        'for v0 in [0, L.Sites[Label1].OrbitalSize) | ifnot (Label1 != Label2) | storage <- Level(Label1, (ExchJ / 4), v0, up)',
        'for v0 in [0, L.Sites[Label1].OrbitalSize) | ifnot (Label1 != Label2) | storage <- Level(Label1, (ExchJ / 4), v0, down)',
    ],
    "addSS/4": [
        'require not (L.Sites.find(Label1) == L.Sites.end())',
        'require not (L.Sites.find(Label2) == L.Sites.end())',
        'require not ((L.Sites[Label1].OrbitalSize != L.Sites[Label2].OrbitalSize) || (L.Sites[Label1].SpinSize != L.Sites[Label2].SpinSize))',
        'require not (L.Sites[Label1].SpinSize != 2)',
        'addSzSz(L, Label1, Label2, ExchJ)',
        'for v0 in [0, L.Sites[Label1].OrbitalSize) | storage <- SplusSminus(Label1, Label2, (ExchJ / 2), v0)',
        'for v0 in [0, L.Sites[Label1].OrbitalSize) | storage <- SminusSplus(Label1, Label2, (ExchJ / 2), v0)',
    ],
    "addHopping/8": [
        'require not (L.Sites.find(Label1) == L.Sites.end())',
        'require not (L.Sites.find(Label2) == L.Sites.end())',
        'require not ((((Orbital1 >= L.Sites[Label1].OrbitalSize) || (Orbital2 >= L.Sites[Label2].OrbitalSize)) || (Spin1 >= L.Sites[Label1].SpinSize)) || (Spin2 >= L.Sites[Label2].SpinSize))',
        'checked <- Hopping(Label1, Label2, t, Orbital1, Orbital2, Spin1, Spin2)',
        'checked <- Hopping(Label2, Label1, t, Orbital2, Orbital1, Spin2, Spin1)',
    ],
    "addHopping/7": [
        'addHopping(L, Label1, Label2, t, Orbital1, Orbital2, Spin, Spin)',
    ],
    "addHopping/6": [
        'require not (L.Sites.find(Label1) == L.Sites.end())',
        'require not (L.Sites.find(Label2) == L.Sites.end())',
        'require not ((Orbital1 >= L.Sites[Label1].OrbitalSize) || (Orbital2 >= L.Sites[Label2].OrbitalSize))',
        'require not (L.Sites[Label1].SpinSize != L.Sites[Label2].SpinSize)',
        'for v0 in [0, L.Sites[Label1].SpinSize) | addHopping(L, Label1, Label2, t, Orbital1, Orbital2, v0, v0)',
    ],
    "addHopping/4": [
        'require not (L.Sites.find(Label1) == L.Sites.end())',
        'require not (L.Sites.find(Label2) == L.Sites.end())',
        'require not ((L.Sites[Label1].OrbitalSize != L.Sites[Label2].OrbitalSize) || (L.Sites[Label1].SpinSize != L.Sites[Label2].SpinSize))',
        'for v0 in [0, L.Sites[Label1].SpinSize) | for v1 in [0, L.Sites[Label1].OrbitalSize) | addHopping(L, Label1, Label2, t, v1, v1, v0, v0)',
    ],
}


# ====================================================================== layouts and argument enumeration
def amp(name, complex_cfg, cplx=False):
    return sp.Symbol(name, complex=True) if (cplx and complex_cfg) else sp.Symbol(name, real=True)


def preset_cases(pname, complex_cfg, thorough):
    """(layout, argument list without the lattice) for the bounded expansion of preset pname"""
    omax = 4 if thorough else 3
    smax = 3
    out = []

    def amps(names, cplx=()):
        syms = [amp(x, complex_cfg, x in cplx) for x in names]
        res = []
        for mask in itertools.product((1, 0), repeat=len(names)):
            res.append([s if m else sp.Integer(0) for s, m in zip(syms, mask)])
        return res
    if pname in ("addCoulombS/4", "addLevel/3", "addMagnetization/3", "addCoulombP/6", "addCoulombP/5"):
        nm = {"addCoulombS/4": ["U", "eps"], "addLevel/3": ["eps"], "addMagnetization/3": ["mH"], "addCoulombP/6": ["U", "Up", "J", "eps"], "addCoulombP/5": ["U", "J", "eps"]}[pname]
        for o in range(1, omax + 1):
            for s in range(1, smax + 1):
                if pname.startswith("addCoulombP") and o * s > (8 if thorough else 6):
                    continue
                for av in amps(nm):
                    out.append(({"A": (o, s)}, ["A"] + av))
    elif pname in ("addSzSz/4", "addSS/4"):
        for o in range(1, omax + 1):
            for same in (False, True):
                for av in amps(["J"]):
                    lay = {"A": (o, 2)} if same else {"A": (o, 2), "B": (o, 2)}
                    out.append((lay, ["A", "A" if same else "B"] + av))
    elif pname == "addHopping/4":
        for o in range(1, omax + 1):
            for s in range(1, smax + 1):
                for same in (False, True):
                    for av in amps(["t"], cplx=("t",)):
                        lay = {"A": (o, s)} if same else {"A": (o, s), "B": (o, s)}
                        out.append((lay, ["A", "A" if same else "B"] + av))
    elif pname in ("addHopping/8", "addHopping/7", "addHopping/6"):
        t = amp("t", complex_cfg, True)
        for (oa, sa, ob, sb) in ((2, 2, 2, 2), (1, 2, 3, 2), (3, 1, 2, 1), (2, 3, 2, 3)):
            for same in (False, True):
                lay = {"A": (oa, sa)} if same else {"A": (oa, sa), "B": (ob, sb)}
                la, lb = "A", ("A" if same else "B")
                for o1 in range(lay[la][0]):
                    for o2 in range(lay[lb][0]):
                        if pname == "addHopping/6":
                            if lay[la][1] == lay[lb][1]:
                                out.append((lay, [la, lb, t, o1, o2]))
                            continue
                        for s1 in range(lay[la][1]):
                            if pname == "addHopping/7":
                                if s1 < lay[lb][1]:
                                    out.append((lay, [la, lb, t, o1, o2, s1]))
                                continue
                            for s2 in range(lay[lb][1]):
                                out.append((lay, [la, lb, t, o1, o2, s1, s2]))
    else:
        raise AnalysisBroken("no layouts for " + pname)
    return out


def run_preset(db, f, layout, args):
    ip = Interp(db, PRIMS)
    L = make_lattice(layout)
    try:
        ip.call_fn(f, [L] + list(args))
    except Thrown as t:
        return None, t
    return lattice_poly(L), None


def fmt_case(layout, args):
    return "sites %s, arguments (%s)" % (", ".join("%s:%dx%d" % (l, o, s) for l, (o, s) in sorted(layout.items())), ", ".join(str(a) for a in args))


# ====================================================================== the check
FACTORIES = [("Hopping", 7), ("Hopping", 5), ("Level", 4), ("NupNdown", 7), ("NupNdown", 6), ("NupNdown", 4), ("NupNdown", 5),
             ("Spinflip", 6), ("PairHopping", 6), ("SplusSminus", 4), ("SminusSplus", 4)]
PRESETS = [("addCoulombS", 4), ("addCoulombP", 6), ("addCoulombP", 5), ("addLevel", 3), ("addMagnetization", 3), ("addSzSz", 4), ("addSS", 4),
           ("addHopping", 8), ("addHopping", 7), ("addHopping", 6), ("addHopping", 4)]


def factory_args(f):
    """all small argument tuples: labels in {A,B}, orbitals and spins in {0,1}"""
    doms = []
    V = sp.Symbol("V", real=True)
    for p in f.params:
        t = p.get("t", "")
        if "string" in t:
            doms.append(("A", "B"))
        elif "short" in t:
            doms.append((0, 1))
        else:
            doms.append((V,))
    return list(itertools.product(*doms))


def body(chk, db, cfgname):
    complex_cfg = cfgname == "complex"
    thorough = chk.tier == "thorough"
    # ================================================================== R1
    r1 = chk.rule("C04-R1", "term factories build the documented monomial (operator order, labels, orbitals, spins, value), for every equality pattern of their arguments", "F7 summaries vs documentation", 11)
    # the constructors of Lattice::Term themselves (user-built terms go through them): each member receives its own input,
    # over all N factors; the copy carries all six members.  Decided by interpreting the extracted constructor bodies on one
    # record with pairwise different arrays (a constructor only copies).
    ctors = [x for x in db.fns_named("Pomerol::Lattice::Term::Term") if x.kind == "ctor" and x.body is not None and x.body >= 0]
    full = [x for x in ctors if len(x.params) == 6]
    copyc = [x for x in ctors if len(x.params) == 1 and "Term" in (x.params[0].get("t") or "")]
    site = "Pomerol::Lattice::Term::Term/6"
    with r1.guard(site, (full[0] if full else ctors[0]).loc() if ctors else "?", cfgname):
        if len(full) != 1:
            raise AnalysisBroken("Term(N, sequence, value, labels, orbitals, spins) not found")
        blank = lambda: Obj("Term", **{T_ + "N": 0, T_ + "OperatorSequence": [], T_ + "SiteLabels": [], T_ + "Spins": [], T_ + "Orbitals": [], T_ + "Value": sp.Integer(0)})
        V_ = sp.Symbol("V")
        seq_, lab_, orb_, spn_ = [1, 0, 1], ["a", "b", "c"], [0, 1, 2], [1, 0, 2]
        try:
            t_ = Interp(db, PRIMS).run_ctor(full[0], [3, list(seq_), V_, list(lab_), list(orb_), list(spn_)], blank())
        except Thrown as e_:
            t_ = None
            r1.bad(site, full[0].loc(), "the constructor reads outside its input arrays (%s)" % e_.tt, cfgname)
        if t_ is not None:
            got_ = (t_.f[T_ + "N"], [int(bool(x)) for x in t_.f[T_ + "OperatorSequence"]], t_.f[T_ + "SiteLabels"], t_.f[T_ + "Orbitals"], t_.f[T_ + "Spins"], t_.f[T_ + "Value"])
            if got_ == (3, seq_, lab_, orb_, spn_, V_):
                r1.ok(site, full[0].loc(), "N, OperatorSequence, SiteLabels, Orbitals, Spins (all N entries each) and Value are taken from the arguments of the same role", cfgname)
            else:
                names_ = ["N", "OperatorSequence", "SiteLabels", "Orbitals", "Spins", "Value"]
                wrong_ = [names_[i_] for i_, (a_, b_) in enumerate(zip(got_, (3, seq_, lab_, orb_, spn_, V_))) if a_ != b_]
                r1.bad(site, full[0].loc(), "a term built with the full constructor does not carry its arguments in: %s (e.g. %s = %s)" % (", ".join(wrong_), wrong_[0], got_[names_.index(wrong_[0])]), cfgname)
            if len(copyc) == 1:
                site2 = "Pomerol::Lattice::Term::Term(copy)"
                c_ = Interp(db, PRIMS).run_ctor(copyc[0], [t_], blank())
                same_ = all(c_.f[k_] == t_.f[k_] for k_ in t_.f)
                if same_:
                    r1.ok(site2, copyc[0].loc(), "the copy carries all six members", cfgname)
                else:
                    r1.bad(site2, copyc[0].loc(), "a copied term differs from its source in: %s" % ", ".join(k_.split("::")[-1] for k_ in t_.f if c_.f[k_] != t_.f[k_]), cfgname)
    for nm, np_ in FACTORIES:
        f = db.fn(TP + nm, nparams=np_)
        site = "%s%s/%d" % (TP, nm, np_)
        with r1.guard(site, f.loc(), cfgname):
            bad = None
            ncase = 0
            for a in factory_args(f):
                ncase += 1
                want_ = doc_factory("%s/%d" % (nm, np_), a)
                ip = Interp(db, PRIMS)
                try:
                    t = ip.call_fn(f, list(a))
                    got = term_poly(t, f.loc()) if isinstance(t, Obj) and t.cls == "Term" else None
                    if got is None:
                        raise AnalysisBroken("factory does not return a term")
                except Thrown as th:
                    got = ("throws", th)
                if want_ is None:
                    if not isinstance(got, tuple):
                        bad = "documented as invalid for (%s) but a term %s is returned" % (", ".join(map(str, a)), show_poly(got))
                        break
                    continue
                if isinstance(got, tuple):
                    bad = "throws %s (%s) for the valid arguments (%s)" % (got[1].tt, got[1].where, ", ".join(map(str, a)))
                    break
                if padd(got, want_, -1):
                    bad = "for arguments (%s) the term is %s, documented %s" % (", ".join(map(str, a)), show_poly(got), show_poly(want_))
                    break
            if bad:
                r1.bad(site, f.loc(), bad, cfgname)
            else:
                r1.ok(site, f.loc(), "equals the documented monomial as an operator on all %d argument patterns" % ncase, cfgname)

    # ================================================================== R2 / R5
    r2 = chk.rule("C04-R2", "preset sums: LatticePresets::add* emit the documented operator", "F1 emission records + F6 bounded expansion of the summaries", 10)
    r3 = chk.rule("C04-R3", "addHopping adds the Hermitian conjugate term (conj(t) in the complex configuration)", "F1 pairing", 1)
    r5 = chk.rule("C04-R5", "algebraic consequences on bounded layouts: Hermitian result; Kanamori (U'=U-2J) and spin-spin exchange commute with S+ and S-", "F6 bounded expansion of the summaries", 4)
    polys = {}
    for nm, np_ in PRESETS:
        pname = "%s/%d" % (nm, np_)
        f = db.fn(LP + nm, nparams=np_)
        site = LP + pname
        with r2.guard(site, f.loc(), cfgname):
            try:
                recs = records(f, db)
            except AnalysisBroken:
                recs = []          # structure not expressible as records: the expansion below decides
            ref = [x.replace("Hopping(Label2, Label1, t,", "Hopping(Label2, Label1, conj(t),") if complex_cfg else x for x in REFERENCE.get(pname, [])]
            same_structure = sorted(ref) == sorted(recs)
            bad = None
            known = None
            ncase = 0
            for layout, args in preset_cases(pname, complex_cfg, thorough):
                want_ = doc_preset(pname, layout, args, complex_cfg)
                if want_ is None:
                    continue
                ncase += 1
                got, th = run_preset(db, f, layout, args)
                polys[(pname, repr(sorted(layout.items())), tuple(map(str, args)))] = (layout, args, got)
                if got is None:
                    bad = "throws %s at %s on a documented layout: %s" % (th.tt, th.where, fmt_case(layout, args[0:]))
                    break
                d = padd(got, want_, -1)
                if d:
                    bad = "emits %s, documented %s (difference %s) for %s" % (show_poly(got), show_poly(want_), show_poly(d), fmt_case(layout, args))
                    break
            if bad:
                r2.bad(site, f.loc(), bad, cfgname)
            elif ncase == 0:
                raise AnalysisBroken("no documented layout was expanded for " + pname)
            else:
                r2.ok(site, f.loc(), "%s; summary expanded on %d bounded layouts/argument patterns (<= %d orbitals, <= 3 spins, amplitudes symbolic or zero) equals the documented operator" % (
                    "emission structure identical to the reviewed reference (all layouts)" if same_structure else "emission structure: %d records" % len(recs), ncase, 4 if thorough else 3), cfgname)

    # R3: structural, all layouts
    f = db.fn(LP + "addHopping", nparams=8)
    site = LP + "addHopping/8:hermitian-conjugate"
    with r3.guard(site, f.loc(), cfgname):
        ctx = Ctx(f, db)
        ems = []
        for j, n in f.walk(f.body):
            if n["k"] == "call" and strip_targs(n.get("cname") or "") in ("Pomerol::Lattice::addTerm", "Pomerol::Lattice::TermStorage::addTerm"):
                k = ctx.key(j)
                ems.append((j, k[3]))
        pr = {p["n"]: ("param", p["d"], p["n"]) for p in f.params}
        names = [p["n"] for p in f.params]
        l1, l2, t_, o1, o2, s1, s2 = [pr[x] for x in names[1:8]]
        fw = ("call", TP + "Hopping", l1, l2, t_, o1, o2, s1, s2)
        ct = ("call", "conj", t_) if complex_cfg else t_
        alt = ("call", "std::conj", t_) if complex_cfg else t_
        hc = [("call", TP + "Hopping", l2, l1, c_, o2, o1, s2, s1) for c_ in (ct, alt)]
        got = [e[1] for e in ems]
        if len(got) == 2 and fw in got and any(h in got for h in hc):
            r3.ok(site, f.loc(ems[0][0]), "t c+(1) c(2) and %s c+(2) c(1)" % ("conj(t)" if complex_cfg else "t"), cfgname)
        else:
            # written differently: decide on the expanded summaries (t c+_1 c_2 present with coefficient t, result Hermitian)
            exp_ = [(lay, a_, g_) for (pn, _, _), (lay, a_, g_) in polys.items() if pn == "addHopping/8"]
            badcase = None
            for lay, a_, g_ in exp_:
                if g_ is None:
                    continue
                want_ = doc_preset("addHopping/8", lay, a_, complex_cfg)
                if padd(g_, pdag(g_), -1) or (want_ is not None and padd(g_, want_, -1)):
                    badcase = (lay, a_, g_)
                    break
            if badcase or not exp_:
                lay, a_, g_ = badcase if badcase else (None, None, None)
                r3.bad(site, f.loc(), "the emitted terms are not Hopping(1,2,t) plus its Hermitian conjugate Hopping(2,1,%s): %s%s" % (
                    "conj(t)" if complex_cfg else "t", "; ".join(_nm(g) for g in got), (" — e.g. %s gives %s" % (fmt_case(lay, a_), show_poly(g_))) if badcase else ""), cfgname)
            else:
                r3.ok(site, f.loc(), "written differently from the reference; on %d expanded argument patterns the result is t c+(1) c(2) + h.c. (bounded)" % len(exp_), cfgname)

    # R5: algebra on the code's own polynomials
    def spin_ops(layout):
        sp_, sm_ = {}, {}
        for l, (o, s) in layout.items():
            for oo in range(o):
                sp_ = padd(sp_, P([cdag((l, oo, UP)), cann((l, oo, DOWN))]))
                sm_ = padd(sm_, P([cdag((l, oo, DOWN)), cann((l, oo, UP))]))
        return sp_, sm_
    herm_bad = {}
    herm_n = {}
    for (pname, _, _), (layout, args, got) in polys.items():
        if got is None:
            continue
        herm_n[pname] = herm_n.get(pname, 0) + 1
        if pname not in herm_bad and padd(got, pdag(got), -1):
            herm_bad[pname] = "H != H^+ for %s: H = %s" % (fmt_case(layout, args), show_poly(got))
    site = LP + "*:hermitian"
    if herm_bad:
        nm0 = sorted(herm_bad)[0]
        f = db.fn(LP + nm0.split("/")[0], nparams=int(nm0.split("/")[1]))
        r5.bad(site, f.loc(), "%s: %s" % (nm0, herm_bad[nm0]), cfgname)
    elif herm_n:
        r5.ok(site, db.fn(LP + "addHopping", nparams=8).loc(), "H == H^+ for every expanded preset (%d expansions; interaction amplitudes real, hopping amplitude %s)" % (sum(herm_n.values()), "complex" if complex_cfg else "real"), cfgname)
    for pname, label in (("addCoulombP/5", "Kanamori U'=U-2J"), ("addSS/4", "spin-spin exchange")):
        f = db.fn(LP + pname.split("/")[0], nparams=int(pname.split("/")[1]))
        for which in ("S+", "S-"):
            site = "%s%s:[H,%s]" % (LP, pname, which)
            with r5.guard(site, f.loc(), cfgname):
                bad = None
                cnt = 0
                for (pn, _, _), (layout, args, got) in polys.items():
                    if pn != pname or got is None:
                        continue
                    if any(s != 2 for _, s in layout.values()):
                        continue
                    if sum(o for o, _ in layout.values()) > (3 if not thorough else 4):
                        continue
                    cnt += 1
                    spl, smi = spin_ops(layout)
                    cm = pcomm(got, spl if which == "S+" else smi)
                    if cm:
                        bad = "[H, %s] = %s for %s" % (which, show_poly(cm), fmt_case(layout, args))
                        break
                if bad:
                    r5.bad(site, f.loc(), "%s is not SU(2) invariant: %s" % (label, bad), cfgname)
                elif cnt == 0:
                    raise AnalysisBroken("no two-spin expansion available for " + pname)
                else:
                    r5.ok(site, f.loc(), "[H, %s] = 0 on %d expansions" % (which, cnt), cfgname)

    # ================================================================== R4
    r4 = chk.rule("C04-R4", "translation of stored lattice terms into the operator polynomial: every term of every order, factors left to right, c+ iff the sequence flag says creation, scaled by Value", "F7 summaries of TermStorage/IndexHamiltonian::prepare on user terms of 2, 4 and 6 operators", 4)
    prep = db.fn("Pomerol::IndexHamiltonian::prepare", nparams=0)
    addt = db.fn("Pomerol::Lattice::TermStorage::addTerm", nparams=1)
    # (a) the copy made by the storage keeps every field
    cc = [x for x in db.fns_named("Pomerol::Lattice::Term::Term") if x.kind == "ctor" and len(x.params) == 1 and "Term" in x.params[0].get("t", "")]
    site = "Pomerol::Lattice::Term::Term(const Term&)"
    if len(cc) != 1:
        r4.unknown(site, addt.loc(), "copy constructor of Lattice::Term not found (implicit copy: nothing to check)" if not cc else "several candidates", cfgname) if cc else r4.ok(site, addt.loc(), "implicitly generated member-wise copy", cfgname)
    else:
        c = cc[0]
        cctx = Ctx(c, db)
        pin = ("param", c.params[0]["d"], c.params[0]["n"])
        inits = {i_.get("field"): cctx.key(i_["e"]) for i_ in c.d.get("inits", []) if i_.get("field")}
        missing = [fl for fl in ("N", "OperatorSequence", "SiteLabels", "Spins", "Orbitals", "Value") if inits.get(fl) != ("field", T_ + fl, pin)]
        if missing:
            r4.bad(site, c.loc(), "the stored copy of a term does not copy %s from the original" % ", ".join(missing), cfgname)
        else:
            r4.ok(site, c.loc(), "N, OperatorSequence, SiteLabels, Spins, Orbitals, Value copied member by member", cfgname)
    # (b) user terms -> storage -> polynomial
    V = sp.Symbol("V", real=True)
    W = sp.Symbol("W", real=True)

    def user_terms(N):
        modes = [("A", k % 2, k // 2) for k in range(N)]
        pats = [list(range(N))]
        for (a, b) in ((0, 1), (1, 2), (0, N - 1), (N - 2, N - 1)):
            if a != b and b < N:
                q = list(range(N))
                q[b] = a
                if q not in pats:
                    pats.append(q)
        pats.append([0] * N)
        for flags in itertools.product((1, 0), repeat=N):
            for q in pats:
                yield flags, [modes[x] for x in q]

    def mk_term(flags, idx, val):
        N = len(flags)
        return Obj("Term", **{T_ + "N": N, T_ + "OperatorSequence": list(flags), T_ + "SiteLabels": [m[0] for m in idx], T_ + "Orbitals": [m[1] for m in idx],
                              T_ + "Spins": [m[2] for m in idx], T_ + "Value": val})

    def translate(terms):
        L = make_lattice({"A": (2, 3)})
        ip = Interp(db, PRIMS)
        for t in terms:
            ip.call_fn(addt, [t], this=L.f["Pomerol::Lattice::Terms"])
        H = Obj("Operator", poly={}, **{"Pomerol::IndexHamiltonian::L": L, "Pomerol::IndexHamiltonian::IndexInfo": Obj("IndexClassification")})
        ip.call_fn(prep, [], this=H)
        return H.f["poly"]

    for N in (2, 4, 6):
        site = "Pomerol::IndexHamiltonian::prepare:terms-of-%d-operators" % N
        with r4.guard(site, prep.loc(), cfgname):
            bad = None
            cnt = 0
            for flags, idx in user_terms(N):
                cnt += 1
                want_ = P([(bool(fl), m) for fl, m in zip(flags, idx)], V)
                try:
                    got = translate([mk_term(flags, idx, V)])
                except Thrown as th:
                    bad = "throws %s at %s for the term %s" % (th.tt, th.where, show_poly({tuple((bool(fl), m) for fl, m in zip(flags, idx)): V}))
                    break
                if padd(got, want_, -1):
                    bad = "the term V * %s is translated into %s, as a product of canonical operators it is %s" % (
                        " ".join(("c+" if fl else "c") + "(%s,%s,%s)" % m for fl, m in zip(flags, idx)), show_poly(got), show_poly(want_))
                    break
            if bad:
                r4.bad(site, prep.loc(), bad, cfgname)
            else:
                r4.ok(site, prep.loc(), "%d user terms (all creation/annihilation patterns x index-coincidence patterns) translate to V * product of the factors in order" % cnt, cfgname)
    # (c) several terms of different orders are all visited and added
    site = "Pomerol::IndexHamiltonian::prepare:all-orders-summed"
    with r4.guard(site, prep.loc(), cfgname):
        a_, b_, c_ = ("A", 0, 0), ("A", 1, 0), ("A", 0, 1)
        terms = [mk_term((1, 1, 1, 0, 0, 0), [a_, b_, c_, c_, b_, a_], V + W), mk_term((1, 0), [a_, b_], V), mk_term((1, 0), [b_, a_], V),
                 mk_term((1, 0, 1, 0), [a_, a_, b_, b_], W), mk_term((1, 0), [a_, b_], W)]
        want_ = psum(term_poly(t, "") for t in terms)
        try:
            got = translate(terms)
            d_ = padd(got, want_, -1)
            if d_:
                r4.bad(site, prep.loc(), "five stored terms of orders 2, 4, 6 (two of them equal monomials) give %s instead of their sum (difference %s)" % (show_poly(got), show_poly(d_)), cfgname)
            else:
                r4.ok(site, prep.loc(), "terms of orders 2, 4 and 6, including repeated monomials, are all visited and accumulated", cfgname)
        except Thrown as th:
            r4.bad(site, prep.loc(), "throws %s at %s" % (th.tt, th.where), cfgname)

    # ------------------------------------------------------------------ R6: what is translated is what was added
    # The interpreted summaries of R4 model a stored term by value.  That is only faithful if the storage keeps its OWN copy of
    # every term: a storage that keeps the caller's pointer aliases all entries of a re-used Term object (H becomes k x the last
    # term).  Decided by rule C20-R6 (copy appended to the list of its order, deep copy of the storage), re-evaluated here.
    r6 = chk.rule("C04-R6", "the lattice stores its own copy of every term under its order and hands exactly those back (a re-used or modified Term object of the caller does not change stored terms)", "F1 dominance (rule C20-R6)", 4)
    from pv.check import ViewCheck
    from checks import c20
    c20.body(ViewCheck(chk, {"C20-R6": r6}), db, cfgname)

    chk.undecided.append("the Fock-space matrix of the polynomial (Operator::actRight/getMatrixElement: C05; HamiltonianPart::prepare: C03); layouts beyond 3 orbitals x 3 spins when the emission structure differs from the reference; user terms of 6 operators (no preset builds one)")
    chk.trusted.append("std::vector::assign(first,last), std::map::find/end/operator[] and new Term(N) are modelled by their library semantics; Term(N) zero-initialises N entries")


if __name__ == "__main__":
    run_check("C04", "lattice terms and presets produce the documented Hamiltonian", body)
