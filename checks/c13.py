"""C13 — 2PGF container honours exchange symmetries regardless of request history (DESIGN.md §3 C13)."""
from itertools import permutations

from pv.check import run_check
from pv.entail import entails
from pv.expr import Ctx, guard_facts, key_contains
from pv.facts import AnalysisBroken, strip_targs
from pv.loops import enclosing_loops, loop_shape

IC4 = "Pomerol::IndexContainer4"
EMAP = ("field", IC4 + "::ElementsMap", ("this",))
NTE = ("field", IC4 + "::NonTrivialElements", ("this",))
IDX = ["Pomerol::IndexCombination4::Index%d" % i for i in (1, 2, 3, 4)]


def parity(p):
    p = list(p)
    s = 1
    for i in range(len(p)):
        while p[i] != i:
            j = p[i]
            p[i], p[j] = p[j], p[i]
            s = -s
    return s


def interp_alias_eval(db, f):
    """Evaluate the extracted body of ElementWithPermFreq::operator() for every permutation of {0,1,2,3} and both signs, with
    symbolic frequencies and the wrapped element as an uninterpreted function.  Returns a list of mismatches
    (perm, sign, got, expected); raises AnalysisBroken when the body leaves the interpreted subset."""
    import itertools
    import sympy as sp
    from pv.summ import Interp, Obj, Thrown
    n1, n2, n3 = sp.symbols("n1 n2 n3", integer=True)
    E = sp.Function("element")
    M = [n1, n2, n3, n1 + n2 - n3]
    prims = {}
    for j, n in f.walk(f.body):
        if n["k"] == "call" and n.get("ck") == "op" and n.get("op") == "()" and len(n["args"]) == 4:
            prims[strip_targs(n["cname"])] = lambda fr, i, obj, args: E(*[sp.sympify(a) for a in args[1:]]) if isinstance(args[0], Obj) and args[0].cls == "element" else fr.bad(i, "call of something else than the wrapped element")
    bad = []
    for perm in itertools.permutations(range(4)):
        for sgn in (1, -1):
            this = Obj("EWPF", **{"Pomerol::ElementWithPermFreq::pElement": Obj("element"),
                                  "Pomerol::ElementWithPermFreq::FrequenciesPermutation": Obj("Permutation4", **{"Pomerol::Permutation4::perm": list(perm), "Pomerol::Permutation4::sign": sgn})})
            ip = Interp(db, prims)
            try:
                got = ip.call_fn(f, [n1, n2, n3], this=this)
            except Thrown as t:
                raise AnalysisBroken("%s: interpreted summary throws %s at %s" % (f.qn, t.tt, t.where))
            want = sgn * E(M[perm[0]], M[perm[1]], M[perm[2]])
            if got is None or sp.simplify(sp.sympify(got) - want) != 0:
                bad.append((perm, sgn, got, want))
    return bad


def interp_set(db, f, p4):
    """interpret the skeleton of IndexContainer4::set on an empty container for four distinct indices"""
    from pv.summ import Interp, Obj, FObj, Thrown

    def mk_ic4(fr, i, args):
        if len(args) != 4:
            fr.bad(i, "IndexCombination4 constructed from %d arguments" % len(args))
        return FObj("IC4", **{IDX[k]: args[k] for k in range(4)})

    def mk_alias(fr, i, args):
        if len(args) != 2 or not (isinstance(args[1], Obj) and args[1].cls == "perm"):
            fr.bad(i, "ElementWithPermFreq constructed from unexpected arguments")
        return Obj("alias", elem=args[0], perm=args[1].f["idx"])
    elem = Obj("element")
    prims = {"construct Pomerol::IndexCombination4": mk_ic4, "construct Pomerol::ElementWithPermFreq": mk_alias,
             "global Pomerol::permutations4": [Obj("perm", idx=k) for k in range(len(p4))]}
    for j, n in f.walk(f.body):
        if n["k"] == "call" and (n.get("cname") or "").endswith("::createElement"):
            prims[strip_targs(n["cname"])] = lambda fr, i, obj, args: elem
    orig = (10, 11, 12, 13)
    this = Obj("IndexContainer4", **{IC4 + "::ElementsMap": {}, IC4 + "::NonTrivialElements": {}, IC4 + "::pSource": Obj("source")})
    ip = Interp(db, prims)
    try:
        ret_ = ip.call_fn(f, [FObj("IC4", **{IDX[k]: orig[k] for k in range(4)})], this=this)
    except Thrown as t:
        raise AnalysisBroken("%s: interpreted summary throws %s at %s" % (f.qn, t.tt, t.where))
    ents = []
    for K, v in this.f[IC4 + "::ElementsMap"].items():
        if not (isinstance(v, Obj) and v.cls == "alias"):
            raise AnalysisBroken("%s: ElementsMap entry is not an ElementWithPermFreq" % f.qn)
        ents.append((tuple(K.f[q] for q in IDX), v.f["perm"], v.f["elem"] is elem))
    nte = this.f[IC4 + "::NonTrivialElements"]
    nte_ok = len(nte) == 1 and all(tuple(K.f[q] for q in IDX) == orig and v is elem for K, v in nte.items())
    # which entry does the call hand back?  (identity of the returned wrapper among the stored ones)
    ret_key = None
    for K, v in this.f[IC4 + "::ElementsMap"].items():
        if v is ret_:
            ret_key = tuple(K.f[q] for q in IDX)
    return {"orig": orig, "entries": sorted(ents), "nte_ok": nte_ok, "ret_key": ret_key, "ret_is_entry": ret_key is not None}


def check_default_quadruples(r7, db, cfgname):
    from pv.loops import enclosing_loops, loop_shape
    from pv.paths import every_iteration
    from pv.expr import Ctx, guard_facts
    cands = [x for x in db.fns.values() if strip_targs(x.name) == "Pomerol::IndexContainer4::enumerateInitialIndices" and x.body is not None and x.body >= 0]
    site = "Pomerol::IndexContainer4::enumerateInitialIndices"
    if not cands:
        raise AnalysisBroken("IndexContainer4::enumerateInitialIndices is not instantiated in the analysed units")
    e_ = sorted(cands, key=lambda x: x.qn)[0]
    with r7.guard(site, e_.loc(), cfgname):
        ctx = Ctx(e_, db)
        info = ("field", "Pomerol::IndexContainer4::IndexInfo", ("this",))
        size_keys = (("mcall", "Pomerol::IndexClassification::getIndexSize", info), ("field", "Pomerol::IndexClassification::IndexSize", info))
        ins = [j for j, n in e_.walk(e_.body) if n["k"] == "call" and n.get("ck") == "method" and strip_targs(n.get("cname") or "").split("::")[-1] in ("insert", "emplace")]
        if len(ins) != 1:
            raise AnalysisBroken("expected one insertion into the set of quadruples, found %d" % len(ins))
        I = ins[0]
        Ls = enclosing_loops(e_, I)
        if len(Ls) != 4:
            raise AnalysisBroken("the default quadruples are not enumerated by four nested loops (form not analysed)")
        shapes = [loop_shape(e_, ctx, L) for L in Ls][::-1]          # outermost first
        ak = ctx.key(e_.nodes[I]["args"][0])
        while ak[0] == "cast" or (ak[0] == "ctor" and len(ak) == 3 and isinstance(ak[2], tuple) and ak[2][0] == "ctor"):
            ak = ak[2]
        if ak[0] != "ctor" or len(ak) != 6:
            raise AnalysisBroken("the inserted value is not IndexCombination4(i1, i2, i3, i4)")
        role = {a[:2]: k for k, a in enumerate(ak[2:])}            # loop variable -> position in the quadruple

        def bound_ok(s_):
            b = s_["bound"]
            while b[0] == "cast":
                b = b[2]
            if b[0] == "var" and ctx.decls.get(b[1], {}).get("init") is not None and ctx.single_assignment(b[1]):
                b = ctx.key(ctx.decls[b[1]]["init"])
            return s_["kind"] == "index" and s_["rel"] == "<" and b in size_keys and not s_["exits"]
        byrole = {}
        for s_ in shapes:
            if s_["var"] is None or s_["var"][:2] not in role:
                raise AnalysisBroken("a loop variable is not an index of the inserted quadruple")
            byrole[role[s_["var"][:2]]] = s_
        if sorted(byrole) != [0, 1, 2, 3]:
            r7.bad(site, e_.loc(I), "the inserted combination does not use the four loop variables as (Index1, Index2, Index3, Index4)", cfgname)
            return
        probs = []
        for r_, partner in ((0, None), (1, 0), (2, None), (3, 2)):
            s_ = byrole[r_]
            if not bound_ok(s_):
                probs.append("Index%d does not run up to IndexSize (`%s`)" % (r_ + 1, e_.s(s_["node"])[:50]))
                continue
            st = s_["start"]
            while isinstance(st, tuple) and st[0] == "cast":
                st = st[2]
            if st == ("lit", 0):
                continue
            if partner is not None and isinstance(st, tuple) and st[:2] == byrole[partner]["var"][:2]:
                continue        # Index2 >= Index1 (Index4 >= Index3): the other order is the exchange alias added by set()
            if partner is not None and isinstance(st, tuple) and st[0] == "op" and st[1] == "+" and len(st) == 4 and ("lit", 1) in st[2:] and \
                    any(isinstance(x, tuple) and x[:2] == byrole[partner]["var"][:2] for x in st[2:]):
                continue        # strictly above: the omitted coinciding pair is c_i c_i = 0 (c+_k c+_k = 0), an identically vanishing component
            probs.append("Index%d starts at %s: quadruples below that are neither created nor aliases of a created one" % (r_ + 1, e_.s(e_.nodes[s_["node"]]["init"])[:40] if e_.nodes[s_["node"]].get("init") is not None else st))
        inner_ok = every_iteration(e_, Ls[0], I) is True and all(every_iteration(e_, Ls[k + 1], Ls[k]) is True for k in range(3))
        if probs:
            r7.bad(site, e_.loc(I), "; ".join(probs), cfgname)
        elif not inner_ok:
            fa_ = guard_facts(e_, ctx).get(e_.cfg.pos1(I), frozenset())
            from checks.c20 import fact_str
            extra = [fact_str(x) for x in fa_ if not (x[0] in ("<", "<=") )]
            r7.bad(site, e_.loc(I), "quadruples are filtered out of the default set (%s): a component that prepareAll() does not create is built unprepared on first access and evaluates to 0" % (", ".join(sorted(extra))[:200] or "conditionally inserted"), cfgname)
        else:
            r7.ok(site, e_.loc(I), "Index1, Index3 over [0, IndexSize); Index2 >= Index1, Index4 >= Index3 (the other orders are the exchange aliases); inserted unconditionally", cfgname)



def body(chk, db, cfgname):
    # ------------------------------------------------------------------ tables
    r1 = chk.rule("C13-R1", "permutation tables are complete with correct parity; every alias key permutation equals its frequency permutation", "F7 tables", 25)
    p4 = db.global_const("Pomerol::permutations4")
    gf = db.global_fn("Pomerol::permutations4")
    seen = set()
    for k, ent in enumerate(p4):
        perm, sign = tuple(ent[0]), ent[1]
        site = "Pomerol::permutations4[%d]" % k
        if sorted(perm) != [0, 1, 2, 3] or perm in seen:
            r1.bad(site, gf.loc(), "entry %s is not a (new) permutation of {0,1,2,3}" % (ent,), cfgname)
        elif sign != parity(perm):
            r1.bad(site, gf.loc(), "entry %s carries sign %+d but the parity of the permutation is %+d: an alias using it returns the element with the wrong sign" % (list(perm), sign, parity(perm)), cfgname)
        else:
            r1.ok(site, gf.loc(), "%s sign %+d" % (list(perm), sign), cfgname)
        seen.add(perm)
    if len(p4) != 24:
        r1.bad("Pomerol::permutations4:size", gf.loc(), "table has %d entries, 24 expected" % len(p4), cfgname)

    sets = [f for f in db.fns.values() if strip_targs(f.name) == IC4 + "::set"]
    if not sets:
        raise AnalysisBroken("no instantiation of IndexContainer4::set in the analysed units")
    for f in sorted(sets, key=lambda x: x.qn):
        ctx = Ctx(f, db)
        at = guard_facts(f, ctx)
        Ik = ("param", f.params[0]["d"], f.params[0]["n"])
        # the index quadruple the element is created for (argument of createElement) and its four components
        ce = [j for j, n in f.walk(f.body) if n["k"] == "call" and (n.get("cname") or "").endswith("::createElement")]
        if len(ce) != 1:
            raise AnalysisBroken("%s: expected one createElement call" % f.qn)

        def fold(k):
            # Index<i> of IndexCombination4(x1,x2,x3,x4) is x<i> (member-wise constructor, checked below)
            from pv.expr import key_subst as _ks

            def f_(x):
                if x[0] == "field" and x[1] in IDX and x[2][0] == "ctor" and x[2][1] == "Pomerol::IndexCombination4" and len(x[2]) == 6:
                    return x[2][2 + IDX.index(x[1])]
                return None
            return _ks(k, f_)

        def comps(k):
            k = fold(k)
            if k[0] == "ctor" and k[1] == "Pomerol::IndexCombination4" and len(k) == 6:
                return [fold(x) for x in k[2:]]
            if k[0] in ("param", "var", "field", "op", "mcall"):
                return [("field", q, k) for q in IDX]
            return None
        Ek = fold(ctx.key(f.nodes[ce[0]]["args"][0]))
        ecomps = comps(Ek)
        if ecomps is None or len(set(ecomps)) != 4 and False:
            raise AnalysisBroken("%s: cannot resolve the index quadruple passed to createElement" % f.qn)
        comp = {a: i for i, a in enumerate(ecomps)}
        interp = None
        try:
            ins = [j for j, n in f.walk(f.body) if n["k"] == "call" and n["ck"] == "method" and strip_targs(n.get("cname") or "") in ("std::map::insert", "std::map::emplace")]
            nident = 0
            ident_pos = None
            nte_ins = []
            for j in ins:
                n = f.nodes[j]
                ok_ = ctx.key(n["obj"])
                ak = ctx.key(n["args"][0]) if n["args"] else None
                if ok_ == NTE:
                    nte_ins.append((j, ak))
                    continue
                if ok_ != EMAP:
                    continue
                # pair(K, ElementWithPermFreq(pElement, permutations4[k]))
                if not (ak and ak[0] in ("ctor", "call") and len(ak) >= 4):
                    raise AnalysisBroken("%s: unrecognised insertion into ElementsMap: %s" % (f.qn, f.s(j)[:100]))
                K, E = fold(ak[2]), ak[3]
                if not (E[0] == "ctor" and E[1] == "Pomerol::ElementWithPermFreq" and E[3][0] == "op" and E[3][1] == "[]" and E[3][2] == ("global", "Pomerol::permutations4") and E[3][3][0] == "lit"):
                    raise AnalysisBroken("%s: alias element is not ElementWithPermFreq(p, permutations4[const]): %s" % (f.qn, f.s(j)[:120]))
                tk = E[3][3][1]
                elem = E[2]
                kc = comps(K)
                if K == Ek:
                    sigma = (0, 1, 2, 3)
                elif kc is not None and all(a in comp for a in kc):
                    sigma = tuple(comp[a] for a in kc)
                else:
                    raise AnalysisBroken("%s: key of the inserted entry is neither Indices nor IndexCombination4 of its components: %s" % (f.qn, f.s(j)[:120]))
                site = "%s:alias%s" % (strip_targs(f.name), "".join(str(x + 1) for x in sigma))
                if not (0 <= tk < len(p4)):
                    r1.bad(site, f.loc(j), "permutations4[%d] is outside the table" % tk, cfgname)
                    continue
                perm, sign = tuple(p4[tk][0]), p4[tk][1]
                inv = tuple(sorted(range(4), key=lambda i: sigma[i]))
                if sorted(sigma) != [0, 1, 2, 3]:
                    r1.bad(site, f.loc(j), "alias key repeats a component of Indices: not a permutation", cfgname)
                elif perm not in (sigma, inv):
                    r1.bad(site, f.loc(j), "entry for the index order %s is stored with frequency permutation permutations4[%d] = %s (sign %+d); the exchange symmetry needs %s with sign %+d" % (
                        [x + 1 for x in sigma], tk, [x + 1 for x in perm], sign, [x + 1 for x in sigma], parity(sigma)), cfgname)
                elif sign != parity(sigma):
                    r1.bad(site, f.loc(j), "alias for index order %s has sign %+d, the exchange symmetry needs %+d" % ([x + 1 for x in sigma], sign, parity(sigma)), cfgname)
                else:
                    r1.ok(site, f.loc(j), "index order %s <-> permutations4[%d] = %s, sign %+d" % ([x + 1 for x in sigma], tk, [x + 1 for x in perm], sign), cfgname)
                if sigma == (0, 1, 2, 3):
                    nident += 1
                    ident_pos = j
                    ident_elem = elem
                    ident_key = K
                # note: whether the alias insertion is guarded by "exchanged indices differ" / "!isInContainer" is NOT checked:
                # std::map::insert never overwrites, so those guards are redundant and dropping them preserves behaviour.
        except AnalysisBroken as e_struct:
            # the alias bookkeeping is written in a form the structural rule does not recognise (loop over a table, ...):
            # interpret the extracted skeleton of set() on an empty container and judge the entries it produces
            interp = interp_set(db, f, p4)
            nident = 0
            nte_ins = []
            for K, tk, same_elem in interp["entries"]:
                sigma = tuple(interp["orig"].index(v) for v in K) if sorted(K) == sorted(interp["orig"]) else None
                site = "%s:alias%s" % (strip_targs(f.name), "".join(str(x + 1) for x in sigma) if sigma else "?")
                if sigma is None:
                    r1.bad(site, f.loc(), "an entry is stored under %s, which is not a permutation of the requested quadruple" % (K,), cfgname)
                    continue
                if not (0 <= tk < len(p4)):
                    r1.bad(site, f.loc(), "permutations4[%d] is outside the table" % tk, cfgname)
                    continue
                perm, sign = tuple(p4[tk][0]), p4[tk][1]
                inv = tuple(sorted(range(4), key=lambda i: sigma[i]))
                if perm not in (sigma, inv):
                    r1.bad(site, f.loc(), "entry for the index order %s is stored with frequency permutation permutations4[%d] = %s (sign %+d); the exchange symmetry needs %s with sign %+d (decided by interpreting the summary of set(); structural form: %s)" % (
                        [x + 1 for x in sigma], tk, [x + 1 for x in perm], sign, [x + 1 for x in sigma], parity(sigma), str(e_struct)[-90:]), cfgname)
                elif sign != parity(sigma) or not same_elem:
                    r1.bad(site, f.loc(), "alias for index order %s has sign %+d (needs %+d) or does not share the element of the requested quadruple" % ([x + 1 for x in sigma], sign, parity(sigma)), cfgname)
                else:
                    r1.ok(site, f.loc(), "index order %s <-> permutations4[%d] = %s, sign %+d (interpreted summary)" % ([x + 1 for x in sigma], tk, [x + 1 for x in perm], sign), cfgname)
                if sigma == (0, 1, 2, 3):
                    nident += 1
            if len(interp["entries"]) < 4:
                r1.bad("%s:alias-count" % strip_targs(f.name), f.loc(), "set() on four distinct indices stores %d entries, the exchange symmetries need 4 (identity, 2134, 1243, 2143)" % len(interp["entries"]), cfgname)

        # ------------------------------------------------------------------ R3 (set): identity element goes to both maps
        r3 = chk.rule("C13-R3", "ElementsMap and NonTrivialElements are maintained together by every mutator", "F4 paired state", 2)
        site = "%s:stored-element" % strip_targs(f.name)
        if interp is not None:
            if nident == 1 and interp["nte_ok"]:
                r3.ok(site, f.loc(), "the new element is stored under Indices in ElementsMap and in NonTrivialElements (interpreted summary)", cfgname)
            else:
                r3.bad(site, f.loc(), "the element stored under Indices in ElementsMap is not also registered in NonTrivialElements (interpreted summary)", cfgname)
        elif nident != 1:
            r3.bad(site, f.loc(), "set() inserts %d identity entries into ElementsMap (expected exactly one)" % nident, cfgname)
        else:
            good = [j for j, ak in nte_ins if ak and len(ak) >= 4 and ak[2] == ident_key and ak[3] == ident_elem]
            if good and f.cfg.pos1(good[0]) and (f.cfg.dominates(f.cfg.pos1(ident_pos), f.cfg.pos1(good[0])) or f.cfg.dominates(f.cfg.pos1(good[0]), f.cfg.pos1(ident_pos))):
                r3.ok(site, f.loc(ident_pos), "the new element is inserted under Indices into ElementsMap (identity permutation) and into NonTrivialElements on the same path", cfgname)
            else:
                r3.bad(site, f.loc(ident_pos), "the element stored under Indices in ElementsMap is not also registered in NonTrivialElements (bulk split computation would skip it)", cfgname)

        # ------------------------------------------------------------------ the entry returned by set(X) is the entry keyed X
        rr = chk.rule("C13-R6", "set(Indices) and operator()(Indices) hand out the entry stored under the requested quadruple", "F1 dominance", 1)
        site = "%s:returned-entry" % strip_targs(f.name)
        rets = [j for j, n in f.walk(f.body) if n["k"] == "return" and n.get("sub") is not None]
        verdict = None
        for j in rets:
            rk = ctx.key(f.nodes[j]["sub"])
            # iter->second with iter = ElementsMap.insert(pair(K, ...)).first   |   ElementsMap.find(K)->second  |  ElementsMap[K] / at(K)
            src = None
            if rk[0] == "field" and rk[1] == "std::pair::second" and rk[2][0] == "op" and rk[2][1] in ("->", "*"):
                it = rk[2][2]
                if it[0] == "field" and it[1] == "std::pair::first" and it[2][0] == "mcall" and it[2][1] in ("std::map::insert", "std::map::emplace") and it[2][2] == EMAP:
                    src = it[2][3][2] if len(it[2][3]) >= 3 else None
                elif it[0] == "mcall" and it[1] == "std::map::find" and it[2] == EMAP:
                    src = it[3]
            elif rk[0] == "mcall" and rk[1] == "std::map::at" and rk[2] == EMAP:
                src = rk[3]
            elif rk[0] == "op" and rk[1] == "[]" and rk[2] == EMAP:
                src = rk[3]
            if src is None and strip_targs(f.name).endswith("::set"):
                # the returned iterator is a re-assigned local (or reached in another way): decide by interpreting set() on four
                # distinct indices -- the wrapper it hands back must be the entry stored under the requested quadruple itself
                ir_ = interp_set(db, f, p4)
                if ir_["ret_key"] == ir_["orig"]:
                    verdict = verdict or ("ok", j, None)
                elif ir_["ret_key"] is not None:
                    verdict = ("bad", j, "set(i,j,k,l) on four distinct indices hands back the entry stored under the index order %s, not the one under the requested quadruple: the caller of the first on-demand lookup evaluates "
                                         "another exchange-related component (frequency permutation and sign of that order); a second lookup finds the right entry -- the value depends on the request history (interpreted summary)" % (
                                             [ir_["orig"].index(v_) + 1 for v_ in ir_["ret_key"]],))
                else:
                    raise AnalysisBroken("%s: the value returned by set() is not one of the stored entries" % f.qn)
                continue
            if src is None:
                raise AnalysisBroken("%s: returned expression %s is not an entry of ElementsMap obtained by insert/find/at" % (f.qn, f.s(f.nodes[j]["sub"])[:80]))
            sc_ = comps(src)
            want = [("field", q, Ik) for q in IDX]
            if src == Ik or sc_ == want:
                verdict = verdict or ("ok", j, None)
            else:
                verdict = ("bad", j, "set(%s) returns the entry stored under %s, which differs from the requested quadruple (e.g. a canonically re-ordered representative): the first on-demand lookup of such a quadruple gets the "
                                     "wrong element (sign and frequency permutation of another index order), later lookups hit the alias — the value depends on the request history" % (Ik[2], f.s(f.nodes[j]["sub"])[:40]))
        if verdict is None:
            raise AnalysisBroken("%s: no return of an entry" % f.qn)
        if verdict[0] == "ok":
            rr.ok(site, f.loc(verdict[1]), "returns the entry inserted / found under the parameter itself", cfgname)
        else:
            rr.bad(site, f.loc(verdict[1]), verdict[2], cfgname)

    # ------------------------------------------------------------------ R3 (all mutators): clear together
    r3 = chk.rule("C13-R3", "ElementsMap and NonTrivialElements are maintained together by every mutator", "F4 paired state", 2)
    methods = [f for f in db.fns.values() if strip_targs(f.name).startswith(IC4 + "::") or strip_targs(f.name).startswith("Pomerol::TwoParticleGFContainer::")]
    nclear = 0
    for f in sorted(methods, key=lambda x: x.qn):
        if f.body is None or f.body < 0 or f.d.get("cfg") is None:
            continue
        ctx = Ctx(f, db)
        ops = {}
        for j, n in f.walk(f.body):
            if n["k"] == "call" and n["ck"] == "method" and n.get("obj") is not None:
                short = strip_targs(n.get("cname") or "").split("::")[-1]
                if short in ("clear", "erase"):
                    ok_ = ctx.key(n["obj"])
                    if ok_ in (EMAP, NTE) or (ok_[0] == "field" and ok_[1] in (EMAP[1], NTE[1])):
                        ops.setdefault(ok_[1], []).append((j, short))
        if not ops:
            continue
        for fld, other in ((EMAP[1], NTE[1]), (NTE[1], EMAP[1])):
            for j, short in ops.get(fld, []):
                nclear += 1
                site = "%s:%s.%s" % (strip_targs(f.name), fld.split("::")[-1], short)
                # every path from this clear to the function exit passes the same operation on the other map (or it precedes it on every path)
                oth = [x for x, s2 in ops.get(other, []) if s2 == short]
                covered = False
                for x in oth:
                    px, pj = f.cfg.pos1(x), f.cfg.pos1(j)
                    if px and pj and (f.cfg.dominates(px, pj) or post_dominates(f, px, pj)):
                        covered = True
                if covered and short == "erase":
                    # removing ONE stored element: every ElementsMap entry that refers to it (identity + up to three aliases) must go too
                    n_em = len([1 for x, s2 in ops.get(EMAP[1], []) if s2 == "erase"])
                    scans = False
                    for jj, nn in f.walk(f.body):
                        if nn["k"] == "for":
                            from pv.loops import loop_shape as _ls
                            shp_ = _ls(f, ctx, jj)
                            if shp_["kind"] in ("iter", "other") and any(x == "pElement" for x in [m.get("n") for _, m in f.walk(nn["body"]) if m["k"] == "member"]) and \
                                    any(ctx.key(m["obj"]) == EMAP for _, m in f.walk(nn["body"]) if m["k"] == "call" and m["ck"] == "method" and strip_targs(m.get("cname") or "").endswith("::erase") and m.get("obj") is not None):
                                scans = True
                    if n_em >= 4 or scans:
                        r3.ok(site, f.loc(j), "the element is removed together with all ElementsMap entries that refer to it", cfgname)
                    else:
                        r3.bad(site, f.loc(j), "a stored element is erased from NonTrivialElements / ElementsMap by key, but its alias entries (exchanged-index keys pointing to the same element) stay in ElementsMap: "
                               "they remain listed and prepared, are never computed by the bulk computation over NonTrivialElements, and shadow later requests for those quadruples", cfgname)
                elif covered:
                    r3.ok(site, f.loc(j), "%s() of both maps on the same path" % short, cfgname)
                else:
                    r3.bad(site, f.loc(j), "%s.%s() is not accompanied by %s.%s() on the same path: the two maps disagree afterwards (stale elements stay listed in %s; a second fill followed by a bulk computation "
                           "never computes the elements that are evaluated)" % (fld.split("::")[-1], short, other.split("::")[-1], short, other.split("::")[-1]), cfgname)
    if nclear == 0:
        raise AnalysisBroken("no mutator clears ElementsMap / NonTrivialElements (anchor IndexContainer4::fill vanished?)")

    # ------------------------------------------------------------------ R2 evaluation of an alias
    r2 = chk.rule("C13-R2", "an alias evaluates its element at the permuted frequencies (n1,n2,n3,n1+n2-n3)[perm] times the sign", "F6 formula", 1)
    ops = [f for f in db.fns.values() if strip_targs(f.name) == "Pomerol::ElementWithPermFreq::operator()"]
    for f in sorted(ops, key=lambda x: x.qn):
        ctx = Ctx(f, db)
        n1, n2, n3 = [("param", p["d"], p["n"]) for p in f.params]
        M = ("initlist", n1, n2, n3, ("op", "-", ("op", "+", n1, n2), n3))
        perm = ("field", "Pomerol::Permutation4::perm", ("field", "Pomerol::ElementWithPermFreq::FrequenciesPermutation", ("this",)))
        sign = ("field", "Pomerol::Permutation4::sign", ("field", "Pomerol::ElementWithPermFreq::FrequenciesPermutation", ("this",)))
        rets = [j for j, n in f.walk(f.body) if n["k"] == "return"]
        site = "%s" % strip_targs(f.name)
        good = False
        why = "no return"
        shortcut = None
        ngood = 0
        for j in rets:
            rk = ctx.key(f.nodes[j]["sub"])
            rk0 = rk[2] if rk[0] == "cast" else rk
            if rk0[0] == "op" and rk0[1] == "()" and len(rk0) == 6 and tuple(rk0[3:]) == (n1, n2, n3):
                # the element at the UNPERMUTED frequencies, without the sign: only right for the identity permutation
                fa_ = guard_facts(f, ctx).get(f.cfg.pos1(j), frozenset())
                conds = [x for x in fa_ if key_contains(x, lambda y: y[0] == "field" and y[1].startswith("Pomerol::Permutation4::"))]
                shortcut = (j, "; ".join(sorted(str(x)[:70] for x in conds)) or "unconditionally")
            # (elem(M[perm[0]], M[perm[1]], M[perm[2]]) * RealType(sign))   — either operand order
            if rk[0] == "op" and rk[1] == "*":
                a, b = rk[2], rk[3]
                for call, s in ((a, b), (b, a)):
                    s0 = s[2] if s[0] == "cast" else s
                    if s0 != sign:
                        why = "result is not multiplied by FrequenciesPermutation.sign"
                        continue
                    if call[0] == "op" and call[1] == "()" and len(call) == 6:
                        args = call[3:]
                        want = [("op", "[]", M, ("op", "[]", perm, ("lit", i))) for i in range(3)]
                        if list(args) == want:
                            good = True
                            ngood += 1
                        else:
                            why = "element is not evaluated at M[perm[0]], M[perm[1]], M[perm[2]] with M = {n1, n2, n3, n1+n2-n3}"
        # the verdict: the extracted body evaluated for all 24 permutations x 2 signs (the function only indexes a 4-element
        # table with perm[] and multiplies by sign, so this table is exhaustive); the shape analysis above supplies the wording
        try:
            mism = interp_alias_eval(db, f)
        except AnalysisBroken as e_:
            mism = None
            ierr = str(e_)
        if mism is not None and not mism:
            r2.ok(site, f.loc(), "(*pElement)(M[perm[0]], M[perm[1]], M[perm[2]]) * sign with M = {n1,n2,n3,n1+n2-n3}, for all 24 permutations and both signs" + ("" if good and ngood == len(rets) else " (interpreted summary)"), cfgname)
        elif mism:
            pm_, sg_, got_, want_ = mism[0]
            if shortcut is not None:
                r2.bad(site, f.loc(shortcut[0]), "on some path the element is returned at the unpermuted frequencies (n1,n2,n3) without the permutation (%s): that is right for the identity permutation only -- e.g. the double exchange (2,1,4,3) "
                       "is even as well, so a test of the sign does not single out the identity; first of %d failing cases: perm %s sign %+d gives %s" % (shortcut[1], len(mism), [x + 1 for x in pm_], sg_, got_), cfgname)
            else:
                r2.bad(site, f.loc(), "%s: for the permutation %s with sign %+d the alias evaluates to %s instead of %s (%d of 48 cases differ)" % (
                    why if why != "no return" else "the alias does not evaluate its element at the permuted frequencies times the sign", [x + 1 for x in pm_], sg_, got_, want_, len(mism)), cfgname)
        elif shortcut is not None:
            r2.bad(site, f.loc(shortcut[0]), "on some path the element is returned at the unpermuted frequencies (n1,n2,n3) without the permutation (%s): that is right for the identity permutation only — e.g. the double exchange (2,1,4,3) "
                   "is even as well, so a test of the sign does not single out the identity" % shortcut[1], cfgname)
        elif good and ngood == len(rets):
            r2.ok(site, f.loc(), "(*pElement)(M[perm[0]], M[perm[1]], M[perm[2]]) * sign with M = {n1,n2,n3,n1+n2-n3}", cfgname)
        else:
            r2.unknown(site, f.loc(), "the evaluation of the alias is not in a recognised form and its body could not be interpreted (%s)" % ierr, cfgname)

    # ------------------------------------------------------------------ R5 bulk coverage
    r5 = chk.rule("C13-R5", "bulk calls visit every element of the map they iterate (ElementsMap / NonTrivialElements)", "F1 full-range loops", 4)
    from pv.loops import covers, is_element
    from pv import paths as P_
    G2q = "Pomerol::TwoParticleGF::"

    def map_loops(f, ctx, M):
        out = []
        for j, n in f.walk(f.body):
            if n["k"] in ("for", "forrange"):
                shp = loop_shape(f, ctx, j)
                if shp["kind"] in ("iter", "range") and shp.get("bound") == M:      # a std::map is only traversed through iterators
                    out.append((j, shp))
        return out

    def skipping_paths(f, ctx, L, actions):
        """feasible paths through one iteration of L that execute none of the action nodes, with their facts"""
        hdr, plist = P_.loop_body_paths(f, L)
        res = []
        apos = {f.cfg.pos1(a)[0] for a in actions if f.cfg.pos1(a)}
        for path in plist:
            if apos & set(path[1:]):
                continue
            pf = P_.path_facts(f, ctx, path)
            if P_.feasible(pf):
                res.append(pf)
        return res

    for nm, M, wi, action_names, skip_ok in (
            ("Pomerol::TwoParticleGFContainer::prepareAll", EMAP, 0, (G2q + "prepare",), None),
            ("Pomerol::TwoParticleGFContainer::computeAll_nosplit", EMAP, 0, (G2q + "compute",), None),
            ("Pomerol::TwoParticleGFContainer::computeAll_split", NTE, 0, (G2q + "compute",), "colour"),
            ("Pomerol::TwoParticleGFContainer::computeAll_split", NTE, 1, ("boost::mpi::broadcast",), None)):
        f = db.fn(nm)
        ctx = Ctx(f, db)
        site = "%s:loop%d(%s)" % (nm, wi, M[1].split("::")[-1])
        with r5.guard(site, f.loc(), cfgname):
            loops_all = map_loops(f, ctx, M)
            # the loop that carries this action (there may be other loops over the same map, e.g. a counting pass)
            loops_ = [(j_, s_) for j_, s_ in loops_all if any(n_["k"] == "call" and strip_targs(n_.get("cname") or "") in action_names for _, n_ in f.walk(s_["body"]))]
            if loops_:
                loops_ = [loops_[0]] * (wi + 1)
            else:
                loops_ = loops_all
            if len(loops_) <= wi:
                if loops_ or any(n_["k"] in ("for", "forrange", "while") for _, n_ in f.walk(f.body)):
                    raise AnalysisBroken("loop %d over %s not found in a recognised form" % (wi, M[1].split("::")[-1]))
                r5.bad(site, f.loc(), "no loop over %s" % M[1].split("::")[-1], cfgname)
                continue
            j, shp = loops_[wi]
            if shp["exits"]:
                r5.bad(site, f.loc(shp["exits"][0][0]), "'%s' inside the bulk loop: the elements after it are never visited" % shp["exits"][0][1], cfgname)
                continue
            if not covers(shp, M):
                r5.bad(site, f.loc(j), "the bulk loop does not run over all of %s (start %s, bound %s)" % (M[1].split("::")[-1], shp.get("start"), shp.get("bound")), cfgname)
                continue
            acts = [x for x, n_ in f.walk(shp["body"]) if n_["k"] == "call" and strip_targs(n_.get("cname") or "") in action_names]
            if not acts:
                raise AnalysisBroken("the per-element action (%s) is not called inside the loop" % ", ".join(a_.split("::")[-1] for a_ in action_names))
            # an action inside an inner loop (over the parts of the element): what must happen for every element is that inner loop
            # (it may run zero times); its condition is evaluated whenever the loop statement is reached
            acts2 = []
            for a_ in acts:
                inner = [L_ for L_ in enclosing_loops(f, a_) if L_ != j and any(x == L_ for x, _ in f.walk(shp["body"]))]
                if inner and f.nodes[inner[-1]].get("c") is not None:
                    acts2.append(f.nodes[inner[-1]]["c"])
                else:
                    acts2.append(a_)
            acts = acts2
            skips = skipping_paths(f, ctx, j, acts)
            bad_skip = None
            for pf in skips:
                if skip_ok == "colour":
                    # allowed: the element belongs to another colour (a comparison of the element's colour with this rank's colour)
                    colourish = [x for x in pf if key_contains(x, lambda y: y[0] == "var" and "color" in str(y[2]).lower())]
                    if colourish:
                        continue
                bad_skip = pf
            if bad_skip is not None:
                conds = "; ".join(sorted(str(x)[:80] for x in bad_skip if x[0] in ("true", "false")))[:200]
                r5.bad(site, f.loc(j), "some elements are skipped: an iteration can finish without %s (%s)" % (action_names[0].split("::")[-1], conds or "unconditionally"), cfgname)
            else:
                r5.ok(site, f.loc(j), "every element of %s is visited and %s is executed for it%s" % (M[1].split("::")[-1], action_names[0].split("::")[-1],
                                                                                                     " (except elements of another colour)" if skip_ok else ""), cfgname)
    # the running component counter that selects colour (compute loop) and sender (distribution loop) must advance for the same
    # elements in both loops, otherwise an element is published from a rank of another colour
    f = db.fn("Pomerol::TwoParticleGFContainer::computeAll_split")
    ctx = Ctx(f, db)
    site = "Pomerol::TwoParticleGFContainer::computeAll_split:component-counter"
    with r5.guard(site, f.loc(), cfgname):
        loops_all = map_loops(f, ctx, NTE)
        has = lambda s_, nm: any(n_["k"] == "call" and strip_targs(n_.get("cname") or "") == nm for _, n_ in f.walk(s_["body"]))
        lc = [x for x in loops_all if has(x[1], G2q + "compute")]
        lb = [x for x in loops_all if has(x[1], "boost::mpi::broadcast")]
        loops_ = [lc[0], lb[0]] if lc and lb and lc[0][0] != lb[0][0] else []
        if len(loops_) >= 2:
            # the counter: an integer local incremented inside / in the header of both loops
            def incs_of(L):
                ln = f.nodes[L]
                nodes_ = {x for part in ("body", "inc") if ln.get(part) is not None for x, _ in f.walk(ln[part])}
                return {d: [m for m in ms if m in nodes_] for d, ms in ctx.mut.items() if any(m in nodes_ for m in ms) and "int" in (ctx.decls.get(d, {}).get("t") or "") + "int" * ("size_t" in (ctx.decls.get(d, {}).get("t") or ""))}
            c0, c1 = incs_of(loops_[0][0]), incs_of(loops_[1][0])
            common = [d for d in c0 if d in c1 and not any(d == s_[1]["var"][1] for s_ in loops_)]
            if not common:
                r5.ok(site, f.loc(), "no shared running counter between the compute loop and the distribution loop", cfgname)
            else:
                d = common[0]
                every = []
                for (L, shp), ms in ((loops_[0], c0[d]), (loops_[1], c1[d])):
                    in_header = any(m in {x for x, _ in f.walk(f.nodes[L]["inc"])} for m in ms) if f.nodes[L].get("inc") is not None else False
                    if in_header:
                        every.append(not shp["continues"] or True)       # the header increment runs after every iteration, also after `continue`
                    else:
                        ev = [P_.every_iteration(f, L, m) for m in ms]
                        every.append(all(x is True for x in ev) and len(ms) == 1)
                if every[0] == every[1]:
                    r5.ok(site, f.loc(), "'%s' advances once per element in both loops" % ctx.decls[d]["n"] if every[0] else "'%s' advances under conditions in both loops (conditions not compared)" % ctx.decls[d]["n"], cfgname)
                else:
                    r5.bad(site, f.loc(loops_[0][0]), "the component counter '%s' advances for every element in one loop over NonTrivialElements but only for some elements in the other: after the first skipped element "
                           "the colour used for computing an element and the sender used for publishing it belong to different components (a rank that never computed the element broadcasts its empty terms)" % ctx.decls[d]["n"], cfgname)
        else:
            raise AnalysisBroken("the two loops over NonTrivialElements were not found")
    # fill(): every requested combination reaches set() unless present
    fills = [f for f in db.fns.values() if strip_targs(f.name) == IC4 + "::fill"]
    for f in sorted(fills, key=lambda x: x.qn):
        ctx = Ctx(f, db)
        calls = [j for j, n in f.walk(f.body) if n["k"] == "call" and strip_targs(n.get("cname") or "") == IC4 + "::set"]
        site = "%s:requests" % strip_targs(f.name)
        with r5.guard(site, f.loc(), cfgname):
            if len(calls) != 1:
                raise AnalysisBroken("fill(): expected one call of set()")
            C = calls[0]
            L = [x for x in enclosing_loops(f, C) if f.nodes[x]["k"] in ("for", "forrange")]
            if not L:
                raise AnalysisBroken("fill(): set() is not called from a loop over the requested combinations")
            shp = loop_shape(f, ctx, L[0])
            if shp["kind"] not in ("iter", "range") or shp["exits"]:
                if shp["exits"]:
                    r5.bad(site, f.loc(shp["exits"][0][0]), "fill() stops at the first '%s': later requested combinations are never stored" % shp["exits"][0][1], cfgname)
                    continue
                raise AnalysisBroken("fill(): loop form not recognised")
            arg = ctx.key(f.nodes[C]["args"][0])
            if not is_element(arg, shp, shp["bound"]):
                r5.bad(site, f.loc(C), "set() is not called with the combination visited by the loop (%s)" % f.s(f.nodes[C]["args"][0])[:50], cfgname)
                continue
            bad_skip = None
            for pf in skipping_paths(f, ctx, L[0], [C]):
                present = [x for x in pf if x[0] == "true" and x[1][0] == "mcall" and x[1][1] == IC4 + "::isInContainer" and is_element(x[1][3], shp, shp["bound"])]
                if not present:
                    bad_skip = pf
            if bad_skip is not None:
                r5.bad(site, f.loc(C), "fill() does not hand every requested combination (not yet present) to set(): an iteration can skip it under %s" % (
                    "; ".join(sorted(str(x)[:70] for x in bad_skip if x[0] in ("true", "false")))[:160] or "no condition"), cfgname)
            else:
                r5.ok(site, f.loc(), "set(x) for every requested combination x not yet present", cfgname)

    r7 = chk.rule("C13-R7", "the default component set, together with the exchange aliases set() adds, reaches every index quadruple: Index1 and Index3 run over all indices, Index2 / Index4 over all indices or from their partner upwards, nothing is filtered", "F1 full-range loops", 1)
    check_default_quadruples(r7, db, cfgname)

    # operator()(Indices) returns the stored entry on a hit and creates it on a miss: the look-up result is dereferenced on the
    # found edge only (rule C17-R8, instances of IndexContainer4), re-evaluated under C13-R6
    from pv.check import FilteredRule, ViewCheck
    from checks import c17
    rr6 = chk.rule("C13-R6", "set(Indices) and operator()(Indices) hand out the entry stored under the requested quadruple", "F1 dominance", 1)
    c17.body(ViewCheck(chk, {"C17-R8": FilteredRule(rr6, lambda st: "Pomerol::IndexContainer4" in st)}), db, cfgname)
    r8 = chk.rule("C13-R8", "the container key IndexCombination4 is ordered by a strict total order on (Index1..Index4), and its ==/!= agree with it: every index quadruple is its own entry", "F8 guards (comparator bodies evaluated on all pairs of a small domain)", 3)
    from checks.orders import check_key_class
    check_key_class(r8, db, cfgname, "Pomerol::IndexCombination4", ["Index1", "Index2", "Index3", "Index4"])

    chk.undecided.append("value-level equality with a directly constructed TwoParticleGF (follows from R1/R2 + C02); behaviour of createElement for unprepared operators")


def comp_key(comp, i):
    for k, v in comp.items():
        if v == i:
            return k


def post_dominates(f, px, pj):
    """every path from pj to the exit passes px (block-level, conservative)."""
    cfg = f.cfg
    if px[0] == pj[0]:
        return px[1] >= pj[1]
    # remove block of px: is exit still reachable from pj's block?
    seen = {pj[0]}
    stack = [pj[0]]
    while stack:
        b = stack.pop()
        if b == cfg.exit:
            return False
        for s in cfg.blocks[b].succs:
            if s is not None and s != px[0] and s not in seen:
                seen.add(s)
                stack.append(s)
    return True


if __name__ == "__main__":
    run_check("C13", "2PGF container exchange symmetries and bookkeeping", body)
