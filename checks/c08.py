"""C08 — observables do not depend on the symmetry partition (structural clauses only).

The statement is relational (two runs with different partitions agree).  What makes it true in the code is that
the partition enters every later stage only through (a) the classification of states, (b) the block-to-block bimaps
of the field operators and (c) the stripe selections built from those bimaps.  This check re-evaluates, under C08's
own rule ids, exactly those rules of C07, C10, C01, C02, C14 and C09 — each is a necessary condition: a state
classified twice, an operator part dropped for block pairs that only occur under another partition (e.g. Left == Right
when symmetries are ignored), or a stripe selection that filters bimap entries changes the observables for some
partition while the default one (the only one the tests use) is unaffected.
Not decided: the numerical agreement itself."""
from pv.check import run_check, ViewCheck
from checks import c01, c02, c07, c09, c10, c14


def db_repo(db):
    from pv import pipeline
    return pipeline.REPO


def body(chk, db, cfgname):
    r1 = chk.rule("C08-R1", "every partition is a partition: each Fock state classified exactly once, (block, position) addresses round-trip, integrals of motion accepted only after they commute with H and all n_i", "F1 pairing/dominance (rules C07-R1..R3)", 9)
    r2 = chk.rule("C08-R2", "operator bimaps are complete for every partition: one part per right block with an image block, no filter that depends on which blocks coincide; c, c+ and c+c built alike; annihilation part is the adjoint for every block pair", "F4 siblings + F1 (rules C07-R5, C10-R2, C10-R4)", 8)
    r3 = chk.rule("C08-R3", "stripe selections consume the bimaps completely: G, chi, the two-particle function and <c+c> create a part for every pair/chain of blocks the operators connect and bind each part to the data of exactly those blocks", "F5 index spaces + F1 walks (rules C01-R2/R3, C14-R2, C02-R3/R4, C09-R4)", 24)
    r4 = chk.rule("C08-R4", "index-space discipline: inside a block, eigenstate numbers and Fock positions are never confused (a confusion is invisible for 1x1 and 2x2 blocks and shows with coarser partitions)", "F5 index spaces (rules C09-R5, C10-R3)", 8)
    c07.body(ViewCheck(chk, {"C07-R1": r1, "C07-R2": r1, "C07-R3": r1, "C07-R6": r1, "C07-R5": r2}), db, cfgname)
    c10.body(ViewCheck(chk, {"C10-R2": r2, "C10-R4": r2, "C10-R3": r4}), db, cfgname)
    c01.body(ViewCheck(chk, {"C01-R2": r3, "C01-R3": r3}), db, cfgname)
    c14.body(ViewCheck(chk, {"C14-R2": r3}), db, cfgname)
    c02.body(ViewCheck(chk, {"C02-R3": r3, "C02-R4": r3}), db, cfgname)
    c09.body(ViewCheck(chk, {"C09-R4": r3, "C09-R5": r4}), db, cfgname)
    # ------------------------------------------------------------------ R5: the numerical kernels never look at *which* block they are in
    r5 = chk.rule("C08-R5", "partition transparency of the kernels: inside the per-block computations the identity of a block (BlockNumber / QuantumNumbers) is used only to fetch data, never compared or branched on, and no single Fock state stands for a whole block", "F4 effects / who-may-compare", 12)
    KERNELS = ("Pomerol::GreensFunctionPart", "Pomerol::SusceptibilityPart", "Pomerol::TwoParticleGFPart", "Pomerol::DensityMatrixPart", "Pomerol::FieldOperatorPart",
               "Pomerol::HamiltonianPart", "Pomerol::CreationOperatorPart", "Pomerol::AnnihilationOperatorPart", "Pomerol::QuadraticOperatorPart")
    extra = [x for x in db.fns.values() if x.qn in ("Pomerol::EnsembleAverage::compute",)]
    from pv.expr import Ctx
    for f in sorted([x for x in db.fns.values() if (x.rec in KERNELS or x in extra) and x.body is not None and x.body >= 0 and x.file.startswith(db_repo(db))], key=lambda x: (x.file, x.line)):
        ncmp = nfs = 0
        bad = None
        ctx = None
        for j, n in f.walk(f.body):
            ops = []
            if n["k"] == "bin" and n["op"] in ("==", "!=", "<", ">", "<=", ">="):
                ops = [n["l"], n["r"]]
            elif n["k"] == "call" and n.get("ck") == "op" and n.get("op") in ("==", "!=", "<", ">", "<=", ">="):
                ops = n["args"]
            if ops:
                ncmp += 1
                for a in ops:
                    t = f.nodes[a].get("t", "")
                    if "BlockNumber" in t or "QuantumNumbers" in t:
                        bad = bad or (j, "compares block identities (%s): the result of the computation then depends on how the states were partitioned, e.g. terms between degenerate states are treated differently when the partition puts them into different blocks" % f.s(j)[:70])
            if n["k"] == "call" and n.get("ck") == "method" and (n.get("cname") or "").endswith("StatesClassification::getFockState") and len(n["args"]) == 2:
                nfs += 1
                ctx = ctx or Ctx(f, db)
                ik = ctx.key(n["args"][1])
                if ik[0] == "lit" or (ik[0] == "cast" and ik[2][0] == "lit"):
                    bad = bad or (j, "reads Fock state number %s of the block as a representative of the whole block (%s): valid only if the partition makes that property constant inside a block (it does not when symmetries are ignored or N is not among the integrals of motion)" % (ik[-1][-1] if ik[0] == "cast" else ik[1], f.s(j)[:60]))
        if ncmp == 0 and nfs == 0:
            continue
        site = "%s/%d:block-identity" % (f.qn, len(f.params))
        if bad:
            r5.bad(site, f.loc(bad[0]), bad[1], cfgname)
        else:
            r5.ok(site, f.loc(), "%d comparisons, none on a block identity; %d Fock-state reads, all at a running position" % (ncmp, nfs), cfgname)
    chk.undecided.append("agreement of the computed spectrum, averages, G, chi and susceptibilities between two partitions to numerical precision (relational, value level); that an accepted non-linear integral of motion really block-diagonalises H")


if __name__ == "__main__":
    run_check("C08", "observables independent of the symmetry partition: structural clauses", body)
