"""C01 — single-particle Matsubara Green's function equals its definition (DESIGN.md §3 C01).
Decides the structure of the Lehmann sum (index-space typed formula), stripe binding, walk discipline,
Matsubara grid, term reduction and container transparency.  Not decided: that the Lehmann sum equals the
tau-integral (documentation), numerical accuracy, Eigen."""
from pv.check import run_check
from pv.entail import canon, entails
from pv.expr import Ctx, guard_facts, key_contains
from pv.facts import AnalysisBroken, strip_targs
from pv.formula import Formula
from pv.loops import loop_shape, no_early_exit
from checks import lehmann as lh
from checks.lehmann import fld, THIS

GFP = "Pomerol::GreensFunctionPart"
GF = "Pomerol::GreensFunction"


def body(chk, db, cfgname):
    r1 = chk.rule("C01-R1", "Lehmann term of G: residue, pole and term value, typed by index space", "F5+F6 formula", 5)
    info = lh.check_part_compute(r1, db, cfgname, GFP + "::compute", "C", "CX", +1)
    lh.check_term_value(r1, db, cfgname, GFP, +1, bosonic=False) if False else None
    t = db.fn(GFP + "::Term::operator()", nparams=1)
    tctx = Ctx(t, db)
    F = Formula()
    R = F.name_atom(fld(GFP + "::Term::Residue"), "R")
    P = F.name_atom(fld(GFP + "::Term::Pole"), "P")
    z = F.name_atom(("param", t.params[0]["d"], t.params[0]["n"]), "z")
    rets = [j for j, n in t.walk(t.body) if n["k"] == "return"]
    got = F.conv(tctx.key(t.nodes[rets[0]]["sub"]))
    if F.equal(got, R / (z - P)):
        r1.ok(GFP + "::Term::operator()(z)", t.loc(), "== R/(z-P)", cfgname)
    else:
        r1.bad(GFP + "::Term::operator()(z)", t.loc(), "term value is %s, expected R/(z - P)%s" % (got, lh.wit(F, got, R / (z - P))), cfgname)
    # relevance filter: |Residue| > MatrixElementTolerance, tolerance <= 1e-8
    if info:
        f, ctx, at, J = info["f"], info["ctx"], info["at"], info["add"]
        site = GFP + "::compute:relevance-filter"
        fa = at.get(f.cfg.pos1(J), frozenset())
        tol = fld(GFP + "::MatrixElementTolerance")
        flt = [x for x in fa if x[0] == "<" and x[1] == tol and x[2][0] == "call" and x[2][1] in ("abs", "std::abs")]
        if flt:
            r1.ok(site, f.loc(J), "term kept iff |Residue| > MatrixElementTolerance", cfgname)
        else:
            r1.bad(site, f.loc(J), "terms are not filtered by |Residue| > MatrixElementTolerance (documented drop threshold)", cfgname)

    r2 = chk.rule("C01-R2", "block stripe binding in GreensFunction::prepare: parts are built from the blocks the operators connect", "F5 index spaces", 3)
    r3 = chk.rule("C01-R3", "merge-walk discipline at block level and element level", "F1 pairing", 2)
    c = lh.check_prepare(r2, r3, db, cfgname, GF, GFP, "C", "CX")
    if info:
        lh.check_walk(r3, cfgname, info, GFP + "::compute")
    cctx = Ctx(c, db)

    r4 = chk.rule("C01-R4", "fermionic Matsubara grid: value at n is the value at i*pi*(2n+1)/beta", "F6 formula", 3)
    lh.check_matsubara(r4, db, cfgname, GF + "::operator()", True)
    lh.check_matsubara(r4, db, cfgname, GFP + "::operator()", True)
    lh.check_thermal(r4, db, cfgname)

    r5 = chk.rule("C01-R5", "term reduction: like poles merged, negligible sums dropped; documented tolerances", "F1 pairing", 2)
    lh.check_termlist(r5, db, cfgname, GFP + "::Term")
    site = GFP + ":tolerances"
    bad = []
    for i in c.d.get("inits", []):
        k = cctx.key(i["e"])
        if i.get("field") == "Terms":
            lits = []
            key_contains(k, lambda y: (lits.append(y[1]) if y[0] == "lit" else None) and False)
            if not lits or any(not (0 < float(v) <= 1e-8) for v in lits):
                bad.append("Terms(Compare(%s), IsNegligible(..)) exceeds the documented 1e-8" % lits)
        if i.get("field") == "MatrixElementTolerance":
            if not (k[0] == "lit" and 0 < float(k[1]) <= 1e-8):
                bad.append("MatrixElementTolerance = %s exceeds the documented 1e-8" % (k[1] if k[0] == "lit" else k,))
    if bad:
        r5.bad(site, c.loc(), "; ".join(bad), cfgname)
    else:
        r5.ok(site, c.loc(), "pole-merge, negligibility and residue tolerances are <= 1e-8", cfgname)
    cmpf = db.fn(GFP + "::Term::Compare::operator()", nparams=2)
    cctx2 = Ctx(cmpf, db)
    rets = [j for j, n in cmpf.walk(cmpf.body) if n["k"] == "return"]
    k = cctx2.key(cmpf.nodes[rets[0]]["sub"])
    t1, t2 = [("param", p["d"], p["n"]) for p in cmpf.params]
    pole = lambda t_: ("field", GFP + "::Term::Pole", t_)
    site = GFP + "::Term::Compare"
    Fc = Formula(real_atoms=True)
    p1, p2 = Fc.name_atom(pole(t1), "P1"), Fc.name_atom(pole(t2), "P2")
    tl = Fc.name_atom(fld(GFP + "::Term::Compare::Tolerance"), "tol")
    okc = False
    if k[0] == "op" and k[1] in (">=", "<=", ">", "<"):
        d_ = Fc.conv(k[2]) - Fc.conv(k[3])
        if k[1] in ("<=", "<"):
            d_ = -d_
        # t1 "less than" t2  iff  P2 - P1 - tol >= 0   (strict '>' differs only on a null set)
        okc = Fc.equal(d_, p2 - p1 - tl)
    if okc:
        r5.ok(site, cmpf.loc(), "t1 < t2 iff t2.Pole - t1.Pole >= Tolerance (poles closer than Tolerance are equivalent)", cfgname)
    else:
        r5.bad(site, cmpf.loc(), "ordering of terms is not 't2.Pole - t1.Pole >= Tolerance': like poles are not merged / unlike ones are", cfgname)
    neg = db.fn(GFP + "::Term::IsNegligible::operator()", nparams=2)
    nctx = Ctx(neg, db)
    rets = [j for j, n in neg.walk(neg.body) if n["k"] == "return"]
    k = nctx.key(neg.nodes[rets[0]]["sub"])
    tt, dv = [("param", p["d"], p["n"]) for p in neg.params]
    site = GFP + "::Term::IsNegligible"
    Fn = Formula(real_atoms=True)
    absr = Fn.name_atom(("call", "std::abs", ("field", GFP + "::Term::Residue", tt)), "absR")
    Fn.alias[("call", "abs", ("field", GFP + "::Term::Residue", tt))] = ("call", "std::abs", ("field", GFP + "::Term::Residue", tt))
    tl = Fn.name_atom(fld(GFP + "::Term::IsNegligible::Tolerance"), "tol")
    dd = Fn.name_atom(dv, "div")
    okn = False
    if k[0] == "op" and k[1] in ("<", ">", "<=", ">="):
        d_ = Fn.conv(k[2]) - Fn.conv(k[3])
        if k[1] in (">", ">="):
            d_ = -d_
        # |R| - tol/div < 0, also accepted multiplied by the positive divisor
        okn = Fn.equal(d_, absr - tl / dd) or Fn.equal(d_, absr * dd - tl)
    if okn:
        r5.ok(site, neg.loc(), "|Residue| < Tolerance / divisor", cfgname)
    else:
        r5.bad(site, neg.loc(), "negligibility test is not |Residue| < Tolerance/divisor", cfgname)

    r6 = chk.rule("C01-R6", "values read through GFContainer are those of GreensFunction(C_i, CX_j)", "F1 dominance", 3)
    ce = db.fn("Pomerol::GFContainer::createElement", nparams=1)
    cectx = Ctx(ce, db)
    ind = ("param", ce.params[0]["d"], ce.params[0]["n"])
    news = [j for j, n in ce.walk(ce.body) if n["k"] == "new"]
    site = "Pomerol::GFContainer::createElement"
    good = False
    if len(news) == 1:
        k = cectx.key(news[0])
        a = k[2]
        ops = fld("Pomerol::GFContainer::Operators")
        if len(a) >= 7 and a[4] == ("mcall", "Pomerol::FieldOperatorContainer::getAnnihilationOperator", ops, ("field", "Pomerol::IndexCombination2::Index1", ind)) and \
                a[5] == ("mcall", "Pomerol::FieldOperatorContainer::getCreationOperator", ops, ("field", "Pomerol::IndexCombination2::Index2", ind)):
            good = True
    if good:
        r6.ok(site, ce.loc(), "GreensFunction(S, H, c(Index1), c^+(Index2), DM)", cfgname)
    else:
        r6.bad(site, ce.loc(), "the element for (Index1, Index2) is not built from the annihilation operator of Index1 and the creation operator of Index2", cfgname)
    for nm in ("computeAll", "prepareAll"):
        fn_ = db.fn("Pomerol::GFContainer::" + nm)
        fctx = Ctx(fn_, db)
        site = "Pomerol::GFContainer::" + nm
        good = False
        for j, n in fn_.walk(fn_.body):
            if n["k"] == "for":
                shp = loop_shape(fn_, fctx, j)
                if shp["kind"] == "iter" and shp["bound"] == fld("Pomerol::IndexContainer2::ElementsMap") and no_early_exit(shp):
                    good = True
        if good:
            r6.ok(site, fn_.loc(), "visits every element of ElementsMap", cfgname)
        else:
            r6.bad(site, fn_.loc(), "does not visit every element of ElementsMap", cfgname)
    ops_ = [x for x in db.fns.values() if x.qn.startswith("Pomerol::IndexContainer2<Pomerol::GreensFunction, Pomerol::GFContainer>::operator()") and len(x.params) == 1]
    for o in ops_:
        octx = Ctx(o, db)
        oat = guard_facts(o, octx)
        ind = ("param", o.params[0]["d"], o.params[0]["n"])
        em = fld("Pomerol::IndexContainer2::ElementsMap")
        fk, ek = ("mcall", "std::map::find", em, ind), ("mcall", "std::map::end", em)
        site = "Pomerol::IndexContainer2::operator()"
        good = True
        for j, n in o.walk(o.body):
            if n["k"] == "return":
                k = octx.key(n["sub"])
                fa = oat.get(o.cfg.pos1(n["sub"]), frozenset())
                if k == ("mcall", "Pomerol::IndexContainer2::set", THIS, ind):
                    good = good and entails(fa, ("==",) + tuple(sorted([fk, ek], key=repr)))
                elif k in (("op", "*", ("field", "std::pair::second", ("op", "->", fk))), ("un", "*", ("field", "std::pair::second", ("op", "->", fk)))):
                    good = good and entails(fa, ("!=",) + tuple(sorted([fk, ek], key=repr)))
                else:
                    good = False
        if good:
            r6.ok(site, o.loc(), "returns the stored element undecorated; creates it on a miss", cfgname)
        else:
            r6.bad(site, o.loc(), "operator()(Indices) does not return the element stored under Indices", cfgname)

    r_idem = chk.rule("C01-R7", "prepare()/compute() are idempotent: the early-return level is the level the function establishes", "F1 pairing", 5)
    from checks.lehmann import check_status_guards
    check_status_guards(r_idem, db, cfgname, ("Pomerol::GreensFunction", "Pomerol::FieldOperator", "Pomerol::CreationOperator", "Pomerol::AnnihilationOperator", "Pomerol::FieldOperatorPart"))
    chk.undecided.append("that the Lehmann sum equals -int_0^beta <T c(tau) c^+(0)> e^{iwt} dtau (taken from the documentation); numerical accuracy; Eigen's sparse kernels")


if __name__ == "__main__":
    run_check("C01", "single-particle Green's function: Lehmann structure", body)
