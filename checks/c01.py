"""C01 — single-particle Matsubara Green's function equals its definition (DESIGN.md §3 C01).
Decides the structure of the Lehmann sum (index-space typed formula), stripe binding, walk discipline,
Matsubara grid, term reduction and container transparency.  Not decided: that the Lehmann sum equals the
tau-integral (documentation), numerical accuracy, Eigen."""
from pv.check import run_check
from pv.entail import canon, entails
from pv.expr import Ctx, guard_facts, key_contains
from pv.facts import AnalysisBroken, strip_targs
from pv.formula import Formula
from pv.loops import loop_shape
from checks import lehmann as lh
from checks.lehmann import fld, THIS

GFP = "Pomerol::GreensFunctionPart"
GF = "Pomerol::GreensFunction"


def body(chk, db, cfgname):
    r1 = chk.rule("C01-R1", "Lehmann term of G: residue, pole and term value, typed by index space", "F5+F6 formula", 5)
    info = lh.check_part_compute(r1, db, cfgname, GFP + "::compute", "C", "CX", +1)
    lh.check_term_value(r1, db, cfgname, GFP, +1, bosonic=False) if False else None
    t = db.fn(GFP + "::Term::operator()", nparams=1)
    tctx = Ctx(t, db)
    F = Formula()
    R = F.name_atom(fld(GFP + "::Term::Residue"), "R")
    P = F.name_atom(fld(GFP + "::Term::Pole"), "P")
    z = F.name_atom(("param", t.params[0]["d"], t.params[0]["n"]), "z")
    rets = [j for j, n in t.walk(t.body) if n["k"] == "return"]
    got = F.conv(tctx.key(t.nodes[rets[0]]["sub"]))
    if F.equal(got, R / (z - P)):
        r1.ok(GFP + "::Term::operator()(z)", t.loc(), "== R/(z-P)", cfgname)
    else:
        r1.bad(GFP + "::Term::operator()(z)", t.loc(), "term value is %s, expected R/(z - P)%s" % (got, lh.wit(F, got, R / (z - P))), cfgname)
    # relevance filter: |Residue| > MatrixElementTolerance, tolerance <= 1e-8
    if info:
        f, ctx, at, J = info["f"], info["ctx"], info["at"], info["add"]
        site = GFP + "::compute:relevance-filter"
        fa = at.get(f.cfg.pos1(J), frozenset())
        tol = fld(GFP + "::MatrixElementTolerance")
        flt = [x for x in fa if x[0] == "<" and x[1] == tol and x[2][0] == "call" and x[2][1] in ("abs", "std::abs")]
        if flt:
            r1.ok(site, f.loc(J), "term kept iff |Residue| > MatrixElementTolerance", cfgname)
        else:
            r1.bad(site, f.loc(J), "terms are not filtered by |Residue| > MatrixElementTolerance (documented drop threshold)", cfgname)

    r2 = chk.rule("C01-R2", "block stripe binding in GreensFunction::prepare: parts are built from the blocks the operators connect", "F5 index spaces", 3)
    g = db.fn(GF + "::prepare", nparams=0)
    gctx = Ctx(g, db)
    gat = guard_facts(g, gctx)
    news = [j for j, n in g.walk(g.body) if n["k"] == "new" and n["at"] == GFP]
    if len(news) != 1:
        raise AnalysisBroken("GreensFunction::prepare: expected one 'new GreensFunctionPart'")
    N = news[0]
    fa = gat.get(g.cfg.pos1(N), frozenset())
    _, rw = canon([x for x in fa if x[0] == "=="])
    nk = gctx.key(N)
    args = [rw(strip_cast(a)) for a in nk[2][2:]]
    Cm, CXm = fld(GF + "::C"), fld(GF + "::CX")
    # iterators over the bimap views
    its = {}
    for d, v in gctx.decls.items():
        if v.get("init") is None:
            continue
        k = gctx.key(v["init"])
        maps = lambda op_: (("field", "Pomerol::FieldOperator::LeftRightBlocks", op_), ("mcall", "Pomerol::FieldOperator::getBlockMapping", op_))
        if k[0] == "mcall" and k[1].endswith("::begin") and k[2][0] == "field" and k[2][1].endswith("::left") and k[2][2] in maps(Cm):
            its["C"] = ("var", d, v["n"])
        if k[0] == "mcall" and k[1].endswith("::begin") and k[2][0] == "field" and k[2][1].endswith("::right") and k[2][2] in maps(CXm):
            its["CX"] = ("var", d, v["n"])
    site = GF + "::prepare:bimap-views"
    if set(its) != {"C", "CX"}:
        r2.bad(site, g.loc(), "the walk does not run over the LEFT view of c's block map and the RIGHT view of c^+'s block map (found %s)" % sorted(its), cfgname)
    else:
        r2.ok(site, g.loc(), "Citer over C.getBlockMapping().left, CXiter over CX.getBlockMapping().right", cfgname)
        Ci, CXi = its["C"], its["CX"]

        def pf(it, which):
            return [("field", "std::pair::" + which, ("op", "->", it))] + [("field", q, ("op", "->", it)) for q in ()]

        def memb(it, which):
            # bimap view iterators expose ->first / ->second
            out = []
            for fa_ in fa:
                pass
            return None
        # identify the four block variables by the member they read
        def blk(it, which):
            cands = set()
            for d, v in gctx.decls.items():
                if v.get("init") is None:
                    continue
                k = gctx.key(v["init"], inline=False)
                k = strip_conv(k)
                if k[0] == "field" and k[1].endswith("::" + which) and k[2] in (("op", "->", it), ("op", "*", it)):
                    cands.add(("var", d, v["n"]))
            return cands
        # keys are inlined in `args`; build expected keys from the inlined initialisers
        def inl(it, which):
            for d, v in gctx.decls.items():
                if v.get("init") is None:
                    continue
                k0 = strip_conv(gctx.key(v["init"], inline=False))
                if k0[0] == "field" and k0[1].endswith("::" + which) and k0[2] in (("op", "->", it), ("op", "*", it)):
                    return rw(strip_cast(gctx.key(v["init"])))
            return None
        Lb = inl(Ci, "first")     # left block of c  = outer space
        Rb = inl(Ci, "second")    # right block of c = inner space
        CXr = inl(CXi, "first")   # right view: first = right block of c^+
        CXl = inl(CXi, "second")
        site = GF + "::prepare:stripe-test"
        if None in (Lb, Rb, CXr, CXl):
            raise AnalysisBroken("GreensFunction::prepare: block variables are not read from ->first/->second of the two iterators")
        if Lb == CXr and Rb == CXl:
            r2.ok(site, g.loc(N), "part is created under left(c) == right(c^+) and right(c) == left(c^+)", cfgname)
        else:
            miss = []
            if Lb != CXr:
                miss.append("left block of c == right block of c^+")
            if Rb != CXl:
                miss.append("right block of c == left block of c^+")
            r2.bad(site, g.loc(N), "a part is created without the test %s: c and c^+ parts of different block pairs are combined" % " and ".join(miss), cfgname)
        want = [("mcall", "Pomerol::FieldOperator::getPartFromLeftIndex", Cm, Lb), ("mcall", "Pomerol::FieldOperator::getPartFromRightIndex", CXm, Lb),
                ("mcall", "Pomerol::Hamiltonian::getPart", fld(GF + "::H"), Rb), ("mcall", "Pomerol::Hamiltonian::getPart", fld(GF + "::H"), Lb),
                ("mcall", "Pomerol::DensityMatrix::getPart", fld(GF + "::DM"), Rb), ("mcall", "Pomerol::DensityMatrix::getPart", fld(GF + "::DM"), Lb)]
        names = ["C part (left index = outer block)", "CX part (right index = outer block)", "HpartInner = H(right block of c)", "HpartOuter = H(left block of c)",
                 "DMpartInner = DM(right block of c)", "DMpartOuter = DM(left block of c)"]
        site = GF + "::prepare:part-arguments"
        bad = [names[i] for i in range(6) if i >= len(args) or un_ptr(args[i]) != want[i]]
        if bad:
            r2.bad(site, g.loc(N), "GreensFunctionPart is constructed with wrong block data for: %s" % "; ".join(bad), cfgname)
        else:
            r2.ok(site, g.loc(N), "(C[L], CX[..,L], H[R], H[L], DM[R], DM[L]) with L = left block of c (outer), R = right block (inner)", cfgname)
    # constructor maps parameters to the members of the same role
    ctor = [x for x in db.fns_named(GFP + "::GreensFunctionPart") if x.kind == "ctor" and len(x.params) == 6]
    if len(ctor) != 1:
        raise AnalysisBroken("GreensFunctionPart constructor not found")
    c = ctor[0]
    cctx = Ctx(c, db)
    order = ["C", "CX", "HpartInner", "HpartOuter", "DMpartInner", "DMpartOuter"]
    site = GFP + "::GreensFunctionPart:member-binding"
    bad = []
    for i, nm in enumerate(order):
        ini = [x for x in c.d.get("inits", []) if x.get("field") == nm]
        if len(ini) != 1 or cctx.key(ini[0]["e"])[:2] != ("param", c.params[i]["d"]):
            bad.append(nm)
    if bad:
        r2.bad(site, c.loc(), "constructor parameter %d.. is not stored in the member of the same role: %s" % (order.index(bad[0]) + 1, bad), cfgname)
    else:
        r2.ok(site, c.loc(), "parameters (C, CX, HpartInner, HpartOuter, DMpartInner, DMpartOuter) initialise the members of the same name", cfgname)

    r3 = chk.rule("C01-R3", "merge-walk discipline at block level and element level", "F1 pairing", 2)
    if info:
        lh.check_walk(r3, cfgname, info, GFP + "::compute")
    check_block_walk(r3, g, gctx, gat, cfgname, GF + "::prepare", N)

    r4 = chk.rule("C01-R4", "fermionic Matsubara grid: value at n is the value at i*pi*(2n+1)/beta", "F6 formula", 3)
    lh.check_matsubara(r4, db, cfgname, GF + "::operator()", True)
    lh.check_matsubara(r4, db, cfgname, GFP + "::operator()", True)
    lh.check_thermal(r4, db, cfgname)

    r5 = chk.rule("C01-R5", "term reduction: like poles merged, negligible sums dropped; documented tolerances", "F1 pairing", 2)
    lh.check_termlist(r5, db, cfgname, GFP + "::Term")
    site = GFP + ":tolerances"
    bad = []
    for i in c.d.get("inits", []):
        k = cctx.key(i["e"])
        if i.get("field") == "Terms":
            lits = []
            key_contains(k, lambda y: (lits.append(y[1]) if y[0] == "lit" else None) and False)
            if not lits or any(not (0 < float(v) <= 1e-8) for v in lits):
                bad.append("Terms(Compare(%s), IsNegligible(..)) exceeds the documented 1e-8" % lits)
        if i.get("field") == "MatrixElementTolerance":
            if not (k[0] == "lit" and 0 < float(k[1]) <= 1e-8):
                bad.append("MatrixElementTolerance = %s exceeds the documented 1e-8" % (k[1] if k[0] == "lit" else k,))
    if bad:
        r5.bad(site, c.loc(), "; ".join(bad), cfgname)
    else:
        r5.ok(site, c.loc(), "pole-merge, negligibility and residue tolerances are <= 1e-8", cfgname)
    cmpf = db.fn(GFP + "::Term::Compare::operator()", nparams=2)
    cctx2 = Ctx(cmpf, db)
    rets = [j for j, n in cmpf.walk(cmpf.body) if n["k"] == "return"]
    k = cctx2.key(cmpf.nodes[rets[0]]["sub"])
    t1, t2 = [("param", p["d"], p["n"]) for p in cmpf.params]
    pole = lambda t_: ("field", GFP + "::Term::Pole", t_)
    site = GFP + "::Term::Compare"
    if k == ("op", ">=", ("op", "-", pole(t2), pole(t1)), fld(GFP + "::Term::Compare::Tolerance")) or \
            k == ("op", "<=", fld(GFP + "::Term::Compare::Tolerance"), ("op", "-", pole(t2), pole(t1))):
        r5.ok(site, cmpf.loc(), "t1 < t2 iff t2.Pole - t1.Pole >= Tolerance (poles closer than Tolerance are equivalent)", cfgname)
    else:
        r5.bad(site, cmpf.loc(), "ordering of terms is not 't2.Pole - t1.Pole >= Tolerance': like poles are not merged / unlike ones are", cfgname)
    neg = db.fn(GFP + "::Term::IsNegligible::operator()", nparams=2)
    nctx = Ctx(neg, db)
    rets = [j for j, n in neg.walk(neg.body) if n["k"] == "return"]
    k = nctx.key(neg.nodes[rets[0]]["sub"])
    tt, dv = [("param", p["d"], p["n"]) for p in neg.params]
    site = GFP + "::Term::IsNegligible"
    want = ("op", "<", ("call", "std::abs", ("field", GFP + "::Term::Residue", tt)), ("op", "/", fld(GFP + "::Term::IsNegligible::Tolerance"), dv))
    if k == want:
        r5.ok(site, neg.loc(), "|Residue| < Tolerance / divisor", cfgname)
    else:
        r5.bad(site, neg.loc(), "negligibility test is not |Residue| < Tolerance/divisor", cfgname)

    r6 = chk.rule("C01-R6", "values read through GFContainer are those of GreensFunction(C_i, CX_j)", "F1 dominance", 3)
    ce = db.fn("Pomerol::GFContainer::createElement", nparams=1)
    cectx = Ctx(ce, db)
    ind = ("param", ce.params[0]["d"], ce.params[0]["n"])
    news = [j for j, n in ce.walk(ce.body) if n["k"] == "new"]
    site = "Pomerol::GFContainer::createElement"
    good = False
    if len(news) == 1:
        k = cectx.key(news[0])
        a = k[2]
        ops = fld("Pomerol::GFContainer::Operators")
        if len(a) >= 7 and a[4] == ("mcall", "Pomerol::FieldOperatorContainer::getAnnihilationOperator", ops, ("field", "Pomerol::IndexCombination2::Index1", ind)) and \
                a[5] == ("mcall", "Pomerol::FieldOperatorContainer::getCreationOperator", ops, ("field", "Pomerol::IndexCombination2::Index2", ind)):
            good = True
    if good:
        r6.ok(site, ce.loc(), "GreensFunction(S, H, c(Index1), c^+(Index2), DM)", cfgname)
    else:
        r6.bad(site, ce.loc(), "the element for (Index1, Index2) is not built from the annihilation operator of Index1 and the creation operator of Index2", cfgname)
    for nm in ("computeAll", "prepareAll"):
        fn_ = db.fn("Pomerol::GFContainer::" + nm)
        fctx = Ctx(fn_, db)
        site = "Pomerol::GFContainer::" + nm
        good = False
        for j, n in fn_.walk(fn_.body):
            if n["k"] == "for":
                shp = loop_shape(fn_, fctx, j)
                if shp["kind"] == "iter" and shp["bound"] == fld("Pomerol::IndexContainer2::ElementsMap") and not shp["exits"]:
                    good = True
        if good:
            r6.ok(site, fn_.loc(), "visits every element of ElementsMap", cfgname)
        else:
            r6.bad(site, fn_.loc(), "does not visit every element of ElementsMap", cfgname)
    ops_ = [x for x in db.fns.values() if x.qn.startswith("Pomerol::IndexContainer2<Pomerol::GreensFunction, Pomerol::GFContainer>::operator()") and len(x.params) == 1]
    for o in ops_:
        octx = Ctx(o, db)
        oat = guard_facts(o, octx)
        ind = ("param", o.params[0]["d"], o.params[0]["n"])
        em = fld("Pomerol::IndexContainer2::ElementsMap")
        fk, ek = ("mcall", "std::map::find", em, ind), ("mcall", "std::map::end", em)
        site = "Pomerol::IndexContainer2::operator()"
        good = True
        for j, n in o.walk(o.body):
            if n["k"] == "return":
                k = octx.key(n["sub"])
                fa = oat.get(o.cfg.pos1(n["sub"]), frozenset())
                if k == ("mcall", "Pomerol::IndexContainer2::set", THIS, ind):
                    good = good and entails(fa, ("==",) + tuple(sorted([fk, ek], key=repr)))
                elif k in (("op", "*", ("field", "std::pair::second", ("op", "->", fk))), ("un", "*", ("field", "std::pair::second", ("op", "->", fk)))):
                    good = good and entails(fa, ("!=",) + tuple(sorted([fk, ek], key=repr)))
                else:
                    good = False
        if good:
            r6.ok(site, o.loc(), "returns the stored element undecorated; creates it on a miss", cfgname)
        else:
            r6.bad(site, o.loc(), "operator()(Indices) does not return the element stored under Indices", cfgname)

    chk.undecided.append("that the Lehmann sum equals -int_0^beta <T c(tau) c^+(0)> e^{iwt} dtau (taken from the documentation); numerical accuracy; Eigen's sparse kernels")


def strip_cast(k):
    while isinstance(k, tuple) and k[0] == "cast":
        k = k[2]
    return k


def strip_conv(k):
    k = strip_cast(k)
    if k[0] == "ctor" and k[1] == "Pomerol::BlockNumber" and len(k) == 3:
        return strip_conv(k[2])
    return k


def un_ptr(k):
    return strip_cast(k)


def check_block_walk(rule, g, gctx, gat, cfgname, name, N):
    """a++ only under ka <= kb, b++ only under ka >= kb, match under ka == kb (block level)"""
    site = name + ":walk"
    incs = []
    for j, n in g.walk(g.body):
        if n["k"] == "call" and n["ck"] == "op" and n.get("op") == "++":
            d = g.nodes[n["args"][0]]
            if d["k"] == "ref":
                incs.append((j, d["d"], d["n"]))
    if len(incs) < 2:
        raise AnalysisBroken("%s: expected two iterator increments, found %d" % (name, len(incs)))
    by_it = {}
    unguarded = []
    for j, d, nm in incs:
        fa = gat.get(g.cfg.pos1(j), frozenset())
        rel = [x for x in fa if x[0] == "<=" and key_contains(x[1], lambda y: y[0] == "var") and key_contains(x[2], lambda y: y[0] == "var")]
        mine = [x for x in rel if key_contains(x[1], lambda y: y[:2] == ("var", d))]
        if not mine:
            unguarded.append(nm)
        by_it.setdefault(d, []).extend(mine)
    good = not unguarded and len(by_it) == 2
    if good:
        a_, b_ = list(by_it.values())
        good = any(x[1] == y[2] and x[2] == y[1] for x in a_ for y in b_)
    if good:
        rule.ok(site, g.loc(), "one iterator advances under ka <= kb, the other under kb <= ka (both on equality): no block pair is skipped, every iteration progresses", cfgname)
    else:
        rule.bad(site, g.loc(), "the two block iterators are not advanced under complementary non-strict comparisons of their keys (a block pair can be skipped, or the walk stalls on equal keys)", cfgname)


if __name__ == "__main__":
    run_check("C01", "single-particle Green's function: Lehmann structure", body)
