"""C01 — single-particle Matsubara Green's function equals its definition (DESIGN.md §3 C01).
Decides the structure of the Lehmann sum (index-space typed formula), stripe binding, walk discipline,
Matsubara grid, term reduction and container transparency.  Not decided: that the Lehmann sum equals the
tau-integral (documentation), numerical accuracy, Eigen."""
from pv.check import run_check
from pv.entail import canon, entails
from pv.expr import Ctx, guard_facts, key_contains
from pv.facts import AnalysisBroken, strip_targs
from pv.formula import Formula
from pv.loops import loop_shape, no_early_exit
from checks import lehmann as lh
from checks.lehmann import fld, THIS
from checks.c20 import fact_str

GFP = "Pomerol::GreensFunctionPart"
GF = "Pomerol::GreensFunction"


def key_contains_any(shp, key):
    return any(isinstance(shp.get(x), tuple) and key_contains(shp[x], lambda y: y == key) for x in ("start", "bound"))


def body(chk, db, cfgname):
    r1 = chk.rule("C01-R1", "Lehmann term of G: residue, pole and term value, typed by index space", "F5+F6 formula", 5)
    info = lh.check_part_compute(r1, db, cfgname, GFP + "::compute", "C", "CX", +1)
    lh.check_term_value(r1, db, cfgname, GFP, +1, bosonic=False) if False else None
    t = db.fn(GFP + "::Term::operator()", nparams=1)
    tctx = Ctx(t, db)
    F = Formula()
    R = F.name_atom(fld(GFP + "::Term::Residue"), "R")
    P = F.name_atom(fld(GFP + "::Term::Pole"), "P")
    z = F.name_atom(("param", t.params[0]["d"], t.params[0]["n"]), "z")
    rets = [j for j, n in t.walk(t.body) if n["k"] == "return"]
    if len(rets) != 1:
        raise AnalysisBroken(GFP + "::Term::operator()(z): expected one return (several returns are not analysed)")
    got = F.conv(tctx.key(t.nodes[rets[0]]["sub"]))
    if F.equal(got, R / (z - P)):
        r1.ok(GFP + "::Term::operator()(z)", t.loc(), "== R/(z-P)", cfgname)
    else:
        r1.bad(GFP + "::Term::operator()(z)", t.loc(), "term value is %s, expected R/(z - P)%s" % (got, lh.wit(F, got, R / (z - P))), cfgname)
    # relevance filter: |Residue| > MatrixElementTolerance, tolerance <= 1e-8
    if info:
        f, ctx, at, J = info["f"], info["ctx"], info["at"], info["add"]
        site = GFP + "::compute:relevance-filter"
        fa = at.get(f.cfg.pos1(J), frozenset())
        tol = fld(GFP + "::MatrixElementTolerance")
        flt = [x for x in fa if x[0] == "<" and x[1] == tol and x[2][0] == "call" and x[2][1] in ("abs", "std::abs")]
        if flt:
            r1.ok(site, f.loc(J), "term kept iff |Residue| > MatrixElementTolerance", cfgname)
        else:
            r1.bad(site, f.loc(J), "terms are not filtered by |Residue| > MatrixElementTolerance (documented drop threshold)", cfgname)

    r2 = chk.rule("C01-R2", "block stripe binding in GreensFunction::prepare: parts are built from the blocks the operators connect", "F5 index spaces", 3)
    r3 = chk.rule("C01-R3", "merge-walk discipline at block level and element level", "F1 pairing", 2)
    c = lh.check_prepare(r2, r3, db, cfgname, GF, GFP, "C", "CX")
    if info:
        lh.check_walk(r3, cfgname, info, GFP + "::compute")
    cctx = Ctx(c, db)

    r4 = chk.rule("C01-R4", "fermionic Matsubara grid: value at n is the value at i*pi*(2n+1)/beta", "F6 formula", 3)
    lh.check_matsubara(r4, db, cfgname, GF + "::operator()", True)
    lh.check_matsubara(r4, db, cfgname, GFP + "::operator()", True)
    lh.check_thermal(r4, db, cfgname)

    r5 = chk.rule("C01-R5", "term reduction: like poles merged, negligible sums dropped; documented tolerances", "F1 pairing", 2)
    lh.check_termlist(r5, db, cfgname, GFP + "::Term")
    site = GFP + ":tolerances"
    bad = []
    for i in c.d.get("inits", []):
        k = cctx.key(i["e"])
        if i.get("field") == "Terms":
            lits = []
            key_contains(k, lambda y: (lits.append(y[1]) if y[0] == "lit" else None) and False)
            if not lits or any(not (0 < float(v) <= 1e-8) for v in lits):
                bad.append("Terms(Compare(%s), IsNegligible(..)) exceeds the documented 1e-8" % lits)
        if i.get("field") == "MatrixElementTolerance":
            if not (k[0] == "lit" and 0 < float(k[1]) <= 1e-8):
                bad.append("MatrixElementTolerance = %s exceeds the documented 1e-8" % (k[1] if k[0] == "lit" else k,))
    if bad:
        r5.bad(site, c.loc(), "; ".join(bad), cfgname)
    else:
        r5.ok(site, c.loc(), "pole-merge, negligibility and residue tolerances are <= 1e-8", cfgname)
    cmpf = db.fn(GFP + "::Term::Compare::operator()", nparams=2)
    cctx2 = Ctx(cmpf, db)
    rets = [j for j, n in cmpf.walk(cmpf.body) if n["k"] == "return"]
    if len(rets) != 1:
        raise AnalysisBroken(GFP + "::Term::Compare: expected one return (several returns are not analysed)")
    k = cctx2.key(cmpf.nodes[rets[0]]["sub"])
    t1, t2 = [("param", p["d"], p["n"]) for p in cmpf.params]
    pole = lambda t_: ("field", GFP + "::Term::Pole", t_)
    site = GFP + "::Term::Compare"
    Fc = Formula(real_atoms=True)
    p1, p2 = Fc.name_atom(pole(t1), "P1"), Fc.name_atom(pole(t2), "P2")
    tl = Fc.name_atom(fld(GFP + "::Term::Compare::Tolerance"), "tol")
    okc = False
    if k[0] == "op" and k[1] in (">=", "<=", ">", "<"):
        d_ = Fc.conv(k[2]) - Fc.conv(k[3])
        if k[1] in ("<=", "<"):
            d_ = -d_
        # t1 "less than" t2  iff  P2 - P1 - tol >= 0   (strict '>' differs only on a null set)
        okc = Fc.equal(d_, p2 - p1 - tl)
    if okc:
        r5.ok(site, cmpf.loc(), "t1 < t2 iff t2.Pole - t1.Pole >= Tolerance (poles closer than Tolerance are equivalent)", cfgname)
    else:
        r5.bad(site, cmpf.loc(), "ordering of terms is not 't2.Pole - t1.Pole >= Tolerance': like poles are not merged / unlike ones are", cfgname)
    neg = db.fn(GFP + "::Term::IsNegligible::operator()", nparams=2)
    nctx = Ctx(neg, db)
    rets = [j for j, n in neg.walk(neg.body) if n["k"] == "return"]
    if len(rets) != 1:
        raise AnalysisBroken(GFP + "::Term::IsNegligible: expected one return (several returns are not analysed)")
    k = nctx.key(neg.nodes[rets[0]]["sub"])
    tt, dv = [("param", p["d"], p["n"]) for p in neg.params]
    site = GFP + "::Term::IsNegligible"
    Fn = Formula(real_atoms=True)
    absr = Fn.name_atom(("call", "std::abs", ("field", GFP + "::Term::Residue", tt)), "absR")
    Fn.alias[("call", "abs", ("field", GFP + "::Term::Residue", tt))] = ("call", "std::abs", ("field", GFP + "::Term::Residue", tt))
    tl = Fn.name_atom(fld(GFP + "::Term::IsNegligible::Tolerance"), "tol")
    dd = Fn.name_atom(dv, "div")
    okn = False
    if k[0] == "op" and k[1] in ("<", ">", "<=", ">="):
        d_ = Fn.conv(k[2]) - Fn.conv(k[3])
        if k[1] in (">", ">="):
            d_ = -d_
        # |R| - tol/div < 0, also accepted multiplied by the positive divisor
        okn = Fn.equal(d_, absr - tl / dd) or Fn.equal(d_, absr * dd - tl)
    if okn:
        r5.ok(site, neg.loc(), "|Residue| < Tolerance / divisor", cfgname)
    else:
        r5.bad(site, neg.loc(), "negligibility test is not |Residue| < Tolerance/divisor", cfgname)

    r6 = chk.rule("C01-R6", "values read through GFContainer are those of GreensFunction(C_i, CX_j)", "F1 dominance", 3)
    ce = db.fn("Pomerol::GFContainer::createElement", nparams=1)
    cectx = Ctx(ce, db)
    ind = ("param", ce.params[0]["d"], ce.params[0]["n"])
    news = [j for j, n in ce.walk(ce.body) if n["k"] == "new"]
    site = "Pomerol::GFContainer::createElement"
    good = False
    if len(news) == 1:
        k = cectx.key(news[0])
        a = k[2]
        ops = fld("Pomerol::GFContainer::Operators")
        if len(a) >= 7 and a[4] == ("mcall", "Pomerol::FieldOperatorContainer::getAnnihilationOperator", ops, ("field", "Pomerol::IndexCombination2::Index1", ind)) and \
                a[5] == ("mcall", "Pomerol::FieldOperatorContainer::getCreationOperator", ops, ("field", "Pomerol::IndexCombination2::Index2", ind)):
            good = True
    if good:
        r6.ok(site, ce.loc(), "GreensFunction(S, H, c(Index1), c^+(Index2), DM)", cfgname)
    else:
        r6.bad(site, ce.loc(), "the element for (Index1, Index2) is not built from the annihilation operator of Index1 and the creation operator of Index2", cfgname)
    for nm in ("computeAll", "prepareAll"):
        fn_ = db.fn("Pomerol::GFContainer::" + nm)
        fctx = Ctx(fn_, db)
        site = "Pomerol::GFContainer::" + nm
        from pv.loops import covers, is_element
        from pv.paths import every_iteration
        em_ = fld("Pomerol::IndexContainer2::ElementsMap")
        want_call = "Pomerol::GreensFunction::" + ("compute" if nm == "computeAll" else "prepare")
        verdict, why, where = "unknown", "no loop over ElementsMap that calls %s() on its elements was recognised" % want_call.split("::")[-1], fn_.loc()
        for j, n in fn_.walk(fn_.body):
            if n["k"] in ("for", "while", "forrange"):
                shp = loop_shape(fn_, fctx, j)
                if not key_contains_any(shp, em_):
                    continue
                if not covers(shp, em_):
                    verdict, why, where = "bad", "the loop does not visit every element of ElementsMap", fn_.loc(j)
                    continue
                calls_ = [jj for jj, nn in fn_.walk(shp["body"]) if nn["k"] == "call" and strip_targs(nn.get("cname") or "") == want_call]
                if not calls_:
                    continue
                ev = every_iteration(fn_, j, calls_[0])
                if ev is True:
                    verdict, why, where = "ok", "", fn_.loc(j)
                elif ev is False:
                    fa_ = guard_facts(fn_, fctx).get(fn_.cfg.pos1(calls_[0]), frozenset())
                    if any(x[0] in ("true", "false") and key_contains(x[1], lambda y: (y[0] == "mcall" and y[1].endswith("::isVanishing")) or (y[0] == "field" and y[1].endswith("::Vanishing"))) for x in fa_):
                        verdict, why, where = "bad", "%s() is called only for elements whose Vanishing flag is already cleared, but the flag starts as true and only prepare() clears it: an element that entered the container by a cache miss / set() / fill() is never computed and evaluates to 0" % want_call.split("::")[-1], fn_.loc(calls_[0])
                    else:
                        verdict, why, where = "unknown", "%s() is skipped for some elements under a condition that is not analysed" % want_call.split("::")[-1], fn_.loc(calls_[0])
        if verdict == "ok":
            r6.ok(site, where, "visits every element of ElementsMap and calls %s() on each" % want_call.split("::")[-1], cfgname)
        elif verdict == "bad":
            r6.bad(site, where, why, cfgname)
        else:
            r6.unknown(site, where, why, cfgname)
    # default component set: prepareAll() without arguments must create every pair (i, j)
    enum_ = [x for x in db.fns.values() if x.qn.startswith("Pomerol::IndexContainer2<Pomerol::GreensFunction, Pomerol::GFContainer>::enumerateInitialIndices") and x.body is not None and x.body >= 0]
    site = "Pomerol::IndexContainer2::enumerateInitialIndices"
    if not enum_:
        raise AnalysisBroken("IndexContainer2<GreensFunction,GFContainer>::enumerateInitialIndices is not instantiated in the analysed units")
    e_ = enum_[0]
    with r6.guard(site, e_.loc(), cfgname):
        from pv.paths import every_iteration
        from pv.loops import enclosing_loops
        ectx = Ctx(e_, db)
        size_keys = (("mcall", "Pomerol::IndexClassification::getIndexSize", fld("Pomerol::IndexContainer2::IndexInfo")),
                     ("field", "Pomerol::IndexClassification::IndexSize", fld("Pomerol::IndexContainer2::IndexInfo")))
        ins = [j for j, n in e_.walk(e_.body) if n["k"] == "call" and n.get("ck") == "method" and strip_targs(n.get("cname") or "").split("::")[-1] in ("insert", "emplace")]
        if len(ins) != 1:
            raise AnalysisBroken("expected one insertion into the set of index pairs, found %d" % len(ins))
        I = ins[0]
        Ls = enclosing_loops(e_, I)
        shapes = [loop_shape(e_, ectx, L) for L in Ls]
        full = [s_ for s_ in shapes if s_["kind"] == "index" and s_["start"] == ("lit", 0) and s_["rel"] == "<" and ectx.key_full(s_["bound"]) in size_keys and not s_["exits"]] if hasattr(ectx, "key_full") else None
        if full is None:
            def _full(s_):
                b = s_["bound"]
                if b[0] == "var" and ectx.decls.get(b[1], {}).get("init") is not None and ectx.single_assignment(b[1]):
                    b = ectx.key(ectx.decls[b[1]]["init"])
                while b[0] == "cast":
                    b = b[2]
                return s_["kind"] == "index" and s_["start"] == ("lit", 0) and s_["rel"] == "<" and b in size_keys and not s_["exits"]
            full = [s_ for s_ in shapes if _full(s_)]
        ak = ectx.key(e_.nodes[I]["args"][0])
        while ak[0] in ("cast",) or (ak[0] == "ctor" and len(ak) == 3 and ak[2][0] == "ctor"):
            ak = ak[2]
        vars_ = [a[:2] for a in ak[2:]] if ak[0] == "ctor" else []
        if len(shapes) != 2 or len(full) != 2:
            partial = [s_ for s_ in shapes if s_ not in full]
            if len(shapes) == 2 and all(s_["kind"] == "index" for s_ in shapes):
                r6.bad(site, e_.loc(partial[0]["node"]), "the default set of components does not run over all pairs 0 <= i, j < IndexSize (loop `%s`)" % e_.s(partial[0]["node"])[:60], cfgname)
            else:
                r6.unknown(site, e_.loc(), "the enumeration of the default components is not a double loop over [0, IndexSize) (form not analysed)", cfgname)
        elif vars_ != [shapes[1]["var"][:2], shapes[0]["var"][:2]] and vars_ != [shapes[0]["var"][:2], shapes[1]["var"][:2]]:
            r6.bad(site, e_.loc(I), "the inserted combination is not (Index1, Index2) of the two loops", cfgname)
        elif every_iteration(e_, Ls[0], I) is True and every_iteration(e_, Ls[1], Ls[0]) is True:
            r6.ok(site, e_.loc(I), "every pair (i, j), 0 <= i, j < IndexSize, is a default component", cfgname)
        else:
            fa_ = guard_facts(e_, ectx).get(e_.cfg.pos1(I), frozenset())
            r6.bad(site, e_.loc(I), "pairs are left out of the default component set (kept only when %s): a component that is not created by prepareAll() is built unprepared on first access and evaluates to 0, although nothing makes G_ij vanish for the omitted pairs in general" % (
                " and ".join(sorted(fact_str(x) for x in fa_))[:200] or "a condition holds"), cfgname)
    ops_ = [x for x in db.fns.values() if x.qn.startswith("Pomerol::IndexContainer2<Pomerol::GreensFunction, Pomerol::GFContainer>::operator()") and len(x.params) == 1]
    for o in ops_:
        octx = Ctx(o, db)
        oat = guard_facts(o, octx)
        ind = ("param", o.params[0]["d"], o.params[0]["n"])
        em = fld("Pomerol::IndexContainer2::ElementsMap")
        fk, ek = ("mcall", "std::map::find", em, ind), ("mcall", "std::map::end", em)
        site = "Pomerol::IndexContainer2::operator()"
        good = True
        for j, n in o.walk(o.body):
            if n["k"] == "return":
                k = octx.key(n["sub"])
                fa = oat.get(o.cfg.pos1(n["sub"]), frozenset())
                if k == ("mcall", "Pomerol::IndexContainer2::set", THIS, ind):
                    good = good and entails(fa, ("==",) + tuple(sorted([fk, ek], key=repr)))
                elif k in (("op", "*", ("field", "std::pair::second", ("op", "->", fk))), ("un", "*", ("field", "std::pair::second", ("op", "->", fk)))):
                    good = good and entails(fa, ("!=",) + tuple(sorted([fk, ek], key=repr)))
                else:
                    good = False
        if good:
            r6.ok(site, o.loc(), "returns the stored element undecorated; creates it on a miss", cfgname)
        else:
            r6.bad(site, o.loc(), "operator()(Indices) does not return the element stored under Indices", cfgname)

    from pv.check import FilteredRule, ViewCheck
    from checks import c17
    rr6 = chk.rule("C01-R6", "values read through GFContainer are those of GreensFunction(C_i, CX_j)", "F1 dominance", 3)
    c17.body(ViewCheck(chk, {"C17-R8": FilteredRule(rr6, lambda st: "Pomerol::IndexContainer2" in st)}), db, cfgname)
    r8 = chk.rule("C01-R8", "the container key IndexCombination2 is ordered by a strict total order on (Index1, Index2), and its ==/!= agree with it: every component G_ij is its own entry", "F8 guards (comparator bodies evaluated on all pairs of a small domain)", 1)
    from checks.orders import check_key_class
    check_key_class(r8, db, cfgname, "Pomerol::IndexCombination2", ["Index1", "Index2"], domain=(0, 1, 2, 3))
    r_idem = chk.rule("C01-R7", "prepare()/compute() are idempotent: the early-return level is the level the function establishes", "F1 pairing", 5)
    from checks.lehmann import check_status_guards
    check_status_guards(r_idem, db, cfgname, ("Pomerol::GreensFunction", "Pomerol::FieldOperator", "Pomerol::CreationOperator", "Pomerol::AnnihilationOperator", "Pomerol::FieldOperatorPart"))
    from checks.lehmann import check_copy_ctors_complete
    check_copy_ctors_complete(r_idem, db, cfgname, ("Pomerol::GreensFunction",))
    chk.undecided.append("that the Lehmann sum equals -int_0^beta <T c(tau) c^+(0)> e^{iwt} dtau (taken from the documentation); numerical accuracy; Eigen's sparse kernels")


if __name__ == "__main__":
    run_check("C01", "single-particle Green's function: Lehmann structure", body)
