"""C06 — results independent of MPI ranks / OpenMP threads (DESIGN.md §3 C06).
Decides communicator discipline, collective matching across rank-dependent branches, root
publication, sync-set agreement, purity of the OpenMP region and MPI buffer extents.
Termination of the dispatcher for all schedules is NOT decided (see C16)."""
from pv.check import run_check
from pv.effects import Effects
from pv.entail import canon, entails
from pv.expr import Ctx, guard_facts, key_contains, key_subst
from pv.facts import AnalysisBroken, strip_targs
from pv.loops import enclosing_loops, loop_shape
from pv.spmd import Spmd, comm_roots, is_comm_type, msg_tainted, rank_tainted, rooted
from checks.c20 import fact_str


def lib_functions(db):
    return sorted([f for f in db.fns.values() if ("/src/" in f.file or "/include/" in f.file) and f.d.get("cfg") is not None
                   and f.body is not None and f.body >= 0], key=lambda f: (f.file, f.line, f.mangled))


def ks(k):
    return fact_str(("true", k))


def body(chk, db, cfgname):
    sp = Spmd(db)
    eff = Effects(db)
    fns = lib_functions(db)

    # ================================================================== R1
    r1 = chk.rule("C06-R1", "every collective / point-to-point call uses the communicator the function was given (or a split of it)", "F3 communicator discipline", 30)
    nscope = 0
    for f in fns:
        roots = comm_roots(f, db)
        if not roots:
            continue
        nscope += 1
        ctx = sp.ctx(f)
        for j, n in f.walk(f.body):
            if n["k"] == "ref" and n["dk"] == "global" and (n.get("q") or "").startswith("ompi_mpi_comm_"):
                r1.bad("%s:%s" % (f.qn, n["q"]), f.loc(j), "the world communicator (%s) is used inside a routine that was handed a communicator: on a split communicator "
                       "the ranks of other colours never reach this call (deadlock) or are synchronised needlessly" % n["q"], cfgname)
            if n["k"] == "construct" and strip_targs(n.get("crec") or "") == "boost::mpi::communicator" and not n["args"]:
                r1.bad("%s:default-communicator" % f.qn, f.loc(j), "a default-constructed boost::mpi::communicator (= MPI_COMM_WORLD) is created inside a routine that was handed a communicator", cfgname)
            if n["k"] == "call":
                c = sp.classify(f, j)
                if c is None or c.get("raw"):
                    continue
                ck = c["comm"]
                if ck is None:
                    continue
                site = "%s:%s@%s" % (f.qn, c["op"].split("::")[-1], ks(ck))
                if rooted(ck, roots):
                    r1.ok(site, f.loc(j), "communicator %s is the one the function was given (or split from it)" % ks(ck), cfgname)
                else:
                    r1.bad(site, f.loc(j), "%s is issued on %s, which is not derived from the communicator the function was given (%s)" % (
                        c["op"], ks(ck), ", ".join(ks(r) for r in roots)), cfgname)
    chk.extra["functions_with_communicator_in_scope"] = nscope

    # ================================================================== R2
    r2 = chk.rule("C06-R2", "rank-dependent branches issue matching collective sequences; loops around collectives are rank-invariant; dispatch loops are collective-free", "F3 SPMD matching", 12)
    for f in fns:
        if not comm_roots(f, db):
            continue
        ctx = sp.ctx(f)
        items = sp.seq(f, f.body)
        branches = {}
        loops = {}

        def collect(its):
            for it in its:
                if it["kind"] == "branch":
                    branches[it["node"]] = it
                    collect(it["then"])
                    collect(it["else"])
                elif it["kind"] == "loop":
                    loops[it["node"]] = it
                    collect(it["body"])
        collect(items)
        for j, n in f.walk(f.body):
            if n["k"] == "if":
                ck = ctx.key(n["c"])
                if not (rank_tainted(ck) or msg_tainted(ck)):
                    continue
                site = "%s:if(%s)" % (f.qn, f.s(n["c"])[:60])
                br = branches.get(j)
                if br is None:
                    r2.ok(site, f.loc(j), "rank-dependent branch contains no collective operation", cfgname)
                    continue
                t, e = br["then"], br["else"]
                if t and e:
                    why = match_arms(f, sp, ctx, n, t, e)
                    if why is None:
                        r2.ok(site, f.loc(j), "both arms issue the same %d collective(s) (operation, communicator, payload, count, root under the branch equality)" % len(list(Spmd.flat(t))), cfgname)
                    else:
                        r2.bad(site, f.loc(j), "the two arms of a rank-dependent branch do not issue matching collectives: " + why, cfgname)
                else:
                    arm = t or e
                    exc = split_colour_exception(f, sp, ctx, ck, arm)
                    if exc:
                        r2.ok(site, f.loc(j), "collectives in the arm are on the communicator split by the very colour expression tested in the condition (all members of that colour take the arm)", cfgname)
                    else:
                        first = next(Spmd.flat(arm))
                        r2.bad(site, f.loc(first["node"]), "a collective (%s) is issued in only one arm of a rank-dependent branch: ranks taking the other arm never reach it (deadlock / mismatched broadcast)" % first["op"], cfgname)
            if n["k"] in ("for", "while", "do"):
                ck = ctx.key(n["c"]) if n.get("c") is not None else ("lit", 1)
                lp = loops.get(j)
                site = "%s:loop(%s)" % (f.qn, f.s(n["c"])[:60] if n.get("c") is not None else "")
                if msg_tainted(ck) or rank_tainted(ck):
                    if lp is None:
                        r2.ok(site, f.loc(j), "loop whose trip count depends on the rank / on message arrival contains no collective", cfgname)
                    else:
                        first = next(Spmd.flat(lp["body"]))
                        r2.bad(site, f.loc(first["node"]), "collective %s inside a loop whose number of iterations differs between ranks (%s)" % (first["op"], f.s(n["c"])[:60]), cfgname)
                elif lp is not None:
                    r2.ok(site, f.loc(j), "loop around collectives has a rank-invariant condition", cfgname)

    # ================================================================== R3
    r3 = chk.rule("C06-R3", "data reduced to the root of a sub-communicator is published from that root (lowest world rank of the colour)", "F3 root publication", 2)
    g = db.fn("Pomerol::TwoParticleGF::compute")
    gctx = sp.ctx(g)
    red = [sp.classify(g, j) for j in g.calls(callee_re=r"^boost::mpi::reduce")]
    if not red:
        raise AnalysisBroken("TwoParticleGF::compute: no reduce found")
    root0 = all(c["root"] == ("lit", 0) for c in red)
    rets = [j for j, n in g.walk(g.body) if n["k"] == "return"]
    site = "Pomerol::TwoParticleGF::compute:reduce-root"
    if root0:
        r3.ok(site, g.loc(red[0]["node"]), "frequency table is reduced to rank 0 of the communicator passed in; consumers must read it there", cfgname)
    else:
        r3.bad(site, g.loc(red[0]["node"]), "the reduce root is not rank 0 of the given communicator (%s): consumers (computeAll_split) publish from rank 0 of the split communicator" % ks(red[0]["root"]), cfgname)
    h = db.fn("Pomerol::TwoParticleGFContainer::computeAll_split")
    hctx = sp.ctx(h)
    # the broadcast roots used to publish; find the maps they are read from
    pubs = [sp.classify(h, j) for j in h.calls(callee_re=r"^boost::mpi::broadcast")]
    rootmaps = set()
    for c in pubs:
        rk = c["root"]
        if rk[0] == "op" and rk[1] == "[]" and rk[2][0] == "var":
            rootmaps.add(rk[2])
    if not rootmaps:
        raise AnalysisBroken("computeAll_split: broadcast roots are not read from a per-colour map (idiom changed)")
    for M in sorted(rootmaps):
        site = "Pomerol::TwoParticleGFContainer::computeAll_split:%s" % M[2]
        writes = []
        for j, n in h.walk(h.body):
            if n["k"] == "bin" and n["op"] == "=":
                lk = hctx.key(n["l"], inline=False)
                if lk[0] == "op" and lk[1] == "[]" and lk[2][:2] == M[:2]:
                    writes.append((j, "assign"))
            if n["k"] == "call" and n["ck"] == "method" and n.get("obj") is not None and hctx.key(n["obj"], inline=False)[:2] == M[:2] \
                    and strip_targs(n.get("cname") or "").split("::")[-1] in ("insert", "emplace"):
                writes.append((j, "insert"))
        if not writes:
            raise AnalysisBroken("computeAll_split: per-colour root map %s is never written" % M[2])
        verdict = None
        for j, kind in writes:
            if kind == "insert":
                continue      # insert/emplace never overwrite: first writer wins
            L = enclosing_loops(h, j)
            if not L:
                verdict = (j, "the root of a colour is assigned outside a loop over the ranks")
                continue
            shp = loop_shape(h, hctx, L[0])
            fa = guard_facts(h, hctx).get(h.cfg.pos1(j), frozenset())
            ckey = hctx.key(h.nodes[h.nodes[j]["l"]]["args"][1]) if h.nodes[h.nodes[j]["l"]]["k"] == "call" else None
            first_wins = False
            for x in fa:
                # !M.count(c)  /  M.find(c) == M.end()
                if x[0] == "false" and x[1][0] == "mcall" and x[1][1] == "std::map::count" and x[1][2][:2] == M[:2]:
                    first_wins = True
                if x[0] == "==" and key_contains(x, lambda k: k[0] == "mcall" and k[1] == "std::map::find" and k[2][:2] == M[:2]) and \
                        key_contains(x, lambda k: k[0] == "mcall" and k[1] == "std::map::end"):
                    first_wins = True
                if x[0] == "==" and ((x[1] == ("lit", 0)) or x[2] == ("lit", 0)) and key_contains(x, lambda k: k[0] == "mcall" and k[1] == "std::map::count"):
                    first_wins = True
            rk = hctx.key(h.nodes[j]["r"], inline=False)
            minimum = rk[0] == "call" and rk[1] == "std::min"
            descending = shp["kind"] == "other" and h.nodes[L[0]].get("inc") is not None and h.nodes[h.nodes[L[0]]["inc"]]["k"] == "un" and h.nodes[h.nodes[L[0]]["inc"]]["op"] == "--"
            if first_wins or minimum or descending:
                continue
            if shp["kind"] == "index" and shp["start"] == ("lit", 0):
                verdict = (j, "%s[colour] = %s is overwritten on every iteration of an ascending loop over the ranks, so it ends as the LAST rank of the colour; "
                              "the table was reduced to rank 0 of comm.split(colour), i.e. the FIRST (lowest) rank: the published table is the all-zero buffer of a non-root rank" % (M[2], shp["var"][2]))
            else:
                verdict = (j, "cannot establish that %s[colour] holds the lowest rank of the colour" % M[2])
        # cross-check / decide by interpreting the colour bookkeeping (everything before the first barrier) for small
        # communicator sizes and component counts: the recorded root of a colour must be the lowest rank of that colour
        witness, ncases = None, 0
        try:
            witness, ncases = roots_by_interpretation(db, h, hctx, M, pubs)
        except AnalysisBroken as e_:
            if verdict is None:
                r3.ok(site, h.loc(writes[0][0]), "per-colour root is recorded first-writer-wins / as a minimum: it is rank 0 of the split communicator", cfgname)
            else:
                r3.bad(site, h.loc(verdict[0]), verdict[1], cfgname)
            continue
        if witness is not None:
            r3.bad(site, h.loc(writes[0][0]), (verdict[1] + "; " if verdict is not None and "LAST rank" in verdict[1] and witness[4] == "last" else "") +
                   "with %d ranks and %d components the root recorded for colour %d is rank %d, but the lowest rank of that colour (rank 0 of comm.split(colour), where the table was reduced) is rank %d: "
                   "the table is published from a rank that does not hold it" % witness[:4] if False else
                   "with %d ranks and %d components the root recorded for colour %d is rank %s, but the lowest rank of that colour (rank 0 of comm.split(colour), where the table was reduced) is rank %d: the table is published from a rank that does not hold it" % witness[:5], cfgname)
        else:
            r3.ok(site, h.loc(writes[0][0]), "per-colour root == lowest rank of the colour (%s; bookkeeping interpreted for %d (ranks, components) combinations up to 9 x 6)" % (
                "first-writer-wins / minimum form" if verdict is None else "unrecognised form", ncases), cfgname)

    # ================================================================== R4
    r4 = chk.rule("C06-R4", "every field written by a distributed part computation is transmitted to / set on the ranks that did not run it", "F4 effect vs sync set", 4)
    STATUS = "Pomerol::ComputableObject::Status"
    cases = [
        ("Pomerol::Hamiltonian::prepare", "Pomerol::HamiltonianPart::prepare", "Pomerol::HamiltonianPart"),
        ("Pomerol::Hamiltonian::compute", "Pomerol::HamiltonianPart::compute", "Pomerol::HamiltonianPart"),
        ("Pomerol::TwoParticleGF::compute", "Pomerol::TwoParticleGFPart::compute", "Pomerol::TwoParticleGFPart"),
        ("Pomerol::TwoParticleGFContainer::computeAll_split", "Pomerol::TwoParticleGFPart::compute", "Pomerol::TwoParticleGFPart"),
    ]
    for syncfn, partfn, partrec in cases:
        sf = db.fn(syncfn)
        pf = db.fn(partfn)
        written = {w for w in eff.this_writes(pf) if not w.startswith("deref:")}
        synced = sync_set(sf, sp, partrec, db)
        # a transfer that is conditional on the part's own data is not a synchronisation of every part
        cond = conditional_syncs(sf, sp, partrec, db)
        for fld_, (node_, guard_) in sorted(cond.items()):
            if fld_ in written:
                r4.bad("%s:conditional-sync(%s)" % (syncfn, fld_.split("::")[-1]), sf.loc(node_),
                       "%s is written by %s for every part, but %s transmits it only under the part-dependent condition '%s': for the other parts the ranks that did not run the job keep stale data "
                       "(e.g. the eigenvector entry of a 1x1 block is set to 1 only on the owner)" % (fld_.split("::")[-1], partfn, syncfn, guard_), cfgname)
        missing = sorted(written - synced)
        site = "%s:sync(%s)" % (syncfn, partfn.split("::")[-2])
        if not missing:
            r4.ok(site, sf.loc(), "%s writes {%s}; all are broadcast / assigned for the part on the receiving ranks" % (partfn, ", ".join(sorted(w.split("::")[-1] for w in written))), cfgname)
        else:
            extra = ""
            if STATUS in missing:
                extra = " — the part's Status stays below Computed on ranks that received its data, so evaluating it there throws"
            r4.bad(site, sf.loc(), "%s writes {%s} but %s never transmits / sets {%s} on the ranks that did not run it%s" % (
                partfn, ", ".join(sorted(w.split("::")[-1] for w in written)), syncfn, ", ".join(m.split("::")[-1] for m in missing), extra), cfgname)

    # ================================================================== R5
    # objects that travel between ranks by value (boost::serialization): serialize() must transmit EVERY data member -- a member
    # it leaves out is default-constructed (for the term structs: uninitialised) on the receiving rank
    seen_ser = set()
    for fs in sorted([x for x in db.fns.values() if strip_targs(x.name).split("::")[-1] == "serialize" and x.body is not None and x.body >= 0 and x.rec], key=lambda y: (y.rec, y.file, y.line)):
        if fs.rec in seen_ser:
            continue
        seen_ser.add(fs.rec)
        rec_ = db.records.get(fs.rec) or db.records.get(strip_targs(fs.rec))
        if rec_ is None:
            continue
        sent = {n_["n"] for _, n_ in fs.walk(fs.body) if n_["k"] == "member" and fs.nodes[n_["base"]]["k"] == "this"}
        for _, n_ in fs.walk(fs.body):
            if n_["k"] == "call" and n_.get("ck") == "method" and n_.get("obj") is not None and fs.nodes[n_["obj"]]["k"] == "this":
                cf_ = db.callee_fn(n_)
                if cf_ is not None and cf_.body is not None and cf_.body >= 0:
                    sent |= {m_["n"] for _, m_ in cf_.walk(cf_.body) if m_["k"] == "member" and cf_.nodes[m_["base"]]["k"] == "this"}
        allf = [f_["n"] for f_ in rec_.get("fields", []) if not f_.get("static")]
        site = "%s::serialize:every-member" % strip_targs(fs.rec)
        miss = [f_ for f_ in allf if f_ not in sent]
        if miss and not sent:
            r4.unknown(site, fs.loc(), "serialize() mentions no data member itself (split save/load or another delegation): not followed", cfgname)
        elif miss:
            r4.bad(site, fs.loc(), "serialize() does not transmit the member(s) %s: on every rank that receives the object instead of computing it they are default-constructed / uninitialised, and the values computed from the object differ from rank to rank" % ", ".join(miss), cfgname)
        else:
            r4.ok(site, fs.loc(), "all %d data members are transmitted" % len(allf), cfgname)

    r5 = chk.rule("C06-R5", "the OpenMP parallel-for body writes only the slot of its own iteration and calls only side-effect-free const code", "F4 effects", 2)
    nomp = 0
    for f in fns:
        for j, n in f.walk(f.body):
            if n["k"] == "omp" and "ParallelFor" in n["dir"]:
                nomp += 1
                site = "%s:omp-parallel-for" % f.qn
                loop = n["body"]
                ln = f.nodes[loop]
                if ln["k"] != "for":
                    raise AnalysisBroken("%s: omp parallel for does not govern a for statement" % f.qn)
                ctx = sp.ctx(f)
                shp = loop_shape(f, ctx, loop)
                if shp["kind"] != "index":
                    raise AnalysisBroken("%s: omp loop is not a canonical index loop" % f.qn)
                w = shp["var"]
                problems = []
                nwrites = 0
                for tgt, wj in [(t, x) for t, x in eff.direct(f) if any(x == y for y, _ in f.walk(ln["body"]))]:
                    if tgt[0] == "local" and not tgt[2]:
                        # locals declared inside the body are private; the loop variable itself is private
                        d = ctx.decls.get(tgt[1], {})
                        inside = any(d.get("declnode") == y for y, _ in f.walk(ln["body"])) or tgt[1] == w[1]
                        if inside:
                            continue
                        # a reference bound outside the loop to the shared buffer: element [w] of it is this iteration's slot
                        wn0 = f.nodes[wj]
                        l0 = wn0["l"] if wn0["k"] == "bin" else (wn0["args"][0] if wn0["k"] == "call" and wn0.get("ck") == "op" and wn0.get("op") in ("+=", "-=", "=", "*=", "[]") and wn0["args"] else None)
                        if d.get("ref") and l0 is not None:
                            lk0 = ctx.key(l0, inline=False)
                            if (lk0[0] == "op" and lk0[1] == "[]" and lk0[3][:2] == w[:2]) or (wn0.get("op") == "[]" and len(wn0["args"]) == 2 and ctx.key(wn0["args"][1], inline=False)[:2] == w[:2]):
                                nwrites += 1 if wn0.get("op") != "[]" else 0
                                continue
                        problems.append("shared local '%s' is written in the body (%s)" % (d.get("n"), f.s(wj)[:50]))
                        continue
                    # a write through a pointer / member: must be element [w] of the shared buffer
                    wn = f.nodes[wj]
                    lhs = wn["l"] if wn["k"] == "bin" else (wn["sub"] if wn["k"] == "un" else None)
                    if lhs is not None:
                        lk = ctx.key(lhs, inline=False)
                        if lk[0] == "op" and lk[1] == "[]" and lk[3][:2] == w[:2]:
                            nwrites += 1
                            continue
                    if wn["k"] == "call" and wn.get("ck") == "op" and wn.get("op") == "[]":
                        # the non-const operator[] call that yields the slot written above
                        ak = ctx.key(wn["args"][1], inline=False)
                        if ak[:2] == w[:2]:
                            continue
                    if wn["k"] == "call" and wn.get("ck") == "op" and wn.get("op") in ("+=", "-=", "=", "*="):
                        lk = ctx.key(wn["args"][0], inline=False)
                        if lk[0] == "op" and lk[1] == "[]" and lk[3][:2] == w[:2]:
                            nwrites += 1
                            continue
                    problems.append("write to shared storage that is not indexed by the loop variable: %s" % f.s(wj)[:70])
                ncallees = 0
                for cj in f.calls(root=ln["body"]):
                    cn = f.nodes[cj]
                    cf = db.callee_fn(cn)
                    if cf is None:
                        continue
                    ncallees += 1
                    if cf.rec and not cf.d.get("const") and cf.kind == "fn" and not cf.d.get("static"):
                        problems.append("non-const member function %s is called from the parallel body" % cf.qn)
                        continue
                    nl = [x for x in eff.nonlocal_writes(cf) if not benign_nonlocal(x)]
                    if nl:
                        problems.append("%s (called from the parallel body) has side effects: %s at %s" % (cf.qn, nl[0][0], nl[0][1].loc(nl[0][2])))
                if problems:
                    r5.bad(site, f.loc(j), "; ".join(problems[:3]), cfgname)
                else:
                    r5.ok(site, f.loc(j), "only shared write is the [%s] slot (%d); %d library callees are const and free of non-local writes" % (w[2], nwrites, ncallees), cfgname)
                r5.ok(site + ":present", f.loc(j), "region analysed", cfgname)
    if nomp == 0:
        raise AnalysisBroken("no OpenMP parallel-for region found in the library (anchor ComputeAndClearWrap::run vanished?)")

    # ================================================================== R6
    r6 = chk.rule("C06-R6", "every (pointer, count) handed to an MPI collective points into a container whose extent is the count", "F8 extents", 5)
    for f in fns:
        if not comm_roots(f, db):
            continue
        ctx = sp.ctx(f)
        for j in f.calls():
            c = sp.classify(f, j)
            if c is None or c["kind"] != "coll" or c.get("count") is None:
                continue
            n = f.nodes[j]
            ptrs = [a for a in n["args"][1:] if f.nodes[a].get("t", "").endswith("*") and not is_comm_type(f.nodes[a].get("t", ""))]
            for a in ptrs:
                pk = ctx.key(a)
                site = "%s:%s(%s, %s)" % (f.qn, c["op"].split("::")[-1], f.s(a)[:40], f.s(n["args"][2])[:40] if len(n["args"]) > 2 else "")
                if not (pk[0] == "mcall" and pk[1].split("::")[-1] == "data"):
                    if pk[0] == "un" and pk[1] == "&":
                        continue      # C17-R2 judges element addresses
                    r6.ok(site, f.loc(j), "pointer is not a container buffer", cfgname)
                    continue
                X = pk[2]
                if c.get("root") is not None and rank_tainted(c["root"]):
                    r6.ok(site, f.loc(j), "sending side (root is the caller's own rank): the buffer was sized by the part computation; equality of the count with the receiving arm is C06-R2", cfgname)
                    continue
                exts = extent_keys(X, pk[1])
                subst0 = local_resizes(f, ctx, j, X)
                ctor_size = {}
                if X[0] == "var":
                    dv = ctx.decls.get(X[1], {})
                    if dv.get("init") is not None and f.nodes[dv["init"]]["k"] == "construct" and strip_targs(f.nodes[dv["init"]].get("crec") or "") == "std::vector" \
                            and f.nodes[dv["init"]]["args"] and "vector" not in f.nodes[f.nodes[dv["init"]]["args"][0]].get("t", ""):
                        resized = [m for m in ctx.mut.get(X[1], []) if f.nodes[m]["k"] == "call" and strip_targs(f.nodes[m].get("cname") or "").split("::")[-1] in ("resize", "clear", "push_back", "assign")
                                   and f.cfg.pos1(m) and f.cfg.dominates(f.cfg.pos1(dv["declnode"]), f.cfg.pos1(m)) and f.cfg.pos1(j) and f.cfg.dominates(f.cfg.pos1(m), f.cfg.pos1(j))]
                        if not resized:
                            ctor_size[("mcall", "std::vector::size", X)] = ctx.key(f.nodes[dv["init"]]["args"][0])
                subst = lambda k, _a=subst0, _b=ctor_size: _a(k) if _a(k) is not None else _b.get(k)
                def norm(k, _s=subst):
                    for _ in range(3):
                        k = key_subst(k, _s)
                    return k
                cnt = norm(c["count"])
                good = any(same_product(cnt, norm(e)) for e in exts)
                if not good and len(n["args"]) > 2:
                    # the same comparison on the keys as written (a local that cannot be inlined at one of the two places)
                    subst1 = local_resizes(f, ctx, j, X, raw_inline=False)
                    cnt1 = ctx.key(n["args"][2], inline=False)
                    def norm1(k, _s=subst1):
                        for _ in range(3):
                            k = key_subst(k, _s)
                        return k
                    good = any(same_product(norm1(cnt1), norm1(e)) for e in exts)
                if good:
                    r6.ok(site, f.loc(j), "count equals the extent of the container (after the dominating resize in this arm, if any)", cfgname)
                else:
                    r6.bad(site, f.loc(j), "count %s is not the extent of %s on this path (container not resized to the count before the transfer, or count taken from another object)" % (
                        ks(c["count"]), ks(X)), cfgname)

    # ================================================================== R7
    r7 = chk.rule("C06-R7", "termination, structural part: every rank that runs the worker loop is enrolled in the master's worker pool", "F1 full-range", 3)
    from checks.c16 import check_pool
    runs = [x for x in db.fns.values() if strip_targs(x.name) == "pMPI::mpi_skel::run"]
    if len(runs) < 3:
        raise AnalysisBroken("expected three instantiations of mpi_skel::run")
    check_pool(r7, db, cfgname, sp, runs)

    chk.undecided.append("termination of the dispatch protocol for every message schedule (model checking, a different family); equality of floating-point results to rounding (reduction order)")
    chk.trusted.append("Boost.MPI semantics: communicator::split orders ranks by world rank; broadcast of a serialised container resizes the receiver")
    chk.trusted.append("containers iterated around collectives (parts, NonTrivialElements) are replicated identically on all ranks")


# ---------------------------------------------------------------------------
def benign_nonlocal(x):
    desc, fn, node = x
    n = fn.nodes[node]
    # writes to/through parameters of *operators on temporaries* (std::complex arithmetic helpers in headers) are local to the caller's temporaries
    if fn.file.endswith("Misc.h"):
        return True
    return False


def match_arms(f, sp, ctx, ifnode, t, e):
    ft, fe = list(Spmd.flat(t)), list(Spmd.flat(e))
    if len(ft) != len(fe) or shape(t) != shape(e):
        return "then-arm issues %s, else-arm issues %s" % ([x["op"].split("::")[-1] for x in ft], [x["op"].split("::")[-1] for x in fe])
    tfacts = ctx.cmp_fact(ifnode["c"], True)
    _, rw = canon(tfacts)
    efacts = ctx.cmp_fact(ifnode["c"], False)
    _, rwe = canon(efacts)
    for a, b in zip(ft, fe):
        if a["op"] != b["op"]:
            return "operation %s vs %s" % (a["op"], b["op"])
        if a["comm"] != b["comm"]:
            return "%s on communicator %s vs %s" % (a["op"], ks(a["comm"]), ks(b["comm"]))
        if a["kind"] == "collfn":
            continue
        if a["ptype"] != b["ptype"]:
            return "%s payload type %s vs %s" % (a["op"].split("::")[-1], a["ptype"], b["ptype"])
        pa, pb = a["payload"], b["payload"]
        if pa is not None and pb is not None and not (is_local_key(pa) and is_local_key(pb)):
            if pa != pb:
                return "%s transmits %s in one arm and %s in the other" % (a["op"].split("::")[-1], ks(pa), ks(pb))
        if (a["root"] is None) != (b["root"] is None):
            return "root present in one arm only"
        if a["root"] is not None:
            # the arm taken under `rank == X` is the one that owns the data: its root must be that very rank
            for tf in tfacts:
                if tf[0] == "==" and (rank_tainted(tf[1]) or rank_tainted(tf[2])):
                    mine = tf[1] if rank_tainted(tf[1]) else tf[2]
                    if rw(a["root"]) != rw(mine):
                        return "%s in the arm taken by the rank that owns the data (%s) uses root %s: the data of another rank is broadcast" % (
                            a["op"].split("::")[-1], fact_str(tf), ks(a["root"]))
            for tf in efacts:
                if tf[0] == "==" and (rank_tainted(tf[1]) or rank_tainted(tf[2])):
                    mine = tf[1] if rank_tainted(tf[1]) else tf[2]
                    if rwe(b["root"]) != rwe(mine):
                        return "%s in the arm taken by the rank that owns the data (%s) uses root %s" % (b["op"].split("::")[-1], fact_str(tf), ks(b["root"]))
            ra, rb = rw(a["root"]), rw(b["root"])
            ra2, rb2 = rwe(a["root"]), rwe(b["root"])
            if ra != rb and ra2 != rb2:
                # under the then-arm equality (rank == owner) the sender's root must be the owner every other rank names
                if not (rw(a["root"]) == rw(b["root"])):
                    return "%s root is %s in one arm and %s in the other, and the branch condition does not make them equal" % (a["op"].split("::")[-1], ks(a["root"]), ks(b["root"]))
        if (a["count"] is None) != (b["count"] is None):
            return "count present in one arm only"
        if a["count"] is not None:
            sa = local_resizes(f, ctx, a["node"], None)
            sb = local_resizes(f, ctx, b["node"], None)

            def norm(k):
                return key_subst(key_subst(k, sa), sb)
            if not same_product(norm(a["count"]), norm(b["count"])):
                return "%s count is %s in one arm and %s in the other" % (a["op"].split("::")[-1], ks(a["count"]), ks(b["count"]))
    return None


def shape(items):
    out = []
    for it in items:
        if it["kind"] == "branch":
            out.append(("b", shape(it["then"]), shape(it["else"])))
        elif it["kind"] == "loop":
            out.append(("l", it["cond"], shape(it["body"])))
        else:
            out.append(it["op"])
    return tuple(out)


def is_local_key(k):
    return isinstance(k, tuple) and k[0] == "var"


def same_product(a, b):
    def factors(k):
        if isinstance(k, tuple) and k[0] == "op" and k[1] == "*" and len(k) == 4:
            return factors(k[2]) + factors(k[3])
        return [k]
    return sorted(map(repr, factors(a))) == sorted(map(repr, factors(b)))


def roots_by_interpretation(db, h, hctx, M, pubs):
    """interpret computeAll_split up to its first collective for small (ranks, components); returns (witness or None, cases)"""
    from pv.summ import DMap, Interp, Obj, Stop, Thrown

    class _Comm(Obj):
        pass
    names = {v["n"]: d for d, v in hctx.decls.items()}
    # the colour map: the argument of comm.split(...)
    split = [j for j, n in h.walk(h.body) if n["k"] == "call" and strip_targs(n.get("cname") or "") == "boost::mpi::communicator::split"]
    if len(split) != 1:
        raise AnalysisBroken("computeAll_split: expected one comm.split")
    ck = hctx.key(h.nodes[split[0]]["args"][0], inline=False)
    if not (ck[0] == "op" and ck[1] == "[]" and ck[2][0] == "var"):
        raise AnalysisBroken("computeAll_split: the colour is not read from a per-rank map")
    colmap = ck[2][1]
    ncases = 0
    for P in range(1, 10):
        for C in range(1, 7):
            def stop(fr, i, obj, args):
                raise Stop()
            prims = {"boost::mpi::communicator::size": lambda fr, i, obj, args, _P=P: _P,
                     "boost::mpi::communicator::rank": lambda fr, i, obj, args: 0,
                     "boost::mpi::communicator::barrier": stop, "boost::mpi::communicator::split": stop,
                     "std::min": lambda fr, i, obj, args: min(args), "std::max": lambda fr, i, obj, args: max(args),
                     "construct std::map": lambda fr, i, args: DMap(int)}
            ip = Interp(db, prims)
            this = Obj("TwoParticleGFContainer", **{"Pomerol::IndexContainer4::NonTrivialElements": {k: None for k in range(C)}, "Pomerol::IndexContainer4::ElementsMap": {}})
            args = []
            for p_ in h.params:
                t = p_.get("t", "")
                args.append(_Comm("comm") if "communicator" in t else (False if t == "bool" else []))
            try:
                ip.call_fn(h, args, this=this)
                raise AnalysisBroken("computeAll_split: interpretation ran past the end without reaching a collective")
            except Stop:
                pass
            except Thrown as t_:
                raise AnalysisBroken("computeAll_split: interpreted bookkeeping throws %s at %s" % (t_.tt, t_.where))
            env = ip.top.env
            colours = env.get(colmap)
            roots = env.get(M[1])
            if not isinstance(colours, dict) or not isinstance(roots, dict):
                raise AnalysisBroken("computeAll_split: colour / root maps not found among the interpreted locals")
            ncases += 1
            for c in sorted(set(colours.values())):
                lowest = min(p for p, cc in colours.items() if cc == c)
                if roots.get(c) != lowest:
                    last = max(p for p, cc in colours.items() if cc == c)
                    return (P, C, c, roots.get(c), lowest, "last" if roots.get(c) == last else "other"), ncases
    return None, ncases


def extent_keys(X, dataname):
    if dataname.startswith("Eigen::"):
        rows = ("mcall", "Eigen::PlainObjectBase::rows", X)
        cols = ("mcall", "Eigen::PlainObjectBase::cols", X)
        size = ("mcall", "Eigen::PlainObjectBase::size", X)
        size2 = ("mcall", "Eigen::EigenBase::size", X)
        return [("op", "*", rows, cols), size, size2, rows]
    return [("mcall", "std::vector::size", X)]


def local_resizes(f, ctx, node, X, raw_inline=True):
    """substitution for rows()/cols()/size() of containers resized earlier in the same arm (block) as `node`."""
    # statements preceding `node` in its enclosing compound statement
    stmt = node
    par = None
    for a in f.ancestors(node):
        if f.nodes[a]["k"] == "block":
            par = a
            break
        stmt = a
    m = {}
    if par is not None:
        for s in f.nodes[par]["body"]:
            if s is None:
                continue
            if s == stmt:
                break
            for j, n in f.walk(s):
                if n["k"] == "call" and n["ck"] == "method" and strip_targs(n.get("cname") or "").split("::")[-1] == "resize" and n.get("obj") is not None:
                    ok_ = ctx.key(n["obj"])
                    args = [ctx.key(a, inline=raw_inline) for a in n["args"]]
                    cn = strip_targs(n.get("cname") or "")
                    if cn.startswith("Eigen::"):
                        if len(args) == 2:
                            m[("mcall", "Eigen::PlainObjectBase::rows", ok_)] = args[0]
                            m[("mcall", "Eigen::PlainObjectBase::cols", ok_)] = args[1]
                        elif len(args) == 1:
                            m[("mcall", "Eigen::PlainObjectBase::rows", ok_)] = args[0]
                            m[("mcall", "Eigen::PlainObjectBase::size", ok_)] = args[0]
                            m[("mcall", "Eigen::EigenBase::size", ok_)] = args[0]
                    else:
                        m[("mcall", "std::vector::size", ok_)] = args[0]
    return lambda k: m.get(k)


def split_colour_exception(f, sp, ctx, condkey, arm):
    """collectives in a one-armed rank-dependent branch are allowed iff they run on comm.split(colour)
    and the condition tests that same colour expression."""
    for it in Spmd.flat(arm):
        ck = it["comm"]
        if not (ck is not None and ck[0] == "mcall" and ck[1] == "boost::mpi::communicator::split"):
            return False
        colour = ck[3]
        if not key_contains(condkey, lambda k: k == colour):
            return False
    return True


def sync_set(sf, sp, partrec, db):
    """fields of objects of type `partrec` that function sf broadcasts, assigns, or resizes (through any access path)."""
    ctx = sp.ctx(sf)
    out = set()

    def part_field(key):
        """outermost field of partrec (or of its bases) in an access path"""
        k = key
        found = None
        for _ in range(30):
            if not isinstance(k, tuple):
                break
            if k[0] == "field":
                rec = k[1].rsplit("::", 1)[0]
                if (rec == partrec or rec in base_closure(db, partrec)) and k[2] != ("this",):
                    found = k[1]
                k = k[2]
            elif k[0] == "mcall":
                k = k[2]
            elif k[0] in ("op", "un"):
                k = k[2]
            else:
                break
        return found

    for j, n in sf.walk(sf.body):
        if n["k"] == "call":
            c = sp.classify(sf, j)
            if c is not None and c["kind"] == "coll" and c.get("payload") is not None:
                pf = part_field(c["payload"])
                if pf:
                    out.add(pf)
            if n["ck"] == "method" and n.get("obj") is not None:
                short = strip_targs(n.get("cname") or "").split("::")[-1]
                if short == "setStatus":
                    ot = sf.nodes[n["obj"]].get("t", "")
                    if partrec.split("::")[-1] in ot:
                        out.add("Pomerol::ComputableObject::Status")
        if n["k"] == "bin" and n["op"] == "=":
            pf = part_field(ctx.key(n["l"], inline=False))
            if pf:
                out.add(pf)
    return out


def conditional_syncs(sf, sp, partrec, db):
    """fields of the part whose transfer (collective payload) is guarded by a condition that mentions the part itself"""
    from pv.expr import guard_facts as _gf
    ctx = sp.ctx(sf)
    at = _gf(sf, ctx)
    out = {}
    pname = partrec.split("::")[-1]
    for j, n in sf.walk(sf.body):
        if n["k"] != "call":
            continue
        c = sp.classify(sf, j)
        if c is None or c["kind"] != "coll" or c.get("payload") is None:
            continue
        pk = c["payload"]
        # the part object the payload belongs to:  X->F... / X.F...
        part_obj = None
        k = pk
        for _ in range(20):
            if not isinstance(k, tuple):
                break
            if k[0] == "field" and (k[1].rsplit("::", 1)[0] == partrec or k[1].rsplit("::", 1)[0] in base_closure(db, partrec)) and k[2] != ("this",):
                part_obj = k[2]
                fldname = k[1]
                break
            k = k[2] if len(k) > 2 and k[0] in ("field", "mcall", "op", "un") else None
        if part_obj is None:
            continue
        fa = at.get(sf.cfg.pos1(j), frozenset())
        for x in fa:
            if key_contains(x, lambda y: y == part_obj) and not rank_tainted(x[1] if len(x) > 1 else x) and not (len(x) > 2 and isinstance(x[2], tuple) and rank_tainted(x[2])):
                # conditions on the part's Status are the "did this rank compute it" sanity checks, not data-dependent filters
                if key_contains(x, lambda y: y[0] == "field" and y[1].endswith("::Status")):
                    continue
                out[fldname] = (j, fact_str(x))
    return out


def base_closure(db, rec):
    out = set()
    todo = [rec]
    while todo:
        r = todo.pop()
        for b in db.records.get(r, {}).get("bases", []):
            b = strip_targs(b)
            if b not in out:
                out.add(b)
                todo.append(b)
    return out


if __name__ == "__main__":
    run_check("C06", "independence of MPI ranks and OpenMP threads (structural part)", body)
