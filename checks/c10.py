"""C10 — eigenbasis field operators are the rotated operators (DESIGN.md §3 C10).
Decides the structure of the rotation, the adjoint shortcut of the container and index-space consistency.
Not decided: the CAR assembled over blocks; behaviour for degenerate eigenvectors (value level)."""
from pv.check import run_check
from pv.expr import Ctx, guard_facts, key_contains
from pv.facts import AnalysisBroken, strip_targs
from pv.formula import Formula
from pv.loops import enclosing_loops, loop_shape
from pv import roles
from checks.lehmann import fld, THIS, FOP, ROWMAJOR, COLMAJOR
from checks import lehmann as lh
import sympy as sp

FP = "Pomerol::FieldOperatorPart"
FC = "Pomerol::FieldOperatorContainer"
SCS = "Pomerol::StatesClassification::"


def body(chk, db, cfgname):
    r1 = chk.rule("C10-R1", "rotation C = U_to^+ O U_from: LeftMat(n,k) = conj(U_to(l,n)), RightMat(k,m) = sign*U_from(k,m), l the image of k under the operator", "F5+F6", 4)
    f = db.fn(FP + "::compute", nparams=0)
    with r1.guard(FP + "::compute", f.loc(), cfgname):
        ctx = Ctx(f, db)
        at = guard_facts(f, ctx)
        asg = {}
        for j, n in f.walk(f.body):
            if (n["k"] == "bin" and n["op"] == "=") or (n["k"] == "call" and n.get("ck") == "op" and n.get("op") == "="):
                k = ctx.key(j, inline=False)
                if k[2][0] == "op" and k[2][1] == "()" and k[2][2][0] == "var" and len(k[2]) == 5:
                    asg.setdefault(k[2][2][2], []).append((j, k))
        mats = {}
        for nm, lst in asg.items():
            if len(lst) == 1:
                mats[nm] = lst[0]
        # identify Left/Right by the Hamiltonian part they read
        HTo, HFrom = fld(FP + "::HTo"), fld(FP + "::HFrom")
        left = right = None
        for nm, (j, k) in mats.items():
            if key_contains(k[3], lambda y: y[0] == "mcall" and y[1] == "Pomerol::HamiltonianPart::getMatrixElement" and y[2] == HTo):
                left = (nm, j, k)
            if key_contains(k[3], lambda y: y[0] == "mcall" and y[1] == "Pomerol::HamiltonianPart::getMatrixElement" and y[2] == HFrom):
                right = (nm, j, k)
        if left is None or right is None:
            raise AnalysisBroken("the two factors of the rotation (element-wise filled from HTo / HFrom) were not found")
        # K (ket), L = image, k/l inner states
        decls = ctx.decls

        def init_of(varkey):
            return ctx.key(decls[varkey[1]]["init"], inline=False) if varkey[0] == "var" and decls.get(varkey[1], {}).get("init") is not None else None
        ln, lk = left[2][2][3], left[2][2][4]          # LeftMat(n, k)
        rk_, rm = right[2][2][3], right[2][2][4]       # RightMat(k, m)
        Fm = Formula()
        lv = [x for x in left[2][3:] ]
        # left value: conj(U_to(l, n)) in the complex build, U_to(l, n) in the real one
        lcall = [y for y in _sub(left[2][3]) if y[0] == "mcall" and y[1] == "Pomerol::HamiltonianPart::getMatrixElement"][0]
        l_, n_ = lcall[3], lcall[4]
        uto = Fm.name_atom(lcall, "Uto_ln")
        gotl = Fm.conv(left[2][3])
        wantl = sp.conjugate(uto) if cfgname == "complex" else uto
        site = FP + "::compute:LeftMat"
        probs = []
        undecided = []
        if not Fm.equal(gotl, wantl):
            probs.append("LeftMat element is %s, expected %s in the %s build" % (gotl, wantl, cfgname))
        if n_[:2] != ln[:2]:
            probs.append("LeftMat(n,k) is not filled from column n of U_to (eigen-index of the target block)")
        il, ik = init_of(l_), init_of(lk)
        kstate = ik[3] if ik is not None and ik[0] == "mcall" and ik[1] == SCS + "getInnerState" else None
        lstate = il[3] if il is not None and il[0] == "mcall" and il[1] == SCS + "getInnerState" else None
        if kstate is None or lstate is None:
            probs.append("row index l / column index k are not the inner positions (getInnerState) of the image state and of the source state")
        else:
            # L = first key of O->actRight(K)
            iL = init_of(lstate)
            good_img = False
            if iL is not None and iL[0] == "field" and iL[1].endswith("::first"):
                src = iL[2]
                for y in _sub(src):
                    if y[0] == "var":
                        ir = init_of(y)
                        if ir is not None and ir[0] == "mcall" and ir[1] == "Pomerol::Operator::actRight" and ir[2] in (("field", FP + "::O", THIS), ("deref", ("field", FP + "::O", THIS))) and ir[3][:2] == kstate[:2]:
                            good_img = True
            if not good_img and lstate[0] == "var" and decls.get(lstate[1], {}).get("init") is not None:
                # the same through any chain of single-assignment locals (an iterator kept in a variable, ...)
                full = ctx.key(decls[lstate[1]]["init"])
                kfull = ctx.key(decls[kstate[1]]["init"]) if kstate[0] == "var" and decls.get(kstate[1], {}).get("init") is not None else kstate
                if full[0] == "field" and full[1].endswith("::first"):
                    for y in _sub(full[2]):
                        if y[0] == "mcall" and y[1] == "Pomerol::Operator::actRight" and len(y) == 4 and y[2] in (("field", FP + "::O", THIS), ("deref", ("field", FP + "::O", THIS)), ("un", "*", ("field", FP + "::O", THIS))) \
                                and (y[3][:2] == kstate[:2] or y[3] == kfull):
                            good_img = key_contains(full[2], lambda z: z[0] == "mcall" and z[1].split("::")[-1] in ("begin", "cbegin"))
            if not good_img and lstate[:2] == kstate[:2]:
                probs.append("the row index is the position of the source state K itself, not of its image O|K>")
            elif not good_img:
                # the image is obtained in some other way (not the first key of O->actRight(K)): whether that way yields
                # O|K> is not decided here; no alarm without positive evidence
                undecided.append("the image state of K is not obtained as the first key of O->actRight(K); how it is obtained is not analysed")
        if probs:
            r1.bad(site, f.loc(left[1]), "; ".join(probs), cfgname)
        elif undecided:
            r1.unknown(site, f.loc(left[1]), "; ".join(undecided), cfgname)
        else:
            r1.ok(site, f.loc(left[1]), "LeftMat(n,k) = %sU_to(l,n), l = inner(O|K>), k = inner(K)" % ("conj " if cfgname == "complex" else ""), cfgname)
        # right value
        rcall = [y for y in _sub(right[2][3]) if y[0] == "mcall" and y[1] == "Pomerol::HamiltonianPart::getMatrixElement"][0]
        ufr = Fm.name_atom(rcall, "Ufrom_km")
        signs = [y for y in _sub(right[2][3]) if y[0] == "var" and y[:2] not in (rcall[3][:2], rcall[4][:2])]
        site = FP + "::compute:RightMat"
        probs = []
        undecided = []
        if len(signs) != 1:
            probs.append("RightMat element is not sign * U_from(k,m)")
        else:
            sg = Fm.name_atom(signs[0], "sign")
            if not Fm.equal(Fm.conv(right[2][3]), sg * ufr):
                probs.append("RightMat element is %s, expected sign*U_from(k,m)" % Fm.conv(right[2][3]))
            isg = init_of(signs[0])
            if not (isg is not None and key_contains(isg, lambda y: y[0] == "field" and y[1].endswith("::second"))):
                undecided.append("the sign is not read from the matrix element returned by actRight; where it comes from is not analysed")
        if rcall[3][:2] != rk_[:2] or rcall[4][:2] != rm[:2] or rk_[:2] != lk[:2]:
            probs.append("RightMat(k,m) is not U_from(k,m) with the same k as LeftMat(.,k)")
        if probs:
            r1.bad(site, f.loc(right[1]), "; ".join(probs), cfgname)
        elif undecided:
            r1.unknown(site, f.loc(right[1]), "; ".join(undecided), cfgname)
        else:
            r1.ok(site, f.loc(right[1]), "RightMat(k,m) = sign * U_from(k,m)", cfgname)
        # loops are full
        site = FP + "::compute:loops"
        okl = True
        for (nm, j, k), idxv, bound_field in ((left, ln, "to"), (right, rm, "from")):
            shp = None
            for Lp in enclosing_loops(f, j):
                s_ = loop_shape(f, ctx, Lp)
                if s_["var"] is not None and s_["var"][:2] == idxv[:2]:
                    shp = s_
            if shp is None or shp["kind"] != "index" or shp["start"] != ("lit", 0) or shp["exits"]:
                okl = False
        if okl:
            r1.ok(site, f.loc(), "n over all eigenstates of the target block, m over all of the source block", cfgname)
        else:
            r1.bad(site, f.loc(), "the element loops do not cover all eigenstates of the target / source block", cfgname)
        # product and storage
        site = FP + "::compute:product"
        prods = [(j, ctx.key(j, inline=False)) for j, n in f.walk(f.body) if (n["k"] == "call" and n.get("ck") == "op" and n.get("op") == "=")]
        good = False
        colcopy = False
        for j, k in prods:
            if k[2] == fld(FP + "::" + ROWMAJOR) or k[2] == fld(FP + "::" + COLMAJOR):
                if k[3][0] == "mcall" and k[3][1].endswith("::sparseView") and k[3][2] == ("op", "*", ("var",) + left[2][2][2][1:], ("var",) + right[2][2][2][1:]):
                    good = True
                    tolk = k[3][3] if len(k[3]) > 3 else None
                if k[3] in (fld(FP + "::" + ROWMAJOR), fld(FP + "::" + COLMAJOR)):
                    colcopy = True
        if good and colcopy:
            r1.ok(site, f.loc(), "elements = (LeftMat * RightMat).sparseView(...), second storage order copied from the first", cfgname)
        else:
            r1.bad(site, f.loc(), "the stored matrix is not LeftMat*RightMat (in this order) copied into both storage orders", cfgname)
    ctor = [x for x in db.fns_named(FP + "::FieldOperatorPart") if x.kind == "ctor" and len(x.params) == 5]
    with r1.guard(FP + ":tolerance", f.loc(), cfgname):
        c = ctor[0]
        cctx = Ctx(c, db)
        m_ = {i.get("field"): cctx.key(i["e"]) for i in c.d.get("inits", []) if i.get("field")}
        site = FP + ":binding-and-tolerance"
        pk_ = [("param", q["d"], q["n"]) for q in c.params]
        good = m_.get("HFrom") == pk_[2] and m_.get("HTo") == pk_[3] and m_.get("MatrixElementTolerance", ("x",))[0] == "lit" and 0 < float(m_["MatrixElementTolerance"][1]) <= 1e-8
        if good:
            r1.ok(site, c.loc(), "HFrom/HTo bound to the parameters of the same name; pruning tolerance <= 1e-8", cfgname)
        else:
            r1.bad(site, c.loc(), "HFrom/HTo are exchanged in the constructor or the pruning tolerance exceeds 1e-8", cfgname)

    r2 = chk.rule("C10-R2", "container shortcut: the annihilation part is the ADJOINT of the creation part, for every block pair, with status set", "F5+F4", 3)
    g = db.fn(FC + "::computeAll", nparams=0)
    with r2.guard(FC + "::computeAll", g.loc(), cfgname):
        gctx = Ctx(g, db)
        stores = []
        for j, n in g.walk(g.body):
            if (n["k"] == "call" and n.get("ck") == "op" and n.get("op") == "=") or (n["k"] == "bin" and n["op"] == "="):
                stores.append((j, gctx.key(j)))
        loops = [j for j, n in g.walk(g.body) if n["k"] in ("for", "while", "forrange", "do")]
        inner = None
        for Lp in loops:
            s_ = loop_shape(g, gctx, Lp)
            if s_["kind"] == "iter" and s_["bound"][0] == "field" and s_["bound"][1].endswith("::right"):
                inner = s_
        outer = None
        for Lp in loops:
            s_ = loop_shape(g, gctx, Lp)
            if s_["kind"] == "iter" and s_["bound"] == fld(FC + "::mapCreationOperators"):
                outer = s_
        site = FC + "::computeAll:loops"
        if inner is None or outer is None:
            raise AnalysisBroken("the loops over the creation operators / over the right view of a block map were not recognised")
        if inner["exits"] or outer["exits"]:
            r2.bad(site, g.loc(), "not every creation operator / not every block pair of its map is visited (%s)" % "; ".join(str(e_[1]) for e_ in (inner["exits"] + outer["exits"])[:2]), cfgname)
            raise AnalysisBroken("loops")
        r2.ok(site, g.loc(), "all creation operators, all entries of the right view of their block map", cfgname)
        it = inner["var"]
        first = ("field", "boost::bimaps::relation::detail::mirror_storage::first", ("op", "->", it))     # right block of c^+
        second = ("field", "boost::bimaps::relation::detail::mirror_storage::second", ("op", "->", it))   # left block of c^+
        cvar = cdvar = None
        for d, v in gctx.decls.items():
            if v.get("init") is None:
                continue
            k = gctx.key(v["init"], inline=False)
            if k[0] in ("un", "op") and k[1] == "*" and key_contains(k, lambda y: y[0] == "field" and y[1].endswith("::second") and y[2][0] == "op" and y[2][2][:2] == outer["var"][:2]):
                cdvar = ("var", d, v["n"])
            if k[0] in ("un", "op") and k[1] == "*" and key_contains(k, lambda y: y == fld(FC + "::mapAnnihilationOperators")) and \
                    key_contains(k, lambda y: y[0] == "field" and y[1].endswith("::first") and y[2][0] == "op" and y[2][2][:2] == outer["var"][:2]):
                cvar = ("var", d, v["n"])
        if cvar is None or cdvar is None:
            raise AnalysisBroken("c / c^+ of the same index not identified")

        def cpart(which):
            return ("mcall", "Pomerol::FieldOperator::getPartFromRightIndex", which[0], which[1])
        cp_ = cpart((gctx.key_of_var(cvar) if hasattr(gctx, "key_of_var") else cvar, second))
        # the keys above are inlined: rebuild with inline=True
        want = {}
        tgt = None
        found = {"row": None, "col": None, "status_part": False, "status_op": False}
        for j, k in stores:
            l, r = k[2], k[3]
            if l[0] == "field" and l[1] in (FP + "::" + ROWMAJOR, FP + "::" + COLMAJOR) and l[2][0] == "mcall" and l[2][1] == "Pomerol::FieldOperator::getPartFromRightIndex":
                which = "row" if l[1].endswith(ROWMAJOR) else "col"
                found[which] = (j, l, r)
            if l[0] == "field" and l[1] == "Pomerol::ComputableObject::Status" and r == ("enum", "Pomerol::ComputableObject::Computed", 2):
                if l[2][0] == "mcall" and l[2][1] == "Pomerol::FieldOperator::getPartFromRightIndex":
                    found["status_part"] = True
                else:
                    found["status_op"] = True
        site = FC + "::computeAll:adjoint"
        probs = []
        for which, other in (("row", COLMAJOR), ("col", ROWMAJOR)):
            if found[which] is None:
                probs.append("elements%sMajor of the annihilation part is not assigned" % ("Row" if which == "row" else "Col"))
                continue
            j, l, r = found[which]
            # target: c part with RIGHT index = left block of c^+ (second); source: c^+ part with right index first
            if not (l[2][3] == second and key_contains(l[2][2], lambda y: y == fld(FC + "::mapAnnihilationOperators"))):
                probs.append("the annihilation part that receives the matrix is not the one whose right block is the LEFT block of the c^+ entry")
            if not (r[0] == "mcall" and r[1].split("::")[-1] in ("adjoint", "transpose", "conjugate")):
                probs.append("the %s-major matrix is not an adjoint of the creation part" % which)
                continue
            if r[1].split("::")[-1] != "adjoint":
                probs.append("the annihilation part is the %s, not the ADJOINT, of the creation part: wrong for complex matrix elements (every real-build test still passes)" % r[1].split("::")[-1])
            src = r[2]
            if not (src[0] == "field" and src[1] == FP + "::" + other and src[2][0] == "mcall" and src[2][1] == "Pomerol::FieldOperator::getPartFromRightIndex" and src[2][3] == first):
                probs.append("the source is not the %s-major matrix of the c^+ part with the same block pair" % ("column" if other == COLMAJOR else "row"))
        if probs:
            r2.bad(site, g.loc(), "; ".join(probs), cfgname)
        else:
            r2.ok(site, g.loc(), "c[right=L].RowMajor = adjoint(c+[right=R].ColMajor), ColMajor = adjoint(RowMajor) for every (R -> L) of c+", cfgname)
        site = FC + "::computeAll:status"
        comp = [j for j in g.calls(cname="Pomerol::FieldOperator::compute")]
        dom = comp and found["row"] and g.cfg.dominates_block(g.cfg.pos1(comp[0])[0], g.cfg.pos1(found["row"][0])[0])
        if found["status_part"] and found["status_op"] and dom:
            r2.ok(site, g.loc(), "c^+ is computed before the copy; Status of the part and of the operator set to Computed", cfgname)
        else:
            r2.bad(site, g.loc(), "the creation operator is not computed first, or the Status of the copied part / of the annihilation operator is not set", cfgname)

    r3 = chk.rule("C10-R3", "index-space consistency in the rotation and wherever eigenvectors are read", "F5 index spaces", 1)
    scope = [x for x in db.fns.values() if x.rec in (FP, "Pomerol::FieldOperator", FC, "Pomerol::HamiltonianPart", "Pomerol::Hamiltonian") and x.body is not None and x.body >= 0]
    for x in sorted(scope, key=lambda y: (y.file, y.line)):
        bad, nuse = roles.conflicts(x, db)
        if nuse == 0:
            continue
        site = "%s/%d:index-roles" % (x.qn, len(x.params))
        if bad:
            nm, lst = bad[0]
            r3.bad(site, x.loc(lst[0][2]), "variable '%s' is used as %s: rows (Fock positions) and columns (eigenstate numbers) of the eigenvector matrix are confused" % (
                nm, " and as ".join(sorted({"%s index (%s)" % (r, d) for r, d, _ in lst}))), cfgname)
        else:
            r3.ok(site, x.loc(), "%d typed index uses, each variable in one space" % nuse, cfgname)
    # ================================================================== R4
    r4 = chk.rule("C10-R4", "the operator is complete: every right block with an image block gets exactly one part (HFrom = right block, HTo = image), no further filter", "F1+F4", 2)
    from checks.c07 import prepare_signature
    from pv.throws import Throws
    thr = Throws(db)
    for cls in ("Creation", "Annihilation"):
        g = db.fn("Pomerol::%sOperator::prepare" % cls, nparams=0)
        site = "Pomerol::%sOperator::prepare:complete" % cls
        with r4.guard(site, g.loc(), cfgname):
            sig, problems = prepare_signature(g, thr, cls)
            if problems:
                r4.bad(site, g.loc(), "; ".join(problems), cfgname)
            else:
                r4.ok(site, g.loc(), "for every RightIndex in [0,NumberOfBlocks) with mapsTo(RightIndex).isCorrect(): one part (H[Right] -> H[Left]) registered in parts and both maps", cfgname)
    # parts constructed anywhere else (a container mirroring parts, a helper): the Hamiltonian blocks handed to the constructor
    # must be the blocks under which the part is registered — (HFrom, HTo) = (block of the right index, block of the left index)
    def _block_token(k):
        from pv.entail import strip_value_conv
        k = strip_value_conv(k)
        if isinstance(k, tuple) and k and k[0] in ("un", "op") and k[1] == "*" and len(k) == 3:
            k = ("deref", k[2])
        if k[0] == "mcall" and k[1] in ("Pomerol::Hamiltonian::getPart",) and len(k) == 4:
            return ("block", _block_token(k[3]))
        if k[0] == "field" and k[1] == FP + "::HFrom":
            return ("block", ("right-of", _block_token(k[2])))
        if k[0] == "field" and k[1] == FP + "::HTo":
            return ("block", ("left-of", _block_token(k[2])))
        if k[0] == "mcall" and k[1] == "Pomerol::HamiltonianPart::getBlockNumber" and len(k) == 3:
            t = _block_token(k[2])
            return t[1] if t[0] == "block" else ("blocknumber-of", t)
        if k[0] == "mcall" and k[1] == FP + "::getRightIndex" and len(k) == 3:
            return ("right-of", _block_token(k[2]))
        if k[0] == "mcall" and k[1] == FP + "::getLeftIndex" and len(k) == 3:
            return ("left-of", _block_token(k[2]))
        return k
    known_sites = {"Pomerol::CreationOperator::prepare", "Pomerol::AnnihilationOperator::prepare", "Pomerol::QuadraticOperator::prepare",
                   "Pomerol::AnnihilationOperatorPart::transpose", "Pomerol::CreationOperatorPart::transpose"}
    for g in sorted([x for x in db.fns.values() if ("/src/" in x.file or "/include/" in x.file) and x.body is not None and x.body >= 0 and x.qn not in known_sites], key=lambda y: (y.file, y.line, y.mangled)):
        news = [j for j, n in g.walk(g.body) if n["k"] == "new" and n["at"] in ("Pomerol::CreationOperatorPart", "Pomerol::AnnihilationOperatorPart", "Pomerol::QuadraticOperatorPart")]
        if not news:
            continue
        gctx = Ctx(g, db)
        for N in news:
            site = "%s:part-construction@%s" % (g.qn, g.loc(N).rsplit(":", 1)[-1])
            with r4.guard(site, g.loc(N), cfgname):
                a = gctx.key(N)[2][2:]
                if len(a) < 4:
                    raise AnalysisBroken("constructor arguments not recognised")
                hf, ht = _block_token(a[2]), _block_token(a[3])
                regs = {}
                for j, n in g.walk(g.body):
                    if (n["k"] == "call" and n.get("ck") == "op" and n.get("op") == "=") or (n["k"] == "bin" and n["op"] == "="):
                        lk = gctx.key(n["args"][0] if n["k"] == "call" else n["l"])
                        if lk[0] == "op" and lk[1] == "[]" and lk[2][0] == "field" and lk[2][1] in ("Pomerol::FieldOperator::mapPartsFromRight", "Pomerol::FieldOperator::mapPartsFromLeft"):
                            regs[lk[2][1].split("::")[-1]] = _block_token(lk[3])
                if len(regs) != 2:
                    raise AnalysisBroken("a field-operator part is constructed outside prepare() and its registration under a right / left block was not found")
                probs = []

                def _tok(t):
                    if isinstance(t, tuple) and t and t[0] in ("right-of", "left-of"):
                        return "the %s block of another part" % t[0].split("-")[0]
                    if isinstance(t, tuple) and t and t[0] == "block":
                        return _tok(t[1])
                    return str(t[-1]) if isinstance(t, tuple) and t and t[0] in ("var", "param") else "another block expression"
                comparable = lambda t: isinstance(t, tuple) and t and (t[0] in ("right-of", "left-of", "var", "param"))
                for side, h_, idx in (("right", hf, 2), ("left", ht, 3)):
                    reg = regs["mapPartsFrom" + side.capitalize()]
                    if h_ == ("block", reg):
                        continue
                    if not (h_[0] == "block" and comparable(h_[1]) and comparable(reg)):
                        raise AnalysisBroken("the block of the Hamiltonian part passed as %s and the %s block the part is registered under are written in forms that cannot be compared" % ("HFrom" if side == "right" else "HTo", side))
                    probs.append("the part is registered under %s as its %s block but is constructed with %s = %s, i.e. %s" % (
                        _tok(reg), side, "HFrom" if side == "right" else "HTo", g.s(g.nodes[g.nodes[N]["init"]]["args"][idx])[:40], _tok(h_)))
                if probs:
                    r4.bad(site, g.loc(N), "; ".join(probs) + ": the part reports (and rotates with) the wrong pair of blocks", cfgname)
                else:
                    r4.ok(site, g.loc(N), "HFrom / HTo are the blocks the part is registered under (right / left)", cfgname)
    # ================================================================== R5
    r5 = chk.rule("C10-R5", "look-ups by left / right block use the map of their own side (also when they forward to another overload)", "F4 same-role wiring", 4)
    sides = {"Left": ("mapPartsFromLeft", "getPartFromLeftIndex", "getLeftIndex"), "Right": ("mapPartsFromRight", "getPartFromRightIndex", "getRightIndex")}
    for g in sorted([x for x in db.fns.values() if x.rec == "Pomerol::FieldOperator" and x.body is not None and x.body >= 0 and
                     strip_targs(x.name).split("::")[-1] in ("getPartFromLeftIndex", "getPartFromRightIndex", "getLeftIndex", "getRightIndex")], key=lambda y: (y.file, y.line)):
        nm = strip_targs(g.name).split("::")[-1]
        mine = "Left" if "Left" in nm else "Right"
        other = "Right" if mine == "Left" else "Left"
        site = "%s/%s" % (g.qn, ",".join(p_.get("tw", "") for p_ in g.params))
        used = set()
        for j, n in g.walk(g.body):
            if n["k"] == "member" and n.get("rec") == "Pomerol::FieldOperator" and n.get("n") in (sides["Left"][0], sides["Right"][0]):
                used.add(("Left" if "Left" in n["n"] else "Right", "map " + n["n"]))
            if n["k"] == "call" and strip_targs(n.get("cname") or "").startswith("Pomerol::FieldOperator::"):
                cn_ = strip_targs(n["cname"]).split("::")[-1]
                if cn_ in sides["Left"][1:] or cn_ in sides["Right"][1:]:
                    used.add(("Left" if "Left" in cn_ else "Right", cn_ + "()"))
        if nm in ("getLeftIndex", "getRightIndex"):
            # these translate a block of the OTHER side through the matching view of the bimap
            for j, n in g.walk(g.body):
                if n["k"] == "member" and n.get("n") in ("left", "right") and "bimap" in (n.get("rec") or n.get("q") or ""):
                    used.add(("Left" if n["n"] == "left" else "Right", "view ." + n["n"]))
        wrong = sorted(u for sd, u in used if sd == other)
        right_ = sorted(u for sd, u in used if sd == mine)
        # getLeftIndex(RightIndex) / getRightIndex(LeftIndex) translate from the OTHER side by construction
        if nm in ("getLeftIndex", "getRightIndex"):
            mine, other = other, mine
            wrong, right_ = right_, wrong
        if wrong and not right_:
            r5.bad(site, g.loc(), "%s is answered from %s: the part / block of the other side is returned (for a block that is both a left and a right block this is silently another part; at the end of a ladder it dereferences end())" % (nm, ", ".join(wrong)), cfgname)
        elif right_ and not wrong:
            r5.ok(site, g.loc(), "uses %s" % ", ".join(right_), cfgname)
        elif not used:
            r5.unknown(site, g.loc(), "neither of the two side maps nor a sibling look-up is used", cfgname)
        else:
            r5.unknown(site, g.loc(), "uses both sides (%s)" % ", ".join(sorted(u for _, u in used)), cfgname)
    # ================================================================== R6
    r6 = chk.rule("C10-R6", "part-level conjugation (AnnihilationOperatorPart::transpose / CreationOperatorPart::transpose): the new part lives on the swapped block pair, carries the same index and both of its storages are the transposed (or adjoint) storages of this part", "F4 same-role wiring", 2)
    for cls, other in (("Pomerol::AnnihilationOperatorPart", "Pomerol::CreationOperatorPart"), ("Pomerol::CreationOperatorPart", "Pomerol::AnnihilationOperatorPart")):
        g = db.fn(cls + "::transpose", nparams=0)
        site = cls + "::transpose"
        with r6.guard(site, g.loc(), cfgname):
            gctx = Ctx(g, db)
            news = [j for j, n in g.walk(g.body) if n["k"] == "new"]
            if len(news) != 1 or g.nodes[news[0]]["at"] != other:
                raise AnalysisBroken("%s does not create one %s" % (site, other))
            nk = gctx.key(news[0])
            a = nk[2][2:]
            probs = []
            if len(a) < 5 or a[2] != fld(FP + "::HTo") or a[3] != fld(FP + "::HFrom"):
                probs.append("the conjugated part is not created on the swapped block pair (HFrom <- this->HTo, HTo <- this->HFrom)")
            if len(a) >= 5 and a[4] != fld(FP + "::PIndex"):
                probs.append("the conjugated part does not carry this part's index")
            stores = {}
            for j, n in g.walk(g.body):
                if (n["k"] == "call" and n.get("ck") == "op" and n.get("op") == "=") or (n["k"] == "bin" and n["op"] == "="):
                    k = gctx.key(j)
                    l_, r_ = k[2], k[3]
                    if l_[0] == "field" and l_[1] in (FP + "::" + ROWMAJOR, FP + "::" + COLMAJOR) and l_[2] != THIS:
                        stores[l_[1].split("::")[-1]] = (j, r_)
            for nm in (ROWMAJOR, COLMAJOR):
                if nm not in stores:
                    probs.append("%s of the new part is not set" % nm)
                    continue
                j, r_ = stores[nm]
                while r_[0] in ("cast", "ctor") and len(r_) == 3:
                    r_ = r_[2]
                if r_[0] == "mcall" and r_[1].split("::")[-1] in ("transpose", "adjoint") and len(r_) == 3 and r_[2][0] == "field" and r_[2][2] == THIS and r_[2][1] in (FP + "::" + ROWMAJOR, FP + "::" + COLMAJOR):
                    continue
                if r_[0] == "field" and r_[2] == THIS and r_[1] in (FP + "::" + ROWMAJOR, FP + "::" + COLMAJOR):
                    probs.append("%s of the new part is a plain copy of this part's %s: converting between row-major and column-major storage keeps the matrix, nothing is transposed" % (nm, r_[1].split("::")[-1]))
                else:
                    raise AnalysisBroken("%s of the conjugated part is computed in a form that is not analysed" % nm)
            if probs:
                r6.bad(site, g.loc(), "; ".join(probs), cfgname)
            else:
                r6.ok(site, g.loc(), "new %s(.., HTo, HFrom, PIndex) with both storages transposed" % other.split("::")[-1], cfgname)

    r7 = chk.rule("C10-R7", "repeated prepareAll / computeAll on the operator container: no `already computed` flag survives a later change of the operator maps (work added after the first computeAll is still done)", "F4 paired state", 1)
    lh.check_memo_flags(r7, db, cfgname, ("Pomerol::FieldOperatorContainer",))

    chk.undecided.append("{c_i, c+_j} = delta_ij assembled over all blocks; Fock-basis back-transformation equals the Jordan-Wigner matrix (value level); degenerate eigenvectors")


def _sub(k):
    if isinstance(k, tuple):
        yield k
        for x in k:
            if isinstance(x, tuple):
                yield from _sub(x)


if __name__ == "__main__":
    run_check("C10", "eigenbasis field operators: rotation and adjoint shortcut", body)
