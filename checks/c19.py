"""C19 — block truncation removes only contributions below the tolerance (DESIGN.md §3 C19).
Decides the structural clauses: a part is skipped only if ALL blocks of its stripe are discarded, and a block is
discarded only if none of its weights exceeds the tolerance.  The eps-proportional error bound is numeric: not decided."""
import sympy as sp

from pv.check import run_check
from pv.entail import canon, entails
from pv.expr import Ctx, guard_facts, key_contains
from pv.facts import AnalysisBroken, strip_targs
from pv.loops import enclosing_loops, loop_shape
from checks import lehmann as lh
from checks.lehmann import fld, THIS
from checks.c07 import deconv
from checks.c20 import fact_str

DMP = "Pomerol::DensityMatrixPart"
DM = "Pomerol::DensityMatrix"


def disjuncts(f, node):
    n = f.nodes[node]
    if n["k"] == "bin" and n["op"] == "||":
        return disjuncts(f, n["l"]) + disjuncts(f, n["r"])
    return [node]


def subkeys(k):
    if isinstance(k, tuple):
        yield k
        for x in k:
            if isinstance(x, tuple):
                yield from subkeys(x)


def _stripe_guard_by_interpretation(db, f, ctx, N, arr, idxs):
    """Interpret the body of the innermost loop around the creation of a TwoParticleGFPart for a stripe of blocks 0-1-2-3
    that satisfies the selection, under each of the 16 patterns of DM.isRetained, and record whether the `new` is reached.
    Returns [(pattern, created)].  Anything outside the interpreter's subset raises AnalysisBroken."""
    from pv.summ import Interp, Obj, Stop, Thrown, MapIter, _Continue, _Break, Frame
    Ls = enclosing_loops(f, N)
    if not Ls:
        raise AnalysisBroken("creation outside any loop")
    L = f.nodes[Ls[0]]
    G2 = "Pomerol::TwoParticleGF"
    out = []
    for bits in range(16):
        r = tuple(bool(bits >> i & 1) for i in range(4))
        prims = {
            DM + "::isRetained": lambda fr, i, obj, a, r=r: r[a[0]] if isinstance(a[0], int) and 0 <= a[0] < 4 else fr.bad(i, "isRetained of a block outside the stripe"),
            G2 + "::getRightIndex": lambda fr, i, obj, a: a[2] + 1 if isinstance(a[2], int) and a[2] < 3 else -1,
            G2 + "::getLeftIndex": lambda fr, i, obj, a: a[2] - 1 if isinstance(a[2], int) and a[2] > 0 else -1,
            "Pomerol::BlockNumber::isCorrect": lambda fr, i, obj, a: isinstance(obj, int) and obj >= 0,
            "Pomerol::BlockNumber::operator unsigned long": lambda fr, i, obj, a: obj,
            "construct Pomerol::BlockNumber": lambda fr, i, a: a[0] if a else -1,
        }
        ip = Interp(db, prims)
        this = Obj("TwoParticleGF", **{G2 + "::DM": Obj("DensityMatrix"), G2 + "::parts": []})
        env = {}
        # variables of the enclosing loops: permutation counter 0, the outer iterator at the pair (block 0, block 3)
        for j, n in f.walk(f.body):
            if n["k"] == "decl":
                for v in n["vars"]:
                    if any(jj == N for jj, _ in f.walk(L["body"])) and any(jj == j for jj, _ in f.walk(L["body"])):
                        continue        # declared inside the interpreted body
                    t = v.get("t") or ""
                    if "iterator" in t:
                        env[v["d"]] = MapIter({0: 3}, 0)
                    elif t.replace("const ", "").strip() in ("size_t", "std::size_t", "unsigned long", "int", "unsigned int", "long"):
                        env[v["d"]] = 0
        ip.stop_at = (f, N)
        fr = Frame(ip, f, env, this)
        try:
            fr.exec(L["body"])
            created = False
        except Stop:
            created = True
        except (_Continue, _Break):
            created = False
        except Thrown as t:
            raise AnalysisBroken("interpreted stripe loop throws %s" % t.tt)
        except (KeyError, TypeError, IndexError) as e:
            raise AnalysisBroken("interpreted stripe loop: %r" % (e,))
        out.append((r, created))
    return out



def _truncate_by_interpretation(db, f, maxn=3):
    """DensityMatrixPart::truncate(eps) interpreted on every weight vector of 0..3 states whose weights are below / equal to /
    above eps, for both values the flag may have had before.  Returns [(weights, prior, after, wrong)] where wrong means: some
    weight is above eps and the block is not retained afterwards."""
    from pv.summ import Interp, Obj, Thrown
    import itertools
    out = []
    for n in range(maxn + 1):
        for w in itertools.product((0, 1, 2), repeat=n):
            for prior in (True, False):
                this = Obj("DensityMatrixPart", **{DMP + "::weights": [sp.Rational(x, 2) for x in w], DMP + "::retained": prior})
                ip = Interp(db, {})
                try:
                    ip.call_fn(f, [sp.Rational(1, 2)], this=this)
                except Thrown as t:
                    raise AnalysisBroken("truncate throws %s" % t.tt)
                after = bool(this.f[DMP + "::retained"])
                out.append((w, prior, after, any(x == 2 for x in w) and not after))
    return out



def body(chk, db, cfgname):
    r1 = chk.rule("C19-R1", "a part is skipped only if every block of its stripe is discarded (guard = disjunction of isRetained over exactly the blocks used)", "F1 dominance", 4)
    cases = [("Pomerol::GreensFunction", "Pomerol::GreensFunctionPart"), ("Pomerol::Susceptibility", "Pomerol::SusceptibilityPart"),
             ("Pomerol::EnsembleAverage", None)]
    for owner, part in cases:
        f = db.fn(owner + "::prepare", nparams=0)
        ctx = Ctx(f, db)
        at = guard_facts(f, ctx)
        if part is not None:
            news = [j for j, n in f.walk(f.body) if n["k"] == "new" and n["at"] == part]
            what = "new " + part
        else:
            # the ensemble average has no parts: the contribution of a block is a call of compute()
            news = f.calls(cname=owner + "::compute")
            what = "call of compute()"
        if len(news) != 1:
            raise AnalysisBroken("%s::prepare: expected one %s" % (owner, what))
        N = news[0]
        fa = at.get(f.cfg.pos1(N), frozenset())
        rw = lh.rw_facts(fa)
        nk = ctx.key(N)
        dmk = fld(owner + "::DM")
        used = set()
        for a in (nk[2][2:] if part is not None else nk[3:]):
            a = lh.strip_cast(a)
            if a[0] == "mcall" and a[1] == DM + "::getPart" and a[2] == dmk:
                used.add(rw(deconv(a[3])))
        # "a part is skipped only if every block it would use is discarded", decided per path through one iteration of the
        # stripe loop: take the paths that are compatible with the conditions under which the part is created (same stripe)
        # but do not create it; on each of them every used block must have tested as not retained.
        from pv import paths as P
        site = owner + "::prepare:retained-guard"
        isret = lambda y: y[0] == "mcall" and y[1] == DM + "::isRetained"
        if not any(n_["k"] == "call" and strip_targs(n_.get("cname") or "") == DM + "::isRetained" for _, n_ in f.walk(f.body)):
            r1.ok(site, f.loc(N), "no truncation guard: every stripe is kept (eps = 0 behaviour)", cfgname)
            continue
        Ls = enclosing_loops(f, N)
        if not Ls:
            raise AnalysisBroken("%s::prepare: part creation is not inside the stripe loop" % owner)
        hdr, plist = P.loop_body_paths(f, Ls[-1])
        ctxfacts = {x for x in fa if not (x[0] in ("true", "false") and key_contains(x[1], isret))}
        npos = f.cfg.pos1(N)
        missing = None
        nskip = 0
        for path in plist:
            if npos[0] in path[1:]:
                continue
            pf = P.path_facts(f, ctx, path)
            if not P.feasible(pf | ctxfacts):
                continue
            nskip += 1
            prw = lh.rw_facts(pf | ctxfacts)
            notret = {prw(deconv(x[1][3])) for x in pf if x[0] == "false" and x[1][0] == "mcall" and x[1][1] == DM + "::isRetained" and x[1][2] == dmk}
            need = {prw(u) for u in used}
            if not need <= notret:
                lack = sorted(need - notret, key=repr)
                missing = "a stripe can be skipped although block %s was not found discarded (tests on the skipping path: %s)" % (
                    ", ".join(lh.short(x) if x[0] == "field" else str(x[-1]) for x in lack), ", ".join(sorted(fact_str(x) for x in pf if x[0] in ("true", "false") and key_contains(x[1], isret))) or "none")
        # leaving the stripe loop early drops every later stripe, whatever its blocks are
        early = None
        for L_ in Ls:
            for e_, kind_ in loop_shape(f, ctx, L_)["exits"]:
                if kind_ in ("break", "return", "goto"):
                    efa = at.get(f.cfg.pos1(e_), frozenset())
                    if any(x[0] in ("true", "false") and key_contains(x[1], isret) for x in efa):
                        early = (e_, "the loop over the stripes is left (%s at line %s) when a block tests as %s: every later stripe is dropped whether or not its blocks are retained" % (
                            kind_, f.loc(e_).rsplit(":", 1)[-1], "discarded" if any(x[0] == "false" and key_contains(x[1], isret) for x in efa) else "retained"))
                    elif early is None:
                        early = (e_, None)
        if early is not None and early[1] is not None:
            r1.bad(site, f.loc(early[0]), early[1], cfgname)
        elif early is not None:
            r1.unknown(site, f.loc(early[0]), "the loop over the stripes has an early exit whose condition is not analysed", cfgname)
        elif nskip == 0:
            r1.ok(site, f.loc(N), "the part is created for every matching stripe (no path skips it)", cfgname)
        elif missing:
            r1.bad(site, f.loc(N), missing + ": a contribution above the tolerance is dropped", cfgname)
        else:
            r1.ok(site, f.loc(N), "a matching stripe is skipped only on paths where isRetained is false for all %d blocks whose density-matrix parts are used (%d skipping paths)" % (len(used), nskip), cfgname)
    # two-particle GF: flag loop over LeftIndices[0..3]
    f = db.fn("Pomerol::TwoParticleGF::prepare", nparams=0)
    ctx = Ctx(f, db)
    at = guard_facts(f, ctx)
    news = [j for j, n in f.walk(f.body) if n["k"] == "new" and n["at"] == "Pomerol::TwoParticleGFPart"]
    if len(news) != 1:
        raise AnalysisBroken("TwoParticleGF::prepare: expected one new TwoParticleGFPart")
    N = news[0]
    nk = ctx.key(N, inline=False)
    dmk = fld("Pomerol::TwoParticleGF::DM")
    used = []
    for a in nk[2][2:]:
        a = lh.strip_cast(a)
        if a[0] == "mcall" and a[1] == DM + "::getPart" and a[2] == dmk:
            used.append(deconv(a[3]))
    site = "Pomerol::TwoParticleGF::prepare:retained-guard"
    arr = None
    idxs = set()
    for u in used:
        if u[0] == "op" and u[1] == "[]" and u[3][0] == "lit":
            arr = u[2]
            idxs.add(u[3][1])
    fa = at.get(f.cfg.pos1(N), frozenset())
    flag = None
    inverted = None
    for x in fa:
        if x[0] == "true" and x[1][0] == "var" and ctx.decls.get(x[1][1], {}).get("t") == "bool":
            flag = x[1]
        if x[0] == "false" and x[1][0] == "var" and ctx.decls.get(x[1][1], {}).get("t") == "bool":
            # a flag that is set under isRetained(...) and must be FALSE for the part to be created
            for m in ctx.mut.get(x[1][1], []):
                mfa_ = at.get(f.cfg.pos1(m), frozenset())
                if any(y[0] == "true" and y[1][0] == "mcall" and y[1][1] == DM + "::isRetained" for y in mfa_):
                    inverted = x[1]
    good = False
    why = "the part is created without a dominating 'some block of the stripe is retained' flag"
    if flag is not None and arr is not None:
        dv = ctx.decls[flag[1]]
        sets = ctx.mut.get(flag[1], [])
        init_false = dv.get("init") is not None and ctx.key(dv["init"]) == ("lit", 0)
        ok_sets = bool(sets)
        krange = None
        unknown_form = False
        for m in sets:
            mn = f.nodes[m]
            if mn["k"] == "bin" and mn["op"] == "=" and ctx.key(mn["r"])[0] == "mcall" and ctx.key(mn["r"])[1] == DM + "::isRetained" and ctx.key(mn["r"])[2] == dmk:
                # form B:  for (k = 0; k < n && !flag; ++k) flag = DM.isRetained(LeftIndices[k]);
                L = enclosing_loops(f, m)
                shp = loop_shape(f, ctx, L[0]) if L else None
                arg = deconv(ctx.key(mn["r"])[3])
                stops = [x for x in (shp or {}).get("extra", [])]
                only_flag = all(x in (("false", flag), ("true", ("un", "!", flag))) for x in stops)
                if shp is not None and shp["kind"] == "index" and shp["start"] == ("lit", 0) and shp["bound"][0] == "lit" and only_flag and \
                        not [e for e in shp["exits"] if e[1] != "stop-condition"] and arg[0] == "op" and arg[1] == "[]" and arg[2] == arr and arg[3][:2] == shp["var"][:2]:
                    krange = set(range(0, shp["bound"][1] + (1 if shp["rel"] == "<=" else 0)))
                else:
                    unknown_form = True
                continue
            if not (mn["k"] == "bin" and mn["op"] == "=" and ctx.key(mn["r"]) == ("lit", 1)):
                ok_sets = False
                unknown_form = unknown_form or not (mn["k"] == "bin" and mn["op"] == "=" and ctx.key(mn["r"])[0] == "lit")
                continue
            mfa = at.get(f.cfg.pos1(m), frozenset())
            ret = [y for y in mfa if y[0] == "true" and y[1][0] == "mcall" and y[1][1] == DM + "::isRetained" and y[1][2] == dmk]
            L = enclosing_loops(f, m)
            shp = loop_shape(f, ctx, L[0]) if L else None
            if not ret or shp is None or shp["kind"] != "index" or shp["start"] != ("lit", 0) or shp["exits"]:
                ok_sets = False
                continue
            arg = deconv(ret[0][1][3])
            if not (arg[0] == "op" and arg[1] == "[]" and arg[2] == arr and arg[3][:2] == shp["var"][:2] and shp["bound"][0] == "lit"):
                ok_sets = False
                continue
            krange = set(range(0, shp["bound"][1] + (1 if shp["rel"] == "<=" else 0)))
        if unknown_form:
            flag = None        # falls through to "form not analysed"
        elif init_false and ok_sets and krange == idxs and len(idxs) == len(used):
            good = True
        elif krange is not None and krange != idxs:
            why = "the retention loop looks at LeftIndices[k] for k in %s but the part uses blocks %s: a stripe whose only retained block is not inspected is dropped" % (sorted(krange), sorted(idxs))
        else:
            why = "the 'retained' flag is not (false initially, set true only under DM.isRetained(LeftIndices[k]) in a full loop over the stripe)"
    has_ret = any(n_["k"] == "call" and strip_targs(n_.get("cname") or "") == DM + "::isRetained" for _, n_ in f.walk(f.body))
    interp = None
    if has_ret and arr is not None and len(idxs) == len(used):
        try:
            interp = _stripe_guard_by_interpretation(db, f, ctx, N, arr, idxs)
        except AnalysisBroken as e:
            interp = None
            interp_why = str(e)
    if interp is not None:
        wrong = [(r, c) for r, c in interp if c != any(r[i] for i in idxs)]
        if not wrong:
            r1.ok(site, f.loc(N), "created iff DM.isRetained(LeftIndices[k]) for some k in %s, the blocks whose data the part uses (body of the stripe loop interpreted for all 16 retention patterns)" % sorted(idxs), cfgname)
        else:
            r, c = wrong[0]
            pat = ", ".join("block %d %s" % (i, "retained" if r[i] else "discarded") for i in range(4))
            r1.bad(site, f.loc(N), "for a matching stripe with %s the part is %s (%d of 16 retention patterns decided wrongly; interpreted body of the stripe loop): %s" % (
                pat, "created although every block it uses is discarded" if c else "not created", len(wrong),
                "a contribution above the tolerance is dropped" if not c else "the truncation has no effect"), cfgname)
    elif good:
        r1.ok(site, f.loc(N), "created iff DM.isRetained(LeftIndices[k]) for some k in 0..3, the four blocks whose data the part uses", cfgname)
    elif not has_ret:
        r1.ok(site, f.loc(N), "no truncation guard: every stripe is kept (eps = 0 behaviour)", cfgname)
    elif inverted is not None and flag is None:
        r1.bad(site, f.loc(N), "the part is created only when '%s' (set under DM.isRetained) is false: exactly the stripes that still have a retained block are dropped" % inverted[2], cfgname)
    elif flag is None or arr is None:
        r1.unknown(site, f.loc(N), "the retention guard of the two-particle parts is written in a form that is not analysed (no boolean flag set in a loop over the stripe)", cfgname)
    else:
        r1.bad(site, f.loc(N), why, cfgname)
    r2 = chk.rule("C19-R2", "a block is discarded only if none of its states has weight above the tolerance; flags are per block", "F1 dominance", 4)
    f = db.fn(DMP + "::truncate", nparams=1)
    ctx = Ctx(f, db)
    at = guard_facts(f, ctx)
    ret = fld(DMP + "::retained")
    tol = ("param", f.params[0]["d"], f.params[0]["n"])
    W = fld(DMP + "::weights")
    asg = [(j, ctx.key(f.nodes[j]["r"])) for j, n in f.walk(f.body) if n["k"] == "bin" and n["op"] == "=" and ctx.key(n["l"]) == ret]
    site = DMP + "::truncate"
    falses = [j for j, v in asg if v == ("lit", 0)]
    trues = [j for j, v in asg if v == ("lit", 1)]
    good = False
    why = "retained is not (false first, true iff some weights(s) > Tolerance)"
    if len(falses) == 1 and len(trues) == 1 and not enclosing_loops(f, falses[0]):
        T = trues[0]
        L = enclosing_loops(f, T)
        shp = loop_shape(f, ctx, L[0]) if L else None
        fa = at.get(f.cfg.pos1(T), frozenset())
        wsz = [("mcall", "Eigen::EigenBase::size", W), ("mcall", "Eigen::PlainObjectBase::size", W)]
        if shp is not None and shp["kind"] == "index" and shp["start"] == ("lit", 0) and shp["bound"] in wsz:
            s_ = shp["var"]
            strict = ("<", tol, ("op", "()", W, s_)) in fa
            weak = ("<=", tol, ("op", "()", W, s_)) in fa
            # exits allowed only after the flag was set
            bad_exit = [e for e, kind in shp["exits"] if not f.cfg.dominates(f.cfg.pos1(T), f.cfg.pos1(e))]
            if (strict or weak) and not bad_exit and f.cfg.dominates(f.cfg.pos1(falses[0]), f.cfg.pos1(T)):
                good = True      # '>=' retains more than '>' and still satisfies "discarded only if no weight is above eps"
            elif bad_exit:
                why = "the scan over the weights stops before a weight above the tolerance was found"
            else:
                why = "retained is set true without the test weights(s) > Tolerance"
        else:
            why = "the weights are not scanned over [0, size)"
    verdict = "ok" if good else "bad"
    interp = None
    try:
        interp = _truncate_by_interpretation(db, f, 5 if chk.tier == "thorough" else 3)
    except AnalysisBroken:
        interp = None
    if interp is not None:
        wrong = [x for x in interp if x[3]]
        if not wrong:
            r2.ok(site, f.loc(), "after truncate(eps) the block is retained whenever some weight exceeds eps, whatever the flag was before (body interpreted on %d cases: weight vectors of up to %d states below / at / above eps, both prior flag values)" % (len(interp), 5 if chk.tier == "thorough" else 3), cfgname)
        else:
            w, prior, after, _ = wrong[0]
            r2.bad(site, f.loc(), "with weights %s relative to the tolerance and the flag previously %s, the block is discarded although a state has weight above the tolerance (%d of %d interpreted cases)" % (
                [{0: "below", 1: "equal", 2: "above"}[x] for x in w], "true" if prior else "false", len(wrong), len(interp)), cfgname)
        verdict = None
    elif not good and not (len(falses) == 1 and len(trues) == 1):
        # other ways of writing the same decision
        verdict = "unknown"
        why = "the retention flag is computed in a form that is not analysed"
        whole = lambda k: k == W or (k[0] == "mcall" and len(k) == 3 and k[1].split("::")[-1] in ("array", "matrix", "eval") and k[2] == W)
        if len(asg) == 1:
            v = asg[0][1]
            if v[0] == "mcall" and v[1].split("::")[-1] == "any" and len(v) == 3 and v[2][0] == "op" and len(v[2]) == 4:
                rel, a_, b_ = v[2][1], v[2][2], v[2][3]
                if (rel in (">", ">=") and whole(a_) and b_ == tol) or (rel in ("<", "<=") and a_ == tol and whole(b_)):
                    verdict = "ok"
                else:
                    verdict, why = "bad", "retained = (%s).any() is not 'some weight above the tolerance'" % f.s(f.nodes[asg[0][0]]["r"])[:60]
            elif v[0] == "op" and len(v) == 4 and v[1] in (">", ">=", "<", "<=") and any(x[0] == "op" and x[1] in ("()", "[]") and x[2] == W for x in (v[2], v[3])) and tol in (v[2], v[3]):
                verdict, why = "bad", "only one weight (%s) is compared with the tolerance: a block whose other states carry weight above it is discarded" % f.s(f.nodes[asg[0][0]]["r"])[:50]
            elif v[0] == "op" and v[1] in ("&&", "||") and any(
                    isinstance(x, tuple) and x[0] == "op" and len(x) == 4 and x[1] in (">", ">=", "<", "<=") and tol in (x[2], x[3]) and
                    any(y[0] == "op" and y[1] in ("()", "[]") and y[2] == W for y in (x[2], x[3]) if isinstance(y, tuple)) for x in subkeys(v)):
                verdict, why = "bad", "only one weight is compared with the tolerance (%s): a block whose other states carry weight above it is discarded" % f.s(f.nodes[asg[0][0]]["r"])[:70]
            elif v == ("lit", 1):
                verdict = "ok"       # nothing is ever discarded: the property holds trivially
            elif v == ("lit", 0):
                verdict, why = "bad", "retained is only ever set to false: a block once discarded stays discarded for any later, smaller tolerance (eps = 0 does not restore the untruncated result)"
        elif asg and all(v == ("lit", 1) for _, v in asg):
            verdict = "ok"           # blocks start retained and are never discarded: the property holds trivially
        elif asg and all(v == ("lit", 0) for _, v in asg):
            verdict, why = "bad", "retained is only ever set to false: a block once discarded stays discarded for any later, smaller tolerance (eps = 0 does not restore the untruncated result)"
    if verdict is None:
        pass
    elif verdict == "ok":
        r2.ok(site, f.loc(), "retained = false; true iff exists s with weights(s) > (or >=) Tolerance", cfgname)
    elif verdict == "unknown":
        r2.unknown(site, f.loc(), why, cfgname)
    else:
        r2.bad(site, f.loc(), why, cfgname)
    g = db.fn(DM + "::truncateBlocks")
    gctx = Ctx(g, db)
    site = DM + "::truncateBlocks"
    from pv.loops import covers, is_element
    from pv.paths import every_iteration
    calls_ = [jj for jj, nn in g.walk(g.body) if nn["k"] == "call" and strip_targs(nn.get("cname") or "") == DMP + "::truncate"]
    verdict, why = "unknown", "truncate() is not called from a loop over the parts"
    for jj in calls_:
        nn = g.nodes[jj]
        Ls = [L for L in enclosing_loops(g, jj) if g.nodes[L]["k"] in ("for", "forrange")]
        if not Ls:
            continue
        shp = loop_shape(g, gctx, Ls[0])
        if not covers(shp, fld(DM + "::parts")):
            if shp["kind"] in ("index", "iter", "range"):
                verdict, why = "bad", "the loop around truncate() does not visit every block (start %s, bound %s, early exits %s)" % (shp.get("start"), shp.get("bound"), [e[1] for e in shp["exits"]])
            continue
        if gctx.key(nn["args"][0]) != ("param", g.params[0]["d"], g.params[0]["n"]):
            verdict, why = "bad", "blocks are truncated with %s instead of the requested tolerance" % g.s(nn["args"][0])[:40]
        elif not is_element(gctx.key(nn["obj"]), shp, fld(DM + "::parts")):
            verdict, why = "bad", "truncate() is not called on the block visited by the loop"
        elif every_iteration(g, Ls[0], jj) is False:
            verdict, why = "bad", "some blocks are not truncated (an `if` / `continue` bypasses the call): their retention flags keep the value of an earlier tolerance"
        else:
            verdict = "ok"
            # ... and the loop is reached whatever the arguments are: truncate() also RE-evaluates the flag, so a call that returns
            # before the loop (e.g. for Tolerance <= 0) leaves the flags of an earlier, coarser truncation in place
            from checks.lehmann import early_exits_before
            ee = early_exits_before(g, jj)
            # (a return taken when there is no block at all skips nothing)
            def _no_blocks(r_):
                fa0 = guard_facts(g, gctx).get(g.cfg.pos1(r_), frozenset())
                return any((x[0] == "true" and x[1][0] == "mcall" and x[1][1].split("::")[-1] == "empty" and x[1][2] == fld(DM + "::parts")) for x in fa0)
            ee = [r_ for r_ in ee if not _no_blocks(r_)]
            if ee:
                fa_ = guard_facts(g, gctx).get(g.cfg.pos1(ee[0]), frozenset())
                verdict, why = "bad", "the function returns before the loop over the blocks when {%s}: the retention flags then keep the values of an earlier truncation (truncateBlocks(0) no longer restores the untruncated state)" % (
                    "; ".join(sorted(str(fact_str(x))[:50] for x in fa_)) or "a condition holds")
    if verdict == "ok":
        r2.ok(site, g.loc(), "truncate(Tolerance) on every part", cfgname)
    elif verdict == "bad":
        r2.bad(site, g.loc(), "not every block is truncated with the requested tolerance: " + why, cfgname)
    else:
        r2.unknown(site, g.loc(), why, cfgname)
    g = db.fn(DM + "::isRetained", nparams=1)
    gctx = Ctx(g, db)
    b = ("param", g.params[0]["d"], g.params[0]["n"])
    rets = [j for j, n in g.walk(g.body) if n["k"] == "return"]
    site = DM + "::isRetained"
    k = deconv(gctx.key(g.nodes[rets[0]]["sub"])) if len(rets) == 1 else None
    if len(rets) > 1:
        raise AnalysisBroken("DensityMatrix::isRetained: several returns (not analysed)")
    want = [("mcall", DMP + "::isRetained", ("op", "[]", fld(DM + "::parts"), b)), ("field", DMP + "::retained", ("op", "[]", fld(DM + "::parts"), b))]
    if k in want:
        r2.ok(site, g.loc(), "reads the flag of part `in`", cfgname)
    else:
        r2.bad(site, g.loc(), "isRetained(b) does not read the flag of block b", cfgname)
    g = db.fn(DMP + "::isRetained", nparams=0)
    gctx = Ctx(g, db)
    rets = [j for j, n in g.walk(g.body) if n["k"] == "return"]
    ctor = [x for x in db.fns_named(DMP + "::DensityMatrixPart") if x.kind == "ctor" and len(x.params) == 4]
    init_true = any(i.get("field") == "retained" and Ctx(c, db).key(i["e"]) == ("lit", 1) for c in ctor for i in c.d.get("inits", []))
    site = DMP + "::isRetained"
    if len(rets) > 1:
        raise AnalysisBroken("DensityMatrixPart::isRetained: several returns (not analysed)")
    if rets and gctx.key(g.nodes[rets[0]]["sub"]) == ret and init_true:
        r2.ok(site, g.loc(), "returns retained; blocks start retained", cfgname)
    else:
        r2.bad(site, g.loc(), "the per-block flag is not returned as is / does not start as true", cfgname)
    chk.undecided.append("the eps-proportional error bound on G, chi, susceptibilities and averages (numeric); 'with eps = 0 nothing changes' follows from R2 given non-negative weights")


if __name__ == "__main__":
    run_check("C19", "block truncation: structural clauses", body)

