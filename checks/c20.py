"""C20 — lattice input is validated and looked up faithfully (DESIGN.md §3 C20)."""
from pv.check import run_check
from pv.entail import contradicts, entails
from pv.expr import Ctx, guard_facts, key_contains
from pv.facts import AnalysisBroken
from pv.throws import Throws

SITES = "Pomerol::Lattice::Sites"
TERMS = "Pomerol::Lattice::Terms"


def is_sites(k):
    return isinstance(k, tuple) and k[0] == "field" and k[1] == SITES


def find_key(m, label):
    return ("mcall", "std::map::find", m, label)


def end_key(m):
    return ("mcall", "std::map::end", m)


def known_fact(m, label):
    a, b = end_key(m), find_key(m, label)
    if repr(a) > repr(b):
        a, b = b, a
    return ("!=", a, b)


def site_forms(m, label):
    """accepted ways to obtain the Site* stored under `label`."""
    base = [("op", "[]", m, label),
            ("mcall", "std::map::at", m, label),
            ("field", "std::pair::second", ("op", "->", find_key(m, label))),
            ("field", "std::pair::second", ("un", "*", find_key(m, label))),
            ("field", "std::pair::second", ("op", "*", find_key(m, label)))]
    # the stored value is a Site*: member access through the pointer or through an explicit dereference
    return base + [("un", "*", x) for x in base] + [("op", "*", x) for x in base]


def body(chk, db, cfgname):
    thr = Throws(db)

    def ctx_of(fn):
        return thr.ctx(fn)

    def facts_at(fn, node):
        p = fn.cfg.pos1(node)
        if p is None:
            raise AnalysisBroken("node %d of %s is not in the CFG" % (node, fn.qn))
        return thr.facts(fn).get(p, frozenset())

    # ------------------------------------------------------------------ R1
    r1 = chk.rule("C20-R1", "validation dominates storage in Lattice::addTerm", "F1 dominance", 4)
    f = db.fn("Pomerol::Lattice::addTerm", nparams=1)
    ctx = ctx_of(f)
    Tkey = ("param", f.params[0]["d"], f.params[0]["n"])
    writes = [j for j in f.calls(cname="Pomerol::Lattice::TermStorage::addTerm")]
    if len(writes) != 1:
        raise AnalysisBroken("Lattice::addTerm: expected one call of TermStorage::addTerm, found %d" % len(writes))
    W = writes[0]
    wpos = f.cfg.pos1(W)
    # loops whose exit dominates the write
    loops = [j for j, n in f.walk(f.body) if n["k"] == "for"]
    okloop = None
    for L in loops:
        n = f.nodes[L]
        hdr, blocks = f.cfg.loop_blocks(L)
        if hdr is None or not f.cfg.dominates_block(hdr, wpos[0]) or wpos[0] in blocks:
            continue
        okloop = L
    site = "Pomerol::Lattice::addTerm:store"
    mSites = ("field", SITES, ("this",))
    if okloop is None:
        for what in ("label", "orbital", "spin"):
            r1.bad(site + ":" + what, f.loc(W), "the call Terms->addTerm(T) is not preceded by a loop over the term's factors", cfgname)
    else:
        n = f.nodes[okloop]
        # full-range loop over [0, order)
        ivar = None
        ini = f.nodes[n["init"]] if n.get("init") is not None else None
        if ini and ini["k"] == "decl" and len(ini["vars"]) == 1 and ini["vars"][0].get("init") is not None \
                and ctx.key(ini["vars"][0]["init"]) == ("lit", 0):
            ivar = ("var", ini["vars"][0]["d"], ini["vars"][0]["n"])
        full = False
        if ivar is not None and n.get("c") is not None:
            fs = ctx.cmp_fact(n["c"], True)
            order_keys = [("mcall", "Pomerol::Lattice::Term::getOrder", Tkey), ("field", "Pomerol::Lattice::Term::N", Tkey)]
            for fa in fs:
                if fa[0] == "<" and fa[1] == ivar and fa[2] in order_keys:
                    full = True
        incn = f.nodes[n["inc"]] if n.get("inc") is not None else None
        if not (ivar and incn and incn["k"] == "un" and incn["op"] == "++" and ctx.key(incn["sub"], inline=False)[:2] == ivar[:2]):
            full = False
        exits = [j for j, m in f.walk(n["body"]) if m["k"] in ("break", "return", "continue")] if n.get("body") is not None else []
        lbl = ("op", "[]", ("field", "Pomerol::Lattice::Term::SiteLabels", Tkey), ivar)
        latch = f.cfg.pos1(n["inc"]) if n.get("inc") is not None else None
        lf = thr.facts(f).get(latch, frozenset()) if latch else frozenset()
        if not full or exits:
            why = "the validation loop does not visit every factor i in [0, order): " + (
                "early exit '%s' inside the loop" % f.nodes[exits[0]]["k"] if exits else "loop header is %s" % f.s(okloop))
            for what in ("label", "orbital", "spin"):
                r1.bad(site + ":" + what, f.loc(okloop), why, cfgname)
        else:
            # label known
            if entails(lf, known_fact(mSites, lbl)):
                r1.ok(site + ":label", f.loc(okloop), "every iteration reaching the latch has Sites.find(T->SiteLabels[i]) != Sites.end(); failing edge throws", cfgname)
            else:
                r1.bad(site + ":label", f.loc(W), "a term is stored although, for some factor i, the site label was not checked to exist "
                       "(no dominating test Sites.find(T->SiteLabels[i]) != Sites.end() on the path through the loop body)", cfgname)
            for what, vec, ext in (("orbital", "Pomerol::Lattice::Term::Orbitals", "Pomerol::Lattice::Site::OrbitalSize"),
                                   ("spin", "Pomerol::Lattice::Term::Spins", "Pomerol::Lattice::Site::SpinSize")):
                a = ("op", "[]", ("field", vec, Tkey), ivar)
                good = any(entails(lf, ("<", a, ("field", ext, s))) for s in site_forms(mSites, lbl))
                if good:
                    r1.ok(site + ":" + what, f.loc(okloop), "every iteration reaching the latch has T->%s[i] < site->%s" % (vec.split("::")[-1], ext.split("::")[-1]), cfgname)
                else:
                    r1.bad(site + ":" + what, f.loc(W), "a term is stored although T->%s[i] < %s of its site is not established for every factor "
                           "(test missing, weakened or on another index)" % (vec.split("::")[-1], ext.split("::")[-1]), cfgname)
    wf = facts_at(f, W)
    val = ("field", "Pomerol::Lattice::Term::Value", Tkey)
    nz = False
    for fa in wf:
        if fa[0] == "true" and key_contains(fa[1], lambda k: k == val) and fa[1][0] in ("call", "field") :
            nz = True
        if fa[0] == "!=" and ((fa[1] == val and fa[2] == ("lit", 0)) or (fa[2] == val and fa[1] == ("lit", 0))):
            nz = True
        if fa[0] == "<" and fa[1] == ("lit", 0) and key_contains(fa[2], lambda k: k == val):
            nz = True
        # abs(Value) != 0, 0 != abs(Value), Value != MelemType(0) ... : any (in)equality of something built from Value with zero
        if fa[0] == "!=" and any(x_ in (("lit", 0), ("lit", 0.0)) for x_ in fa[1:]) and any(isinstance(x_, tuple) and key_contains(x_, lambda k: k == val) for x_ in fa[1:]):
            nz = True
    if nz:
        r1.ok(site + ":nonzero", f.loc(W), "store is under a non-zero test of T->Value", cfgname)
    else:
        r1.bad(site + ":nonzero", f.loc(W), "zero-amplitude terms are not filtered: Terms->addTerm(T) is not under a test of T->Value", cfgname)

    # ------------------------------------------------------------------ R2
    r2 = chk.rule("C20-R2", "no lattice write before a reachable throw; Sites[...] only after a successful find", "F2 typestate", 20)
    scope = [g for g in db.fns.values() if (g.qn.startswith("Pomerol::LatticePresets::") or g.qn.startswith("Pomerol::Lattice::"))
             and g.file.endswith((".cpp",)) and g.d.get("cfg") is not None and g.kind == "fn"]
    WRITERS = ("Pomerol::Lattice::TermStorage::addTerm", "Pomerol::Lattice::addTerm", "Pomerol::Lattice::addSite")
    lattice_addterm = f.mangled
    nsub = 0
    for g in sorted(scope, key=lambda x: (x.file, x.line)):
        gctx = ctx_of(g)
        at = None
        # (a) map subscripts on Sites
        for j, n in g.walk(g.body):
            if n["k"] == "call" and n["ck"] == "op" and n["op"] == "[]" and (n.get("cname") or "").startswith("std::map<"):
                mk = gctx.key(n["args"][0])
                if not is_sites(mk):
                    continue
                nsub += 1
                lk = gctx.key(n["args"][1])
                par = g.parent_map().get(j)
                pn = g.nodes[par] if par is not None else None
                assigned = pn is not None and pn["k"] == "bin" and pn["op"] == "=" and pn["l"] == j
                ssite = "%s:Sites[%s]" % (g.qn, g.s(n["args"][1]))
                if assigned:
                    if g.name == "Pomerol::Lattice::addSite":
                        r2.ok(ssite, g.loc(j), "the single writer of Sites", cfgname)
                    else:
                        r2.bad(ssite, g.loc(j), "Sites is written outside Lattice::addSite", cfgname)
                    continue
                fa = facts_at(g, j)
                if entails(fa, known_fact(mk, lk)):
                    r2.ok(ssite, g.loc(j), "std::map::operator[] (which inserts a null Site* for a missing key) is dominated by a successful find of the same key", cfgname)
                else:
                    r2.bad(ssite, g.loc(j), "Sites[%s] is evaluated without a dominating Sites.find(%s) != Sites.end(): for an unknown label this "
                           "inserts a null entry into the lattice (and dereferences it)" % (g.s(n["args"][1]), g.s(n["args"][1])), cfgname)
        # (b) write followed by a reachable, undischarged throw
        if not (g.qn.startswith("Pomerol::LatticePresets::add") or g.mangled == lattice_addterm):
            continue
        wnodes = []
        for j, n in g.walk(g.body):
            if n["k"] == "call" and (n.get("cname") in WRITERS or (n.get("cname") or "").startswith("Pomerol::LatticePresets::add")):
                wnodes.append(j)
        if not wnodes:
            continue
        # potential throwers: throw expressions + calls to library functions with undischarged throws
        throwers = {}
        for j, n in g.walk(g.body):
            if n["k"] == "throw" and g.cfg.pos(j):
                throwers[j] = "throw at %s" % g.loc(j)
            elif n["k"] in ("call", "construct"):
                cf = db.callee_fn(n)
                if cf is None or not cf.file.startswith(g.file.rsplit("/src/", 1)[0]):
                    continue
                if cf.mangled == lattice_addterm:
                    continue   # assumed: presets pre-validate what Lattice::addTerm validates (R5); its own discipline is R1/R2
                if not thr.may_throw(cf):
                    continue
                if not g.cfg.pos(j):
                    continue
                und = thr.undischarged(g, j, cf, facts_at(g, j), exclude=(lattice_addterm,))
                if und:
                    ts, alt = und[0]
                    throwers[j] = "call %s may throw at %s: condition {%s} is not excluded at the call" % (
                        g.s(j)[:80], ts.where(), "; ".join(fact_str(a) for a in alt if a[0] != "!=" or True)[:300])
        elempos = {}
        for j in throwers:
            for p in g.cfg.pos(j):
                elempos[p] = j
        for wj in wnodes:
            wp = g.cfg.pos1(wj)
            ssite = "%s:write@%s" % (g.qn, g.s(wj)[:60])
            # a call that is both a write and a potential thrower throws *before* it writes (checked for the callee itself)
            path = g.cfg.paths_avoiding(wp, lambda b, i, e: (b, i) in elempos and elempos[(b, i)] != wj or ((b, i) in elempos and (b, i) != wp and False),
                                        lambda b, i, e: False)
            # loops: the same call reached again after it wrote once
            if path is None and wj in throwers:
                path = g.cfg.paths_avoiding(wp, lambda b, i, e: (b, i) == wp, lambda b, i, e: False)
            if path is None:
                r2.ok(ssite, g.loc(wj), "no throw is reachable after this write", cfgname)
            else:
                tj = elempos.get(path[-1])
                r2.bad("%s:throw-after-write" % g.sig, g.loc(wj),
                       "after the lattice was modified by '%s' the function can still reject its input: %s" % (g.s(wj)[:70], throwers.get(tj, "?")),
                       cfgname, path=["B%d.%d" % p for p in path[:12]])

    # ------------------------------------------------------------------ R3
    r3 = chk.rule("C20-R3", "map look-ups are dereferenced only on the found edge; the not-found edge rejects", "F2 typestate", 2)
    for g in sorted(scope, key=lambda x: (x.file, x.line)):
        gctx = ctx_of(g)
        for j, n in g.walk(g.body):
            if n["k"] == "call" and n["ck"] == "op" and n["op"] in ("->", "*") and "_Rb_tree" in (n.get("cname") or ""):
                k = gctx.key(n["args"][0])
                if k[0] != "mcall" or k[1] != "std::map::find":
                    continue
                fa = facts_at(g, j)
                ssite = "%s:deref(%s)" % (g.qn, g.s(n["args"][0]))
                if entails(fa, known_fact(k[2], k[3])):
                    r3.ok(ssite, g.loc(j), "dereference is on the != end() edge", cfgname)
                else:
                    neg = contradicts(fa, known_fact(k[2], k[3]))
                    r3.bad(ssite, g.loc(j), "result of %s is dereferenced %s" % (
                        g.s(n["args"][0]) if g.nodes[n["args"][0]]["k"] != "ref" else g.s(gctx.decls[g.nodes[n["args"][0]]["d"]]["init"]),
                        "on the edge where it EQUALS end() (test inverted)" if neg else "without a dominating != end() test"), cfgname)
    g = db.fn("Pomerol::Lattice::getSite", nparams=1)
    gctx = ctx_of(g)
    lbl = ("param", g.params[0]["d"], g.params[0]["n"])
    nf = ("==",) + known_fact(("field", SITES, ("this",)), lbl)[1:]
    rejects = False
    for ts in thr.direct(g):
        if all(entails(alt, nf) for alt in ts.alts):
            rejects = True
    if rejects:
        r3.ok("Pomerol::Lattice::getSite:not-found-throws", g.loc(), "a throw is reached exactly under Sites.find(Label) == Sites.end()", cfgname)
    else:
        r3.bad("Pomerol::Lattice::getSite:not-found-throws", g.loc(), "no throw is guarded by Sites.find(Label) == Sites.end(): an unknown label is not rejected", cfgname)

    # ------------------------------------------------------------------ R4
    r4 = chk.rule("C20-R4", "size guards of presets are not vacuous (operands have different value origins)", "F8 guards", 7)
    for g in sorted(scope, key=lambda x: (x.file, x.line)):
        if not g.qn.startswith("Pomerol::LatticePresets::"):
            continue
        gctx = ctx_of(g)
        for j, n in g.walk(g.body):
            if n["k"] == "bin" and n["op"] in ("==", "!=", "<", ">", "<=", ">="):
                ln, rn = g.nodes[n["l"]], g.nodes[n["r"]]
                # a comparison in which a never-reassigned local takes part
                loc_l = ln["k"] == "ref" and ln["dk"] == "local" and gctx.single_assignment(ln["d"])
                loc_r = rn["k"] == "ref" and rn["dk"] == "local" and gctx.single_assignment(rn["d"])
                if not (loc_l or loc_r):
                    continue
                other = rn if loc_l else ln
                if other["k"] == "lit" or (other["k"] == "ref" and other["dk"] in ("local", "param") and not (loc_l and loc_r)):
                    continue   # comparison with a constant / loop variable: not a "sizes match" guard
                if other["k"] == "ref" and other["dk"] == "local" and not gctx.single_assignment(other["d"]):
                    continue
                kl, kr = gctx.key(n["l"]), gctx.key(n["r"])
                ssite = "%s:guard(%s)" % (g.sig, g.s(j))
                if kl == kr:
                    r4.bad(ssite, g.loc(j), "vacuous guard: '%s' compares a value with the very expression it was initialised from (%s); "
                           "it can never fire, so mismatching sites are accepted" % (g.s(j), g.s(gctx.decls[(ln if loc_l else rn)["d"]]["init"])), cfgname)
                else:
                    r4.ok(ssite, g.loc(j), "operands have different origins", cfgname)

    # ------------------------------------------------------------------ R5
    r5 = chk.rule("C20-R5", "presets check their arguments before constructing / storing", "F1 dominance", 9)
    for nm in ("Pomerol::Lattice::Term::Presets::Spinflip", "Pomerol::Lattice::Term::Presets::PairHopping"):
        g = db.fn(nm)
        gctx = ctx_of(g)
        pk = {p["n"]: ("param", p["d"], p["n"]) for p in g.params}
        news = [j for j, n in g.walk(g.body) if n["k"] == "new"]
        if not news:
            raise AnalysisBroken("%s: no Term is constructed" % nm)
        pnames = [p["n"] for p in g.params if "short" in p["t"]]
        if len(pnames) != 4:
            raise AnalysisBroken("%s: expected 4 index parameters" % nm)
        for j in news:
            fa = facts_at(g, j)
            for a, b in ((pnames[0], pnames[1]), (pnames[2], pnames[3])):
                goal = ("!=",) + tuple(sorted([pk[a], pk[b]], key=repr))
                ssite = "%s:%s!=%s" % (g.qn, a, b)
                if entails(fa, goal):
                    r5.ok(ssite, g.loc(j), "construction is dominated by %s != %s (failing edge throws)" % (a, b), cfgname)
                else:
                    r5.bad(ssite, g.loc(j), "the term is constructed although %s == %s was not excluded (documented as undefined)" % (a, b), cfgname)
    # addCoulombP's "more than one orbital and spin" rejection is not required by the documentation and the sums stay
    # well defined without it, so it is not armed (dropping it preserves the property).
    need = {"Pomerol::LatticePresets::addMagnetization": [("SpinSize", "==", 2)],
            "Pomerol::LatticePresets::addSzSz": [("SpinSize", "==", 2)],
            "Pomerol::LatticePresets::addSS": [("SpinSize", "==", 2)]}
    for g in sorted(scope, key=lambda x: (x.file, x.line)):
        if not g.qn.startswith("Pomerol::LatticePresets::add"):
            continue
        gctx = ctx_of(g)
        direct_writes = [j for j, n in g.walk(g.body) if n["k"] == "call" and n.get("cname") in WRITERS]
        labels = [p for p in g.params if "basic_string" in p["t"]]
        Lp = [p for p in g.params if p["t"].startswith("Pomerol::Lattice *")]
        if not direct_writes:
            # forwarding overload: must consist of a call to a sibling preset
            fw = [j for j, n in g.walk(g.body) if n["k"] == "call" and (n.get("cname") or "").startswith("Pomerol::LatticePresets::add")]
            if not fw:
                raise AnalysisBroken("%s neither stores a term nor forwards" % g.sig)
            continue
        if not Lp:
            raise AnalysisBroken("%s has no Lattice* parameter" % g.sig)
        m = ("field", SITES, ("param", Lp[0]["d"], Lp[0]["n"]))
        for lp in labels:
            lk = ("param", lp["d"], lp["n"])
            bad = None
            for j in direct_writes:
                if not entails(facts_at(g, j), known_fact(m, lk)):
                    bad = j
            ssite = "%s:label(%s)" % (g.sig, lp["n"])
            if bad is None:
                r5.ok(ssite, g.loc(), "every store is dominated by L->Sites.find(%s) != end (failing edge throws)" % lp["n"], cfgname)
            else:
                r5.bad(ssite, g.loc(bad), "terms are stored although the label %s was not checked to exist" % lp["n"], cfgname)
        for (ext, op, c) in need.get(g.name, []):
            if len(g.params) and g.name == "Pomerol::LatticePresets::addCoulombP" and len(g.params) != 6:
                continue
            lk = ("param", labels[0]["d"], labels[0]["n"])
            bad = None
            for j in direct_writes:
                fa = facts_at(g, j)
                goals = []
                for s in site_forms(m, lk):
                    x = ("field", "Pomerol::Lattice::Site::" + ext, s)
                    goals.append(("<", ("lit", c), x) if op == "<" else tuple(["=="] + sorted([("lit", c), x], key=repr)))
                if not any(entails(fa, gl) for gl in goals):
                    bad = j
            ssite = "%s:%s%s%d" % (g.sig, ext, ">" if op == "<" else "==", c)
            if bad is None:
                r5.ok(ssite, g.loc(), "every store is dominated by %s %s %d" % (ext, ">" if op == "<" else "==", c), cfgname)
            else:
                r5.bad(ssite, g.loc(bad), "terms are stored although %s %s %d of the site was not established" % (ext, ">" if op == "<" else "==", c), cfgname)

    # ------------------------------------------------------------------ R6
    r6 = chk.rule("C20-R6", "terms are stored by order and retrievable; copies define the same model", "F1 dominance", 4)
    # user-written copy constructors of the lattice classes take over every member (a copy is the same model)
    from checks.lehmann import check_copy_ctors_complete
    check_copy_ctors_complete(r6, db, cfgname, ("Pomerol::Lattice", "Pomerol::Lattice::Term", "Pomerol::Lattice::TermStorage", "Pomerol::Lattice::Site"))
    g = db.fn("Pomerol::Lattice::TermStorage::addTerm", nparams=1)
    gctx = ctx_of(g)
    Tk = ("param", g.params[0]["d"], g.params[0]["n"])
    order_keys = [("mcall", "Pomerol::Lattice::Term::getOrder", Tk), ("field", "Pomerol::Lattice::Term::N", Tk)]
    mterms = ("field", "Pomerol::Lattice::TermStorage::Terms", ("this",))
    pb = [j for j, n in g.walk(g.body) if n["k"] == "call" and n["ck"] == "method" and (n.get("cname") or "").endswith("::push_back")]
    good = False
    for j in pb:
        n = g.nodes[j]
        ok_ = gctx.key(n["obj"])
        arg = gctx.key(n["args"][0])
        if ok_[0] == "op" and ok_[1] == "[]" and ok_[2] == mterms and ok_[3] in order_keys \
                and arg[0] == "new" and arg[1] == "Pomerol::Lattice::Term" and key_contains(arg[2], lambda k: k == ("un", "*", Tk)):
            good = True
    ssite = "Pomerol::Lattice::TermStorage::addTerm:store"
    if good:
        r6.ok(ssite, g.loc(), "a copy of *T is appended to Terms[T->getOrder()]", cfgname)
    else:
        r6.bad(ssite, g.loc(), "TermStorage::addTerm does not append a copy of *T to the list of its own order", cfgname)
    mx = ("field", "Pomerol::Lattice::TermStorage::MaxTermOrder", ("this",))
    asg = [j for j, n in g.walk(g.body) if n["k"] == "bin" and n["op"] == "=" and gctx.key(n["l"]) == mx]
    good = False
    for j in asg:
        rk = gctx.key(g.nodes[j]["r"])
        # max idiom: (Max < N) ? N : Max   |  std::max(Max, N)
        if rk[0] == "cond":
            c, a, b = rk[1], rk[2], rk[3]
            for N in order_keys:
                if (c == ("op", "<", mx, N) and a == N and b == mx) or (c == ("op", ">", N, mx) and a == N and b == mx) or \
                   (c == ("op", ">", mx, N) and a == mx and b == N) or (c == ("op", "<", N, mx) and a == mx and b == N) or \
                   (c == ("op", ">=", mx, N) and a == mx and b == N) or (c == ("op", "<=", mx, N) and a == N and b == mx):
                    good = True
        if rk[0] == "call" and rk[1] == "std::max" and set(rk[2:]) & set(order_keys) and mx in rk[2:]:
            good = True
    # also accept: if (Max < N) Max = N;
    for j in asg:
        if gctx.key(g.nodes[j]["r"]) in order_keys:
            fa = facts_at(g, j)
            if any(("<", mx, N) in fa for N in order_keys):
                good = True
    ssite = "Pomerol::Lattice::TermStorage::addTerm:max-order"
    if good:
        r6.ok(ssite, g.loc(), "MaxTermOrder is raised to max(MaxTermOrder, order)", cfgname)
    else:
        r6.bad(ssite, g.loc(), "MaxTermOrder is not maintained as the maximum stored order", cfgname)
    g = db.fn("Pomerol::Lattice::TermStorage::getTerms", nparams=1)
    gctx = ctx_of(g)
    Nk = ("param", g.params[0]["d"], g.params[0]["n"])
    rets = [j for j, n in g.walk(g.body) if n["k"] == "return"]
    good = False
    for j in rets:
        rk = gctx.key(g.nodes[j]["sub"])
        if rk in [("field", "std::pair::second", ("op", "->", find_key(mterms, Nk))), ("mcall", "std::map::at", mterms, Nk)]:
            if entails(facts_at(g, j), known_fact(mterms, Nk)) or rk[0] == "mcall":
                good = True
    ssite = "Pomerol::Lattice::TermStorage::getTerms:lookup"
    if good:
        r6.ok(ssite, g.loc(), "returns Terms.find(N)->second on the found edge", cfgname)
    else:
        r6.bad(ssite, g.loc(), "getTerms(N) does not return the list stored under N", cfgname)
    cands = [x for x in db.fns_named("Pomerol::Lattice::Lattice") if len(x.params) == 1 and "Lattice" in x.params[0]["t"]]
    if len(cands) != 1:
        raise AnalysisBroken("copy constructor of Lattice not found")
    g = cands[0]
    gctx = ctx_of(g)
    lk = ("param", g.params[0]["d"], g.params[0]["n"])
    sites_copied = any(i.get("field") == "Sites" and gctx.key(i["e"]) in (("field", SITES, lk), ("ctor", None, ("field", SITES, lk))) or
                       (i.get("field") == "Sites" and key_contains(gctx.key(i["e"]), lambda k: k == ("field", SITES, lk)))
                       for i in g.d.get("inits", []))
    terms_copied = False
    for j, n in g.walk(g.body):
        if n["k"] == "bin" and n["op"] == "=" and gctx.key(n["l"]) == ("field", TERMS, ("this",)):
            rk = gctx.key(n["r"])
            if rk[0] == "new" and key_contains(rk, lambda k: k == ("un", "*", ("field", TERMS, lk))):
                terms_copied = True
    for i in g.d.get("inits", []):
        if i.get("field") == "Terms":
            rk = gctx.key(i["e"])
            if rk[0] == "new" and key_contains(rk, lambda k: k == ("un", "*", ("field", TERMS, lk))):
                terms_copied = True
    ssite = "Pomerol::Lattice::Lattice(const Lattice&):copy"
    if sites_copied and terms_copied:
        r6.ok(ssite, g.loc(), "copies Sites and a new TermStorage(*l.Terms)", cfgname)
    else:
        r6.bad(ssite, g.loc(), "copy constructor does not copy %s" % ("Sites" if not sites_copied else "the term storage (deep)"), cfgname)

    r7 = chk.rule("C20-R7", "after addSite the look-up by label returns the site added last under that label; other labels are untouched; getSite fails for unknown labels", "F7 table maps, interpreted over add/look-up histories", 2)
    check_site_table(r7, db, cfgname, chk.tier == "thorough")

    chk.undecided.append("that the stored terms, once translated, give the intended matrix (C04); exception safety of allocation failures")
    chk.trusted.append("R2 assumes LatticePresets functions that call Lattice::addTerm pre-validate what it validates (its throws are not re-discharged at those calls)")


def check_site_table(r7, db, cfgname, thorough=False):
    """The site table is only keyed by labels (compared, never computed with), so the extracted bodies of addSite / getSite
    are evaluated on histories over two labels: add A, add B, add A again with other sizes; look up A, B and an unknown label."""
    from pv.summ import Interp, Obj, Thrown
    L = "Pomerol::Lattice"
    ST = L + "::Site::"
    add_p = [g for g in db.fns_named(L + "::addSite") if len(g.params) == 1]
    add_3 = [g for g in db.fns_named(L + "::addSite") if len(g.params) == 3]
    get = db.fn(L + "::getSite", nparams=1)
    if len(add_p) != 1 or len(add_3) != 1:
        raise AnalysisBroken("Lattice::addSite overloads not found")

    def new_site(fr, i, args):
        ini = fr.nodes[i].get("init")
        ctor = fr.ip.db.callee_fn(fr.nodes[ini]) if ini is not None and fr.nodes[ini]["k"] == "construct" else None
        if ctor is None or ctor.body is None or ctor.body < 0:
            fr.bad(i, "Site constructor not analysable")
        return fr.ip.run_ctor(ctor, args, Obj("Site", **{ST + "Label": None, ST + "OrbitalSize": None, ST + "SpinSize": None}))
    import itertools
    hists = [[("A", 1, 2), ("B", 2, 2), ("A", 3, 1)]]
    if thorough:
        # every history of up to 4 additions over two labels, each addition with its own sizes
        for n_ in range(1, 5):
            for labs in itertools.product("AB", repeat=n_):
                hists.append([(l_, 1 + k_, 1 + (k_ % 2)) for k_, l_ in enumerate(labs)])
    for which, site in (("pointer", L + "::addSite(Site*)"), ("sizes", L + "::addSite(label,orbitals,spins)")):
        fn_ = add_p[0] if which == "pointer" else add_3[0]
        with r7.guard(site, fn_.loc(), cfgname):
            probs = []
            for hist in hists:
                lat = Obj("Lattice", **{L + "::Sites": {}, L + "::Terms": Obj("TermStorage")})
                ip = Interp(db, {"new Pomerol::Lattice::Site": new_site})
                want = {}
                for lab, o_, s_ in hist:
                    try:
                        if which == "pointer":
                            ip.call_fn(add_p[0], [Obj("Site", **{ST + "Label": lab, ST + "OrbitalSize": o_, ST + "SpinSize": s_})], this=lat)
                        else:
                            ip.call_fn(add_3[0], [lab, o_, s_], this=lat)
                    except Thrown as t:
                        raise AnalysisBroken("addSite throws %s" % t.tt)
                    want[lab] = (lab, o_, s_)
                for lab in ("A", "B", "C"):
                    try:
                        got = ip.call_fn(get, [lab], this=lat)
                        tup = (got.f.get(ST + "Label"), got.f.get(ST + "OrbitalSize"), got.f.get(ST + "SpinSize")) if isinstance(got, Obj) else got
                    except Thrown as t:
                        tup = None
                    if lab in want and tup != want[lab]:
                        probs.append("after addSite%s in this order, getSite(\"%s\") %s, the site added last under this label is %s" % (
                            tuple(hist), lab, ("gives %s" % (tup,)) if tup is not None else "fails", want[lab]))
                    elif lab not in want and tup is not None:
                        probs.append("after addSite%s, getSite of the label \"%s\" that was never added returns %r instead of failing" % (tuple(hist), lab, tup))
                if probs:
                    break
            if probs:
                r7.bad(site, fn_.loc(), "; ".join(probs[:2]), cfgname)
            else:
                r7.ok(site, fn_.loc(), "%d add/look-up histor%s over two labels: look-ups return the last site added under each label, a label never added fails" % (
                    len(hists), "y" if len(hists) == 1 else "ies"), cfgname)


def fact_str(f):
    def ks(k):
        if not isinstance(k, tuple):
            return str(k)
        t = k[0]
        if t in ("param", "var"):
            return k[2]
        if t == "lit":
            return str(k[1])
        if t == "field":
            b = ks(k[2])
            return (b + "." if b != "this" else "") + k[1].split("::")[-1]
        if t == "mcall":
            return "%s.%s(%s)" % (ks(k[2]), k[1].split("::")[-1], ", ".join(ks(x) for x in k[3:]))
        if t == "op":
            if k[1] == "[]":
                return "%s[%s]" % (ks(k[2]), ks(k[3]))
            if len(k) == 4:
                return "(%s %s %s)" % (ks(k[2]), k[1], ks(k[3]))
            return "%s%s" % (k[1], ks(k[2]))
        if t == "call":
            return "%s(%s)" % (str(k[1]).split("::")[-1], ", ".join(ks(x) for x in k[2:]))
        if t == "this":
            return "this"
        if t == "enum":
            return k[1].split("::")[-1]
        return "%s(%s)" % (t, ", ".join(ks(x) for x in k[1:]))
    if f[0] in ("true", "false"):
        return ("" if f[0] == "true" else "!") + ks(f[1])
    return "%s %s %s" % (ks(f[1]), f[0], ks(f[2]))


if __name__ == "__main__":
    run_check("C20", "lattice input validation", body)
