"""Check driver: rules, instances, verdicts, evidence, known findings, exit codes.

exit 0  every rule instance holds (KNOWN-FINDING lines allowed)
exit 1  at least one VIOLATION not listed in known_findings.txt
exit 2  analysis broken (anchor vanished, unknown idiom, instance count below the frozen minimum)
"""
import json
import os
import sys
import time
import traceback

from . import pipeline
from .facts import AnalysisBroken, load_db

VERIF = pipeline.VERIF
EVID = os.path.join(VERIF, "evidence")
KNOWN = os.path.join(VERIF, "known_findings.txt")


def load_known():
    known, fixed = [], []
    if os.path.exists(KNOWN):
        for ln in open(KNOWN):
            ln = ln.strip()
            if not ln or ln.startswith("#"):
                continue
            if ln.startswith("known:"):
                parts = ln[6:].split()
                d = {"raw": ln}
                rest = []
                for p in parts:
                    if p.startswith("property="):
                        d["property"] = p[9:]
                    elif p.startswith("site="):
                        d["site"] = p[5:]
                    else:
                        rest.append(p)
                d["what"] = " ".join(rest)
                known.append(d)
            elif ln.startswith("fixed:"):
                fixed.append(ln)
    return known, fixed


class Rule:
    def __init__(self, check, rid, title, family, expect):
        self.check = check
        self.rid = rid
        self.title = title
        self.family = family
        self.expect = expect          # frozen minimum number of instances per configuration
        self.instances = []           # dicts
        self.cfg_counts = {}

    def _add(self, status, site, loc, detail, config, path=None):
        inst = {"rule": self.rid, "site": site, "loc": loc, "status": status, "detail": detail,
                "config": config}
        if path:
            inst["path"] = path
        self.instances.append(inst)
        self.cfg_counts[config] = self.cfg_counts.get(config, 0) + 1
        return inst

    def ok(self, site, loc, detail, config):
        return self._add("ok", site, loc, detail, config)

    def bad(self, site, loc, detail, config, path=None):
        return self._add("violation", site, loc, detail, config, path)

    def unknown(self, site, loc, detail, config):
        """the rule cannot be decided for this code shape (unknown idiom): neither a pass nor a violation"""
        return self._add("unknown", site, loc, detail, config)

    def guard(self, site, loc, config):
        """context manager: an AnalysisBroken raised inside is recorded as an undecided instance of this rule,
        so that other rules still report what they can decide"""
        rule = self

        class _G:
            def __enter__(self_):
                return self_

            def __exit__(self_, et, ev, tb):
                if et is not None and issubclass(et, AnalysisBroken):
                    rule.unknown(site, loc, str(ev), config)
                    return True
                return False
        return _G()


class Check:
    def __init__(self, pid, title, tier):
        self.pid = pid
        self.title = title
        self.tier = tier
        self.rules = []
        self.t0 = time.time()
        self.notes = []
        self.undecided = []
        self.trusted = ["clang 14 parser/Sema/CFG for the repository's real compile commands",
                        "pomfacts skeleton extraction (tool/pomfacts.cc)"]
        self.extra = {}

    def rule(self, rid, title, family, expect):
        r = Rule(self, rid, title, family, expect)
        self.rules.append(r)
        return r

    def note(self, s):
        self.notes.append(s)
        print("  note: " + s)


class SubRule:
    """forwards the instances a borrowed rule produces to a rule of the borrowing property (site prefixed by the source rule id)"""
    def __init__(self, target, prefix):
        self.target, self.prefix = target, prefix
        self.rid = target.rid
        self.instances = target.instances

    def ok(self, site, loc, detail, config):
        return self.target.ok(self.prefix + site, loc, detail, config)

    def bad(self, site, loc, detail, config, path=None):
        return self.target.bad(self.prefix + site, loc, detail, config, path)

    def unknown(self, site, loc, detail, config):
        return self.target.unknown(self.prefix + site, loc, detail, config)

    def guard(self, site, loc, config):
        return self.target.guard(self.prefix + site, loc, config)


class FilteredRule:
    """forwards to `rule` only the instances whose site satisfies `pred` (used with ViewCheck to borrow a part of a rule)"""
    def __init__(self, rule, pred):
        self.rule, self.pred = rule, pred
        self.rid = rule.rid
        self.instances = rule.instances

    def ok(self, site, *a):
        if self.pred(site):
            return self.rule.ok(site, *a)

    def bad(self, site, *a):
        if self.pred(site):
            return self.rule.bad(site, *a)

    def unknown(self, site, *a):
        if self.pred(site):
            return self.rule.unknown(site, *a)

    def guard(self, site, loc, config):
        return self.rule.guard(site, loc, config)


class ViewCheck:
    """Runs the body of another property's check and keeps only selected rules, re-registered under rules of `chk`.
    mapping: source rule id -> Rule of chk.  Everything else the body produces is discarded."""
    def __init__(self, chk, mapping):
        self.chk, self.mapping = chk, mapping
        self.tier = chk.tier
        self.undecided, self.trusted, self.notes, self.extra = [], chk.trusted, [], {}
        self.pid, self.title = chk.pid, chk.title

    def rule(self, rid, title, family, expect):
        if rid in self.mapping:
            return SubRule(self.mapping[rid], rid + ":")
        return Rule(self, rid, title, family, expect)      # not registered anywhere: discarded

    def note(self, s):
        pass


def run_check(pid, title, body, argv=None, configs=("real", "complex")):
    """body(check, db, config) registers rules/instances; called once per configuration."""
    argv = sys.argv[1:] if argv is None else argv
    tier = os.environ.get("VERIF_TIER", "quick")
    if "--tier" in argv:
        tier = argv[argv.index("--tier") + 1]
    seed = int(os.environ.get("VERIF_SEED", "0") or 0)
    t0 = time.time()
    chk = Check(pid, title, tier)
    print("== %s %s [tier=%s] repo=%s" % (pid, title, tier, pipeline.REPO))
    try:
        fdir, info = pipeline.facts_dir(tier)
        print("facts: %s (cached=%s, %d library TUs + %d test TUs x %s, extraction %.1fs)" % (
            fdir, info.get("cached"), info["lib_tus"], info.get("test_tus", 0), "/".join(info["configs"]), info["extract_s"]))
        rules_by_id = {}
        nfun = {}
        if "complex" in configs and "complex" not in info["configs"]:
            configs = tuple(c for c in configs if c != "complex")
            msg = "the complex-matrix-element configuration does not compile (%s): only the pinned real configuration was analysed" % ", ".join(os.path.basename(x) for x in info.get("complex_failed", []))
            chk.notes.append(msg)
            print("  note: " + msg)
        for cfgname in configs:
            db = load_db(fdir, cfgname)
            nfun[cfgname] = len(db.fns)
            sub = Check(pid, title, tier)
            sub.extra = chk.extra
            body(sub, db, cfgname)
            for r in sub.rules:
                if r.rid not in rules_by_id:
                    rules_by_id[r.rid] = r
                    chk.rules.append(r)
                else:
                    tgt = rules_by_id[r.rid]
                    tgt.instances.extend(r.instances)
                    for k, v in r.cfg_counts.items():
                        tgt.cfg_counts[k] = tgt.cfg_counts.get(k, 0) + v
            for n in sub.notes:
                if n not in chk.notes:
                    chk.notes.append(n)
            for u in sub.undecided:
                if u not in chk.undecided:
                    chk.undecided.append(u)
            for t in sub.trusted:
                if t not in chk.trusted:
                    chk.trusted.append(t)
        # ---- vacuity: frozen instance counts.  A shortfall alone is "analysis broken" (exit 2); when some rule
        # reports a definite violation at the same time (e.g. a deleted broadcast both lowers a count and breaks the
        # sync-set rule) the violation is the verdict and the shortfall is printed as a note.
        shortfalls = []
        for r in chk.rules:
            for cfgname in configs:
                n = r.cfg_counts.get(cfgname, 0)
                if n < r.expect:
                    shortfalls.append("rule %s (%s): %d instances in configuration %s, frozen minimum is %d" % (
                        r.rid, r.title, n, cfgname, r.expect))
        anyviol = any(i["status"] == "violation" for r in chk.rules for i in r.instances)
        anyunknown = any(i["status"] == "unknown" for r in chk.rules for i in r.instances)
        if shortfalls and not anyviol and not anyunknown:
            raise AnalysisBroken(shortfalls[0])
        for sfl in shortfalls:
            print("  note: instance count below frozen minimum: " + sfl)
    except AnalysisBroken as e:
        print("ANALYSIS-BROKEN property=%s: %s" % (pid, e))
        sys.exit(2)
    except Exception:
        traceback.print_exc()
        print("ANALYSIS-BROKEN property=%s: internal error" % pid)
        sys.exit(2)

    known, fixed = load_known()
    known = [k for k in known if k.get("property") == pid]
    noev = "--no-evidence" in argv
    rdir = os.path.join(EVID, "replay") if not noev else os.path.join(os.environ.get("POMVERIF_CACHE", "/var/tmp"), "replay")
    os.makedirs(rdir, exist_ok=True)
    if os.environ.get("POMVERIF_EXPLAIN"):
        rdir = os.path.join(rdir, "explain")
        os.makedirs(rdir, exist_ok=True)
    for old in os.listdir(rdir):
        if old.startswith(pid + "-"):
            os.unlink(os.path.join(rdir, old))
    # ---- report
    viol = {}
    total = 0
    okc = 0
    unknowns = []
    for r in chk.rules:
        n_ok = sum(1 for i in r.instances if i["status"] == "ok")
        n_bad = sum(1 for i in r.instances if i["status"] == "violation")
        for i in r.instances:
            if i["status"] == "unknown":
                unknowns.append(i)
        total += len(r.instances)
        okc += n_ok
        print("rule %-8s [%s] %-70s instances=%d ok=%d violations=%d (min/config %d)" % (
            r.rid, r.family, r.title[:70], len(r.instances), n_ok, n_bad, r.expect))
        for i in r.instances:
            if i["status"] == "violation":
                key = (i["rule"], i["site"])
                viol.setdefault(key, []).append(i)
    nviol = 0
    nknown = 0
    k = 0
    used_known = set()
    for (rid, site), insts in sorted(viol.items()):
        i0 = insts[0]
        kf = None
        for kn in known:
            if kn.get("site") == "%s:%s" % (rid, site):
                kf = kn
        if kf is not None:
            used_known.add(kf["raw"])
            nknown += 1
            print("KNOWN-FINDING: property=%s %s at %s — %s" % (pid, kf["site"], i0["loc"], kf["what"] or i0["detail"]))
            continue
        k += 1
        nviol += 1
        rp = os.path.join(rdir, "%s-%d.json" % (pid, k))
        json.dump({"property": pid, "rule": rid, "site": site, "instances": insts,
                   "configs": sorted(set(i["config"] for i in insts)),
                   "how_to_replay": "cd /verif && ./verify %s --tier %s   (the rule re-analyses the named function on the current tree)" % (pid, tier)},
                  open(rp, "w"), indent=1)
        print("  violation %s at %s [%s]" % (rid, i0["loc"], ",".join(sorted(set(i["config"] for i in insts)))))
        print("    site:   %s" % site)
        print("    detail: %s" % i0["detail"])
        if i0.get("path"):
            print("    path:   %s" % " -> ".join(str(p) for p in i0["path"]))
        print("VIOLATION property=%s replay=%s" % (pid, rp))
    for kn in known:
        if kn["raw"] not in used_known:
            print("  note: known finding no longer reported (repaired?): %s" % kn["raw"])

    # ---- evidence
    distinct = set()
    for r in chk.rules:
        for i in r.instances:
            distinct.add((i["rule"], i["site"]))
    samples = []
    for r in chk.rules:
        for i in r.instances[:2]:
            samples.append({k2: i[k2] for k2 in ("rule", "site", "loc", "status", "detail", "config")})
    ev = {
        "property_id": pid,
        "tier": tier,
        "seed": seed,
        "level": "other",
        "coverage": {
            "explanation": ("Static analysis of the clang-14 AST/CFG of /repo's current working tree (no pomerol code is executed). "
                            "%d rule instances over configurations %s were decided by %d repository-specific rules; each rule is a "
                            "necessary structural condition of the property (see DESIGN.md section for %s). Undecided parts: %s") % (
                                total, "/".join(configs), len(chk.rules), pid, "; ".join(chk.undecided) or "see level_note"),
            "obligations": total,
            "discharged": okc,
            "evaluations": total,
            "distinct_nontrivial": len(distinct),
            "rule": "one evaluation = one (rule, site, configuration) instance; distinct = distinct (rule, site); every instance is a resolved construct of the current tree, none is trivial",
            "samples": samples,
            "rules": [{"id": r.rid, "family": r.family, "title": r.title, "instances": len(r.instances),
                       "violations": sum(1 for i in r.instances if i["status"] == "violation"), "frozen_min_per_config": r.expect} for r in chk.rules],
            "functions_in_db": nfun,
            "translation_units": {"library": info["lib_tus"], "tests": info.get("test_tus", 0)},
            "configurations": list(configs),
            "trusted_base": chk.trusted,
            "checker_cmd": "./verify %s --tier %s" % (pid, tier),
            "known_findings_reported": nknown,
            "notes": chk.notes,
            "exhaustive": True,
        },
        "assumptions": chk.trusted + ["every rule is a necessary condition, none is claimed sufficient"] + chk.undecided,
        "wall_s": round(time.time() - t0, 2),
        "violations": nviol,
    }
    ev["coverage"].update(chk.extra)
    os.makedirs(EVID, exist_ok=True)
    if "--no-evidence" not in argv:
        json.dump(ev, open(os.path.join(EVID, pid + ".json"), "w"), indent=1)
    seenu = set()
    for i in unknowns:
        if (i["rule"], i["site"]) in seenu:
            continue
        seenu.add((i["rule"], i["site"]))
        print("UNDECIDED property=%s rule=%s site=%s at %s: %s" % (pid, i["rule"], i["site"], i["loc"], i["detail"]))
    print("%s: %d instances, %d ok, %d violation sites, %d known findings, %d undecided, %.1fs" % (pid, total, okc, nviol, nknown, len(seenu), time.time() - t0))
    if nviol:
        sys.exit(1)
    if seenu:
        print("ANALYSIS-BROKEN property=%s: %d rule instance(s) could not be decided (unknown idiom); no verdict" % (pid, len(seenu)))
        sys.exit(2)
    sys.exit(0)
