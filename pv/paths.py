"""Path-sensitive helpers: facts that hold along one acyclic CFG path (conditions of the edges taken), feasibility."""
from .cfg import acyclic_paths
from .entail import contradicts, derived_equalities, strip_value_conv
from .expr import key_subst


def path_facts(fn, ctx, path):
    """facts established by the branch edges taken along `path` (list of block ids)"""
    facts = set()
    cfg = fn.cfg
    for b, nxt in zip(path, path[1:]):
        blk = cfg.blocks[b]
        for k, s in enumerate(blk.succs):
            if s == nxt:
                lbl = cfg.edge_label(b, k)
                if lbl is not None:
                    for f in ctx.cmp_fact(lbl[0], lbl[1]) or []:
                        facts.add(f)
                break
    return facts


def key_facts(k, truth):
    """facts that follow from boolean key k having value `truth` (key-level counterpart of Ctx.cmp_fact); [] if none can be named"""
    from .expr import NEG, SWAP
    if not isinstance(k, tuple):
        return []
    if k[0] == "cast" and len(k) == 3:
        return key_facts(k[2], truth)
    if k[0] == "un" and k[1] == "!":
        return key_facts(k[2], not truth)
    if k[0] == "op" and len(k) == 4 and ((k[1] == "&&" and truth) or (k[1] == "||" and not truth)):
        return key_facts(k[2], truth) + key_facts(k[3], truth)
    if k[0] == "op" and len(k) == 4 and k[1] in NEG:
        op, L, R = k[1], k[2], k[3]
        if not truth:
            op = NEG[op]
        if op in (">", ">="):
            op, L, R = SWAP[op], R, L
        if op in ("==", "!=") and repr(L) > repr(R):
            L, R = R, L
        return [(op, L, R)]
    return [("true" if truth else "false", k)]


def _holds(facts, g):
    """is fact g a consequence of `facts` (syntactically present, or entailed for relational facts)?"""
    from .entail import entails
    if g in facts:
        return True
    if g[0] in ("<", "<=", "==", "!="):
        try:
            return entails(facts, g)
        except Exception:
            return False
    return False


def feasible(facts):
    facts = list(derived_equalities(facts))
    for i, f in enumerate(facts):
        rest = facts[:i] + facts[i + 1:]
        if f[0] in ("<", "<=", "==", "!=") and contradicts(rest, f):
            return False
        # not(A && B) is impossible when A and B both hold;  (A || B) is impossible when both are refuted
        if f[0] == "false" and isinstance(f[1], tuple) and f[1][0] == "op" and f[1][1] == "&&":
            conj = key_facts(f[1], True)
            if conj and all(_holds(rest, g) for g in conj):
                return False
        if f[0] == "true" and isinstance(f[1], tuple) and f[1][0] == "op" and f[1][1] == "||":
            disj = key_facts(f[1], False)
            if disj and all(_holds(rest, g) for g in disj):
                return False
        if f[0] in ("true", "false") and (("false" if f[0] == "true" else "true"), f[1]) in rest:
            return False
    return True


def loop_body_paths(fn, L):
    """acyclic block paths through one iteration of loop L: from the first block of the body to the block that
    re-evaluates the loop condition (back edge), including paths taken by `continue`"""
    cfg = fn.cfg
    hdr, blocks = cfg.loop_blocks(L)
    if hdr is None:
        return None, []
    n = fn.nodes[L]
    # successors of the header inside the loop = body entry
    starts = [s for s in cfg.blocks[hdr].succs if s is not None and s in blocks and s != hdr]
    out = []
    for st in starts:
        for p in acyclic_paths(cfg, st, {hdr}, within=blocks):
            out.append([hdr] + p)
    return hdr, out


def nodes_on_path(fn, path):
    ids = []
    for b in path:
        for e in fn.cfg.blocks[b].elems:
            ids.append(e[2] if isinstance(e, tuple) else e)
    return ids


def relation(facts, a, b):
    """'<', '>', '==' or None: the order of keys a, b implied by facts (conversions stripped)"""
    fs = derived_equalities({(f[0], strip_value_conv(f[1]), strip_value_conv(f[2])) if f[0] in ("<", "<=", "==", "!=") else f for f in facts})
    a, b = strip_value_conv(a), strip_value_conv(b)
    eq = tuple(sorted([a, b], key=repr))
    if ("==",) + eq in fs:
        return "=="
    if ("<", a, b) in fs or (("<=", a, b) in fs and ("!=",) + eq in fs):
        return "<"
    if ("<", b, a) in fs or (("<=", b, a) in fs and ("!=",) + eq in fs):
        return ">"
    if ("<=", a, b) in fs:
        return "<="
    if ("<=", b, a) in fs:
        return ">="
    return None


def every_iteration(fn, L, node):
    """does `node` execute on every path through one iteration of loop L (no `if`, `continue`, `break` can bypass it)?
    Returns True / False, or None when the loop's paths cannot be enumerated."""
    hdr, plist = loop_body_paths(fn, L)
    pos = fn.cfg.pos1(node)
    if pos is None and fn.nodes[node]["k"] in ("for", "while", "do", "forrange"):
        # a nested loop statement: it is executed when its header (condition) block is reached
        ih, _ = fn.cfg.loop_blocks(node)
        pos = (ih, 0) if ih is not None else None
    if not plist or pos is None:
        return None
    return all(pos[0] in p[1:] for p in plist)


def _first_cond(k):
    if isinstance(k, tuple):
        if k[0] == "cond" and len(k) == 4:
            return k
        for x in k:
            if isinstance(x, tuple):
                r = _first_cond(x)
                if r is not None:
                    return r
    return None


def return_cases(fn, ctx, limit=512):
    """The function as a case table: one entry per (acyclic entry->exit path, alternative of a conditional expression
    in the returned value), each {facts, key, ret, path}: `facts` the branch facts of the path (plus the condition of the
    chosen ?: alternative), `key` the returned expression with re-assigned locals replaced by their value along THAT
    path.  Infeasible entries are dropped.  Returns None when the function has a loop or too many paths (the caller
    answers 'undecided'); void paths are skipped.
    This is what lets a rule be indifferent to `cond ? a : b` vs `if (cond) return a; return b;` vs an accumulator that is
    conditionally updated before one final return."""
    from .symenv import env_along, value_key
    if any(n["k"] in ("for", "while", "do", "forrange") for _, n in fn.walk(fn.body)):
        return None
    plist = acyclic_paths(fn.cfg, fn.cfg.entry, {fn.cfg.exit}, limit=limit)
    if not plist or len(plist) > limit:
        return None
    out = []
    for pth in plist:
        rets = [j for j in nodes_on_path(fn, pth) if fn.nodes[j]["k"] == "return"]
        if len(rets) != 1 or fn.nodes[rets[0]].get("sub") is None:
            continue
        facts = path_facts(fn, ctx, pth)
        if not feasible(facts):
            continue
        envs = env_along(fn, ctx, pth)
        rk = value_key(fn, ctx, envs, fn.nodes[rets[0]]["sub"], at_node=rets[0])
        stack = [(set(facts), rk)]
        while stack:
            fs, k = stack.pop()
            kk = k
            while isinstance(kk, tuple) and ((kk[0] == "cast" and len(kk) == 3) or (kk[0] == "ctor" and len(kk) == 3)):
                kk = kk[2]
            if isinstance(kk, tuple) and kk[0] == "cond" and len(kk) == 4:
                for truth, alt in ((True, kk[2]), (False, kk[3])):
                    add = key_facts(kk[1], truth)
                    f2 = set(fs) | set(add)
                    if feasible(f2):
                        stack.append((f2, alt))
                continue
            # a conditional buried in the expression (x + (c ? a : b)): split on the first one found
            inner = _first_cond(k)
            if inner is not None and len(out) + len(stack) < 64:
                for truth, alt in ((True, inner[2]), (False, inner[3])):
                    f2 = set(fs) | set(key_facts(inner[1], truth))
                    if feasible(f2):
                        stack.append((f2, key_subst(k, lambda y, inner=inner, alt=alt: alt if y == inner else None)))
                continue
            out.append({"facts": fs, "key": k, "ret": rets[0], "path": pth})
    return out
