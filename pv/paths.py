"""Path-sensitive helpers: facts that hold along one acyclic CFG path (conditions of the edges taken), feasibility."""
from .cfg import acyclic_paths
from .entail import contradicts, derived_equalities, strip_value_conv
from .expr import key_subst


def path_facts(fn, ctx, path):
    """facts established by the branch edges taken along `path` (list of block ids)"""
    facts = set()
    cfg = fn.cfg
    for b, nxt in zip(path, path[1:]):
        blk = cfg.blocks[b]
        for k, s in enumerate(blk.succs):
            if s == nxt:
                lbl = cfg.edge_label(b, k)
                if lbl is not None:
                    for f in ctx.cmp_fact(lbl[0], lbl[1]) or []:
                        facts.add(f)
                break
    return facts


def feasible(facts):
    facts = list(facts)
    for i, f in enumerate(facts):
        if f[0] in ("<", "<=", "==", "!=") and contradicts(facts[:i] + facts[i + 1:], f):
            return False
    return True


def loop_body_paths(fn, L):
    """acyclic block paths through one iteration of loop L: from the first block of the body to the block that
    re-evaluates the loop condition (back edge), including paths taken by `continue`"""
    cfg = fn.cfg
    hdr, blocks = cfg.loop_blocks(L)
    if hdr is None:
        return None, []
    n = fn.nodes[L]
    # successors of the header inside the loop = body entry
    starts = [s for s in cfg.blocks[hdr].succs if s is not None and s in blocks and s != hdr]
    out = []
    for st in starts:
        for p in acyclic_paths(cfg, st, {hdr}, within=blocks):
            out.append([hdr] + p)
    return hdr, out


def nodes_on_path(fn, path):
    ids = []
    for b in path:
        for e in fn.cfg.blocks[b].elems:
            ids.append(e[2] if isinstance(e, tuple) else e)
    return ids


def relation(facts, a, b):
    """'<', '>', '==' or None: the order of keys a, b implied by facts (conversions stripped)"""
    fs = derived_equalities({(f[0], strip_value_conv(f[1]), strip_value_conv(f[2])) if f[0] in ("<", "<=", "==", "!=") else f for f in facts})
    a, b = strip_value_conv(a), strip_value_conv(b)
    eq = tuple(sorted([a, b], key=repr))
    if ("==",) + eq in fs:
        return "=="
    if ("<", a, b) in fs or (("<=", a, b) in fs and ("!=",) + eq in fs):
        return "<"
    if ("<", b, a) in fs or (("<=", b, a) in fs and ("!=",) + eq in fs):
        return ">"
    if ("<=", a, b) in fs:
        return "<="
    if ("<=", b, a) in fs:
        return ">="
    return None


def every_iteration(fn, L, node):
    """does `node` execute on every path through one iteration of loop L (no `if`, `continue`, `break` can bypass it)?
    Returns True / False, or None when the loop's paths cannot be enumerated."""
    hdr, plist = loop_body_paths(fn, L)
    pos = fn.cfg.pos1(node)
    if not plist or pos is None:
        return None
    return all(pos[0] in p[1:] for p in plist)
