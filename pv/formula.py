"""Formula conformance (F6): expression keys -> sympy, exact comparison of normal forms.

Atoms (anything that is not arithmetic) become opaque symbols named by their canonical key, so two
expressions are equal only if they combine *the same resolved program entities* in an algebraically
equal way.  Index-space typing (F5) is expressed by how a check builds the expected atoms."""
import itertools

import sympy as sp

from .facts import AnalysisBroken

UNARY = {"std::exp": sp.exp, "exp": sp.exp, "std::abs": sp.Abs, "abs": sp.Abs, "std::fabs": sp.Abs, "fabs": sp.Abs,
         "std::conj": sp.conjugate, "conj": sp.conjugate, "std::real": sp.re, "real": sp.re, "std::imag": sp.im, "imag": sp.im,
         "std::sqrt": sp.sqrt, "sqrt": sp.sqrt, "std::floor": sp.floor, "floor": sp.floor, "std::ceil": sp.ceiling, "ceil": sp.ceiling,
         "expm1": lambda x: sp.exp(x) - 1, "std::expm1": lambda x: sp.exp(x) - 1, "log1p": lambda x: sp.log(1 + x), "std::log1p": lambda x: sp.log(1 + x)}
ARITH_CTORS = ("std::complex",)
TRANSPARENT_CALLS = ("std::complex::operator=",)


class Formula:
    def __init__(self, real_atoms=False):
        self.syms = {}
        self.names = {}
        self.alias = {}       # key -> key (role renaming supplied by the check)
        self.real_atoms = real_atoms

    def atom(self, key, name=None):
        key = self.alias.get(key, key)
        s = self.syms.get(key)
        if s is None:
            nm = name or ("a%d" % len(self.syms))
            s = sp.Symbol(nm, real=True) if self.real_atoms else sp.Symbol(nm)
            self.syms[key] = s
            self.names[s] = key
        return s

    def name_atom(self, key, name):
        """give an atom a readable name (before any conversion mentions it)"""
        if key in self.syms:
            return self.syms[key]
        return self.atom(key, name)

    def conv(self, k):
        if not isinstance(k, tuple):
            raise AnalysisBroken("formula: not a key: %r" % (k,))
        k = self.alias.get(k, k)
        if k in self.syms:
            return self.syms[k]
        t = k[0]
        if t == "lit":
            v = k[1]
            if isinstance(v, bool):
                return sp.Integer(1 if v else 0)
            if isinstance(v, int):
                return sp.Integer(v)
            if isinstance(v, float):
                return sp.Rational(repr(v))
            raise AnalysisBroken("formula: literal %r" % (v,))
        if t == "op" and len(k) == 4 and k[1] in ("+", "-", "*", "/"):
            a, b = self.conv(k[2]), self.conv(k[3])
            return {"+": a + b, "-": a - b, "*": a * b, "/": a / b}[k[1]]
        if t == "op" and len(k) == 3 and k[1] in ("-", "+"):
            a = self.conv(k[2])
            return -a if k[1] == "-" else a
        if t == "un" and k[1] in ("-", "+"):
            a = self.conv(k[2])
            return -a if k[1] == "-" else a
        if t == "cast":
            return self.conv(k[2])
        if t == "ctor" and k[1] in ARITH_CTORS:
            if len(k) == 3:
                return self.conv(k[2])
            if len(k) == 4:
                re_, im_ = self.conv(k[2]), self.conv(k[3])
                return re_ if im_ == 0 else re_ + sp.I * im_
            if len(k) == 2:
                return sp.Integer(0)
        if t == "call" and k[1] in UNARY and len(k) == 3:
            return UNARY[k[1]](self.conv(k[2]))
        # Eigen element-wise views and functions (coefficient-wise semantics: each element obeys the scalar formula)
        if t == "mcall" and len(k) == 3 and k[1].startswith("Eigen::"):
            short = k[1].split("::")[-1]
            if short in ("array", "matrix", "eval", "derived"):
                return self.conv(k[2])
            if short == "exp":
                return sp.exp(self.conv(k[2]))
            if short in ("abs", "cwiseAbs"):
                return sp.Abs(self.conv(k[2]))
            if short in ("abs2", "cwiseAbs2"):
                return sp.Abs(self.conv(k[2])) ** 2
        if t == "global" and k[1] == "Pomerol::I":
            return sp.I
        if t == "cond":
            # value-level conditional: keep as an opaque application so that both branches are compared by the caller
            return self.atom(k)
        return self.atom(k)

    # ------------------------------------------------------------------
    @staticmethod
    def is_zero(e):
        e = sp.sympify(e)
        if e == 0:
            return True
        try:
            d = sp.cancel(sp.together(sp.expand(e)))
            if d == 0:
                return True
            d = sp.simplify(d)
            if d == 0:
                return True
        except Exception:
            pass
        return False

    def equal(self, a, b):
        return self.is_zero(sp.sympify(a) - sp.sympify(b))

    def witness(self, a, b):
        """small rational assignment at which a and b differ (for the report)"""
        d = sp.sympify(a) - sp.sympify(b)
        fs = sorted(d.free_symbols, key=lambda s: s.name)
        primes = [2, 3, 5, 7, 11, 13, 17, 19, 23, 29, 31, 37]
        for shift in range(3):
            sub = {s: sp.Rational(primes[(i + shift) % len(primes)], primes[(i + 5 + shift) % len(primes)]) for i, s in enumerate(fs)}
            try:
                va, vb = sp.nsimplify(sp.sympify(a).subs(sub)), sp.nsimplify(sp.sympify(b).subs(sub))
                if sp.simplify(va - vb) != 0:
                    return {str(s): str(v) for s, v in sub.items()}, str(sp.N(va, 8)), str(sp.N(vb, 8))
            except Exception:
                continue
        return None

    def show(self, e):
        return str(e)


def exp_args(e):
    """arguments of every exp() in expression e"""
    return [x.args[0] for x in sp.preorder_traversal(sp.sympify(e)) if isinstance(x, sp.exp)]


def nonpositive(arg, assumptions):
    """decide arg <= 0 given sign assumptions {symbol: '+'|'-'|'0+'|'0-'} by sign-domain evaluation
    of a product/sum of symbols (sufficient for -tau*P, (beta-tau)*P ...)."""
    arg = sp.expand(arg)

    def sign(e):
        e = sp.sympify(e)
        if e.is_Number:
            return "+" if e > 0 else ("-" if e < 0 else "0")
        if e.is_Symbol:
            return assumptions.get(e)
        if e.is_Mul:
            s = "+"
            for f in e.args:
                sf = sign(f)
                if sf is None:
                    return None
                if sf == "0":
                    return "0"
                neg = sf in ("-", "0-")
                weak = sf in ("0+", "0-") or s in ("0+", "0-")
                base_neg = (s in ("-", "0-")) != neg
                s = ("0-" if base_neg else "0+") if weak else ("-" if base_neg else "+")
            return s
        if e.is_Add:
            ss = [sign(t) for t in e.args]
            if any(x is None for x in ss):
                return None
            if all(x in ("+", "0+", "0") for x in ss):
                return "0+" if any(x in ("0+", "0") for x in ss) and not any(x == "+" for x in ss) else ("+" if any(x == "+" for x in ss) else "0+")
            if all(x in ("-", "0-", "0") for x in ss):
                return "-" if any(x == "-" for x in ss) else "0-"
            return None
        return None
    # factor to expose products like P*(beta - tau)
    for cand in (sp.factor(arg), arg):
        s = sign(cand)
        if s is not None:
            return s in ("-", "0-", "0")
    return None
