"""CFG helper over the clang::CFG emitted by pomfacts (engine `dom` + dataflow driver)."""
from collections import defaultdict, deque


class Block:
    __slots__ = ("id", "elems", "tk", "ts", "tc", "succs", "preds", "noreturn", "raw")

    def __init__(self, raw):
        self.raw = raw
        self.id = raw["id"]
        # elems: node ids; ctor initialisers are {"initof":..,"e":id} -> keep as ("init", name, id)
        self.elems = []
        for e in raw["elems"]:
            if isinstance(e, dict):
                self.elems.append(("init", e["initof"], e["e"]))
            else:
                self.elems.append(e)
        self.tk = raw.get("tk")
        self.ts = raw.get("ts")
        self.tc = raw.get("tc")
        self.succs = []
        for s in raw["succs"]:
            if isinstance(s, dict):
                self.succs.append(None)     # statically unreachable edge
            else:
                self.succs.append(s)
        self.preds = []
        self.noreturn = raw.get("noreturn", False)


class CFG:
    def __init__(self, fn):
        self.fn = fn
        raw = fn.d["cfg"]
        self.entry = raw["entry"]
        self.exit = raw["exit"]
        self.blocks = {b["id"]: Block(b) for b in raw["blocks"]}
        for b in self.blocks.values():
            for s in b.succs:
                if s is not None:
                    self.blocks[s].preds.append(b.id)
        self._dom = None
        self._pdom = None
        self._pos = None
        self._reach = None

    # ------------------------------------------------------------------
    def reachable(self):
        if self._reach is None:
            seen = {self.entry}
            dq = deque([self.entry])
            while dq:
                b = dq.popleft()
                for s in self.blocks[b].succs:
                    if s is not None and s not in seen:
                        seen.add(s)
                        dq.append(s)
            self._reach = seen
        return self._reach

    def positions(self):
        """node id -> list of (block, index) where it occurs as a CFG element."""
        if self._pos is None:
            p = defaultdict(list)
            for b in self.blocks.values():
                for i, e in enumerate(b.elems):
                    if isinstance(e, tuple):
                        p[e[2]].append((b.id, i))
                    else:
                        p[e].append((b.id, i))
            # statements that are pure terminators (break/continue/goto): position = end of their block
            for b in self.blocks.values():
                if b.ts is not None and b.ts not in p and b.tk in ("BreakStmt", "ContinueStmt", "GotoStmt"):
                    p[b.ts].append((b.id, len(b.elems)))
            self._pos = p
        return self._pos

    def pos(self, node_id):
        ps = self.positions().get(node_id, [])
        ps = [p for p in ps if p[0] in self.reachable()]
        return ps

    def pos1(self, node_id):
        """Position of node (or of the nearest ancestor that is a CFG element)."""
        ps = self.pos(node_id)
        if ps:
            return ps[0]
        for a in self.fn.ancestors(node_id):
            ps = self.pos(a)
            if ps:
                return ps[0]
        return None

    def pos_cond(self, node_id):
        """Position of a condition: the node itself, or (for `a && b`, `a || b`, which clang's CFG splits into one block
        per operand and never lists as a whole) the position of its first evaluated operand."""
        ps = self.pos(node_id)
        if ps:
            return ps[0]
        for j, _ in self.fn.walk(node_id):
            ps = self.pos(j)
            if ps:
                return ps[0]
        return self.pos1(node_id)

    # ------------------------------------------------------------------
    def _dominators(self, entry, succ_of, pred_of, nodes):
        dom = {n: None for n in nodes}
        dom[entry] = {entry}
        allset = set(nodes)
        changed = True
        order = list(nodes)
        while changed:
            changed = False
            for n in order:
                if n == entry:
                    continue
                ps = [p for p in pred_of(n) if dom[p] is not None]
                if not ps:
                    continue
                new = set.intersection(*[dom[p] for p in ps]) | {n}
                if new != dom[n]:
                    dom[n] = new
                    changed = True
        return dom

    def dom(self):
        if self._dom is None:
            nodes = sorted(self.reachable(), reverse=True)
            self._dom = self._dominators(self.entry, lambda n: [s for s in self.blocks[n].succs if s is not None],
                                         lambda n: [p for p in self.blocks[n].preds if p in self.reachable()], nodes)
        return self._dom

    def dominates_block(self, a, b):
        d = self.dom().get(b)
        return d is not None and a in d

    def dominates(self, p, q):
        """position p=(block,idx) dominates q."""
        if p[0] == q[0]:
            return p[1] <= q[1]
        return self.dominates_block(p[0], q[0])

    # ------------------------------------------------------------------
    def edge_label(self, b, k):
        """Label of the k-th successor edge of block b: (cond node id, truth) or None."""
        blk = self.blocks[b]
        if blk.tc is None or len(blk.succs) != 2:
            return None
        if blk.tk in ("IfStmt", "ForStmt", "WhileStmt", "DoStmt", "ConditionalOperator", "BinaryOperator"):
            if blk.tk == "BinaryOperator":
                op = self.fn.nodes[blk.ts]["op"]
                if op not in ("&&", "||"):
                    return None
            tc = blk.tc
            # Direct shape: the block evaluates only the right-most operand of a short-circuit chain (the operands to
            # its left were decided on earlier edges) -> the edge tells the truth of that operand.
            # Joined shape (clang merges the value of a nested && / || in a join block and branches on it there): the
            # edge tells the truth of the WHOLE condition; cmp_fact decomposes it where that is decisive.
            last = None
            for e in reversed(blk.elems):
                last = e[2] if isinstance(e, tuple) else e
                break
            t2 = tc
            while self.fn.nodes[t2]["k"] == "bin" and self.fn.nodes[t2]["op"] in ("&&", "||"):
                t2 = self.fn.nodes[t2]["r"]
            if t2 != tc and last == tc:
                return (tc, k == 0)          # joined: whole condition
            return (t2, k == 0)
        return None

    def edges(self):
        for b in self.blocks.values():
            if b.id not in self.reachable():
                continue
            for k, s in enumerate(b.succs):
                if s is not None:
                    yield b.id, k, s

    # ------------------------------------------------------------------
    def forward(self, init, transfer, edge_transfer=None, meet=None, top=None):
        """Generic forward dataflow.
        transfer(state, block_id, idx, elem) -> state       (elem is node id or ("init",name,id))
        edge_transfer(state, block_id, k, label) -> state    (label from edge_label)
        meet(a, b) -> state.   States must be hashable / comparable with ==.
        Returns (IN, OUT_edges, at) where at[(block, idx)] is the state *before* the element.
        """
        IN = {}
        IN[self.entry] = init
        work = deque([self.entry])
        at = {}
        inq = {self.entry}
        iters = 0
        while work:
            b = work.popleft()
            inq.discard(b)
            iters += 1
            if iters > 20000:
                raise RuntimeError("dataflow does not converge in %s" % self.fn.qn)
            st = IN[b]
            blk = self.blocks[b]
            for i, e in enumerate(blk.elems):
                at[(b, i)] = st
                st = transfer(st, b, i, e)
            at[(b, len(blk.elems))] = st
            for k, s in enumerate(blk.succs):
                if s is None:
                    continue
                es = st
                if edge_transfer is not None:
                    es = edge_transfer(st, b, k, self.edge_label(b, k))
                if es is None:      # infeasible edge
                    continue
                if s not in IN:
                    IN[s] = es
                    new = True
                else:
                    m = meet(IN[s], es)
                    new = m != IN[s]
                    IN[s] = m
                if new and s not in inq:
                    work.append(s)
                    inq.add(s)
        return IN, at

    # ------------------------------------------------------------------
    def paths_avoiding(self, src_pos, dst_pred, avoid_pred):
        """Is there a CFG path from just after src_pos to an element satisfying dst_pred
        that passes no element satisfying avoid_pred?  Returns a witness path (list of
        (block, idx)) or None.  dst_pred / avoid_pred take (block, idx, elem)."""
        b0, i0 = src_pos
        start = (b0, i0 + 1)
        seen = set()
        dq = deque([(start, [src_pos])])
        while dq:
            (b, i), path = dq.popleft()
            if (b, i) in seen:
                continue
            seen.add((b, i))
            blk = self.blocks[b]
            stopped = False
            j = i
            while j < len(blk.elems):
                e = blk.elems[j]
                if dst_pred(b, j, e):
                    return path + [(b, j)]
                if avoid_pred(b, j, e):
                    stopped = True
                    break
                j += 1
            if stopped:
                continue
            for s in blk.succs:
                if s is not None:
                    dq.append(((s, 0), path + [(s, 0)]))
        return None

    def loop_blocks(self, loop_stmt_id):
        """Blocks belonging to the natural loop of the given for/while/do statement:
        all blocks from which the loop's condition block is reachable without leaving
        through the loop exit, i.e. blocks b with header dom b and a path b ->* header."""
        header = None
        for b in self.blocks.values():
            if b.ts == loop_stmt_id and b.tk in ("ForStmt", "WhileStmt", "DoStmt"):
                header = b.id
        if header is None:
            return None, set()
        # a short-circuit loop condition (a && b) is evaluated in several blocks; the block carrying the loop's terminator
        # is the LAST of them.  The real header is the first: walk up through predecessors that branch on a sub-expression
        # of the loop condition.
        cond = self.fn.nodes[loop_stmt_id].get("c")
        if cond is not None:
            inside = {j for j, _ in self.fn.walk(cond)} | {cond}
            changed = True
            while changed:
                changed = False
                for p in self.blocks[header].preds:
                    pb = self.blocks[p]
                    if pb.tk == "BinaryOperator" and pb.ts in inside and self.dominates_block(p, header) and p != header:
                        header = p
                        changed = True
                        break
        # natural loop: nodes that can reach header via back edges and are dominated by header
        body = {header}
        stack = [p for p in self.blocks[header].preds if self.dominates_block(header, p)]
        while stack:
            n = stack.pop()
            if n in body:
                continue
            body.add(n)
            stack.extend(self.blocks[n].preds)
        return header, body


def acyclic_paths(cfg, start, stops, within=None, limit=2000):
    """All simple block paths from block `start` to any block in `stops` (not passing through a stop earlier),
    staying inside `within` (set of block ids) when given.  Inner loops are cut by the simple-path condition
    (their body is traversed at most once).  Returns list of block-id lists (including the final stop block)."""
    out = []

    def rec(b, path, seen):
        if len(out) > limit:
            return
        if b in stops and path:
            out.append(path + [b])
            return
        for s in cfg.blocks[b].succs:
            if s is None or s in seen:
                if s is not None and s in stops:
                    out.append(path + [b, s]) if False else None
                continue
            if within is not None and s not in within and s not in stops:
                continue
            rec(s, path + [b], seen | {s})
    rec(start, [], {start})
    return out
