"""Typestate engine for 'validity-tested' iterators (Eigen sparse InnerIterator):

   an iterator is *Checked* when its `operator bool` has been tested true on every path
   since its construction or last `++`; `.index() .value() .row() .col() .valueRef()` need
   Checked.  Functions taking iterators by non-const reference get a summary per boolean
   return value: the parameters that are still Checked when the function returns that value.
"""
from .facts import AnalysisBroken, strip_targs

ACCESS = ("index", "value", "valueRef", "row", "col", "outer")


def is_iter_type(t):
    return "InnerIterator" in (t or "")


class IterTypestate:
    def __init__(self, db):
        self.db = db
        self._summ = {}

    # -------------------------------------------------------------- helpers
    def iter_vars(self, fn):
        """decl id -> (name, 'local'|'param') for iterator-typed locals and reference params."""
        out = {}
        for p in fn.params:
            if is_iter_type(p["t"]) and "&" in p["t"]:
                out[p["d"]] = (p["n"], "param")
        for j, n in fn.walk(fn.body):
            if n["k"] == "decl":
                for v in n["vars"]:
                    if is_iter_type(v["t"]) and not v["t"].rstrip().endswith("*"):
                        out[v["d"]] = (v["n"], "local")
        return out

    def var_of(self, fn, i, ivars):
        if i is None:
            return None
        n = fn.nodes[i]
        if n["k"] == "ref" and n["d"] in ivars:
            return n["d"]
        return None

    def bool_test(self, fn, cond, ivars):
        """cond is `it` / `it.operator bool()` / `!it` ... -> (decl, polarity) or None"""
        n = fn.nodes[cond]
        if n["k"] == "un" and n["op"] == "!":
            r = self.bool_test(fn, n["sub"], ivars)
            return (r[0], not r[1]) if r else None
        if n["k"] == "call" and n["ck"] == "method" and strip_targs(n.get("cname") or "").endswith("InnerIterator::operator bool"):
            d = self.var_of(fn, n["obj"], ivars)
            if d is not None:
                return (d, True)
        if n["k"] == "cast":
            return self.bool_test(fn, n["sub"], ivars)
        return None

    # -------------------------------------------------------------- analysis
    def analyse(self, fn, entry_checked=True):
        """returns dict(vars=..., accesses=[(node, decl, ok, method)], calls=[(node, callee, [(decl, ok)])],
                        returns=[(node, literal or None, frozenset(checked decls))])"""
        ivars = self.iter_vars(fn)
        res = {"vars": ivars, "accesses": [], "calls": [], "returns": []}
        if not ivars:
            return res
        cfg = fn.cfg
        init = frozenset(("chk", d) for d, (nm, kind) in ivars.items() if kind == "param" and entry_checked)

        declnodes = {}
        for j, n in fn.walk(fn.body):
            if n["k"] == "decl":
                for v in n["vars"]:
                    if v["d"] in ivars:
                        declnodes.setdefault(j, []).append(v["d"])

        def transfer(st, b, i, e):
            nid = e[2] if isinstance(e, tuple) else e
            n = fn.nodes[nid]
            k = n["k"]
            if nid in declnodes:
                for d in declnodes[nid]:
                    st = frozenset(x for x in st if x[-1] != d and not (x[0] == "pre" and x[2] == d))
                return st
            if k == "call":
                if n["ck"] == "op" and n.get("op") in ("++", "--", "+=", "="):
                    d = self.var_of(fn, n["args"][0], ivars) if n["args"] else None
                    if d is not None:
                        st = frozenset(x for x in st if not (x[0] == "chk" and x[1] == d))
                    return st
                # passing iterators by non-const reference
                cp = n.get("cparams") or []
                args = n["args"]
                touched = []
                for ai, a in enumerate(args):
                    kind = cp[ai] if ai < len(cp) else "ref"
                    d = self.var_of(fn, a, ivars)
                    if d is not None and kind == "ref":
                        touched.append(d)
                if touched:
                    st = frozenset(x for x in st if x[0] != "pre")
                    pre = frozenset(("pre", nid, d) for d in touched if ("chk", d) in st)
                    cf = self.db.callee_fn(n)
                    summ = self.summary(cf) if cf is not None else None
                    keep_always = set()
                    if summ is not None:
                        pidx = {p["d"]: ix for ix, p in enumerate(cf.params)}
                        both = summ["true"] & summ["false"] & summ["other"]
                        for ai, a in enumerate(args):
                            d = self.var_of(fn, a, ivars)
                            if d is not None and ai < len(cf.params) and cf.params[ai]["d"] in both:
                                keep_always.add(d)
                    st = frozenset(x for x in st if not (x[0] == "chk" and x[1] in touched and x[1] not in keep_always)) | pre
                return st
            return st

        def edge(st, b, k, label):
            if label is None:
                return st
            cond, truth = label
            bt = self.bool_test(fn, cond, ivars)
            if bt is not None:
                d, pol = bt
                if truth == pol:
                    return st | {("chk", d)}
                return frozenset(x for x in st if not (x[0] == "chk" and x[1] == d))
            n = fn.nodes[cond]
            neg = False
            while n["k"] == "un" and n["op"] == "!":
                neg = not neg
                cond = n["sub"]
                n = fn.nodes[cond]
            if n["k"] == "call":
                cf = self.db.callee_fn(n)
                pres = [x for x in st if x[0] == "pre" and x[1] == cond]
                if cf is not None and pres:
                    summ = self.summary(cf)
                    tv = truth != neg
                    keep = summ["true"] if tv else summ["false"]
                    add = set()
                    for ai, a in enumerate(n["args"]):
                        d = self.var_of(fn, a, ivars)
                        if d is not None and ai < len(cf.params) and cf.params[ai]["d"] in keep and ("pre", cond, d) in st:
                            add.add(("chk", d))
                    return st | add
            return st

        IN, at = cfg.forward(init, transfer, edge, lambda a, b: a & b)
        for b in cfg.blocks.values():
            if b.id not in cfg.reachable():
                continue
            for i, e in enumerate(b.elems):
                nid = e[2] if isinstance(e, tuple) else e
                n = fn.nodes[nid]
                st = at.get((b.id, i))
                if st is None:
                    continue
                if n["k"] == "call" and n["ck"] == "method":
                    short = strip_targs(n.get("cname") or "").split("::")[-1]
                    d = self.var_of(fn, n.get("obj"), ivars)
                    if d is not None and short in ACCESS:
                        res["accesses"].append((nid, d, ("chk", d) in st, short))
                if n["k"] == "call" and n["ck"] in ("func", "method"):
                    cp = n.get("cparams") or []
                    pas = []
                    for ai, a in enumerate(n["args"]):
                        d = self.var_of(fn, a, ivars)
                        if d is not None and ai < len(cp) and cp[ai] == "ref":
                            pas.append((d, ("chk", d) in st))
                    if pas:
                        res["calls"].append((nid, self.db.callee_fn(n), pas))
                if n["k"] == "return":
                    lit = None
                    if n.get("sub") is not None and fn.nodes[n["sub"]]["k"] == "lit" and fn.nodes[n["sub"]]["lk"] == "bool":
                        lit = bool(fn.nodes[n["sub"]]["v"])
                    res["returns"].append((nid, lit, frozenset(x[1] for x in st if x[0] == "chk")))
        return res

    def summary(self, fn):
        if fn is None:
            return None
        s = self._summ.get(fn.mangled)
        if s is not None:
            return s
        self._summ[fn.mangled] = {"true": set(), "false": set(), "other": set(), "requires": set()}   # recursion guard
        r = self.analyse(fn, entry_checked=True)
        params = {p["d"] for p in fn.params if p["d"] in r["vars"]}
        t = set(params)
        f = set(params)
        o = set(params)
        for nid, lit, chk in r["returns"]:
            if lit is True:
                t &= chk
            elif lit is False:
                f &= chk
            else:
                t &= chk
                f &= chk
                o &= chk
        # parameters accessed inside: the callee relies on the caller having tested them
        r0 = self.analyse(fn, entry_checked=False)
        req = {d for (nid, d, ok, m) in r0["accesses"] if not ok and d in params} - {d for (nid, d, ok, m) in r["accesses"] if not ok}
        s = {"true": t, "false": f, "other": o, "requires": req}
        self._summ[fn.mangled] = s
        return s
