"""Canonical expression keys, value origins, mutation sets, comparison normalisation
(engine `guards`, also used by every other engine)."""
from .facts import AnalysisBroken, strip_targs

ASSIGN_OPS = ("=", "+=", "-=", "*=", "/=", "%=", "|=", "&=", "^=", "<<=", ">>=")
NEG = {"<": ">=", ">=": "<", ">": "<=", "<=": ">", "==": "!=", "!=": "=="}
SWAP = {"<": ">", ">": "<", "<=": ">=", ">=": "<=", "==": "==", "!=": "!="}


# non-const std:: members that hand out references / iterators but do not change the container's shape
STD_ACCESSORS = ("operator[]", "at", "begin", "end", "rbegin", "rend", "data", "front", "back", "find", "lower_bound",
                 "upper_bound", "operator*", "operator->", "get", "top")


EIGEN_ACCESSORS = ("operator()", "operator[]", "coeff", "coeffRef", "data", "col", "row", "rows", "cols", "size", "adjoint", "transpose")

# free functions that take a non-const reference only to hand out a reference into it
NONMUTATING_FREE = ("boost::get", "std::get", "boost::tuples::get", "boost::tuples::get<0>", "boost::tuples::get<1>", "boost::tuples::get<2>", "std::begin", "std::end", "std::addressof", "boost::addressof")


class Ctx:
    """Per-function helper: mutation table of locals, origins, keys."""

    def __init__(self, fn, db=None):
        self.fn = fn
        self.db = db
        self._mut = None
        self._decl = None
        self._keycache = {}

    # ------------------------------------------------------------------
    def _scan(self):
        fn = self.fn
        mut = {}       # decl id -> list of node ids that (may) modify the variable after its declaration
        decl = {}      # decl id -> var dict (from DeclStmt) / param dict
        for p in fn.params:
            decl[p["d"]] = dict(p, param=True, init=None)
        roots = [fn.body] if fn.body is not None and fn.body >= 0 else []
        for ini in fn.d.get("inits", []):
            roots.append(ini["e"])
        for r in roots:
            for j, n in fn.walk(r):
                k = n["k"]
                if k == "decl":
                    for v in n["vars"]:
                        decl[v["d"]] = dict(v, declnode=j)
                elif k == "forrange":
                    decl[n["var"]["d"]] = dict(n["var"], declnode=j, loopvar=True)
                    mut.setdefault(n["var"]["d"], []).append(j)
                elif k == "bin" and n["op"] in ASSIGN_OPS:
                    d = self.root_var(n["l"])
                    if d is not None:
                        mut.setdefault(d, []).append(j)
                elif k == "un" and n["op"] in ("++", "--"):
                    d = self.root_var(n["sub"])
                    if d is not None:
                        mut.setdefault(d, []).append(j)
                elif k == "un" and n["op"] == "&":
                    d = self.root_var(n["sub"])
                    if d is not None and not self._addr_is_const_use(j):
                        mut.setdefault(d, []).append(j)
                elif k in ("call", "construct"):
                    cp = n.get("cparams") or []
                    args = n["args"]
                    off = 0
                    _cn = n.get("cname") or ""
                    _short = strip_targs(_cn).split("::")[-1]
                    accessor = (_cn.startswith("std::") and _short in STD_ACCESSORS) or (_cn.startswith("Eigen::") and _short in EIGEN_ACCESSORS)
                    if k == "call" and n["ck"] == "op" and n.get("ismember"):
                        # first arg is the object
                        d = self.root_var(args[0]) if args else None
                        if d is not None and not n.get("cconst", False) and not accessor and not self._effect_free(n):
                            mut.setdefault(d, []).append(j)
                        off = 1
                    if k == "call" and n["ck"] == "method":
                        d = self.root_var(n["obj"]) if n.get("obj") is not None else None
                        if d is not None and not n.get("cconst", False):
                            # calling a non-const method on a by-value local object / through a pointer local:
                            # mutates the object, not the pointer.  Record for objects only.
                            dv = decl.get(d)
                            if not n.get("arrow") and not accessor and not self._effect_free(n):
                                mut.setdefault(d, []).append(j)
                    if k == "call" and strip_targs(n.get("cname") or "") in NONMUTATING_FREE:
                        continue
                    for ai, a in enumerate(args[off:]):
                        kind = cp[ai] if ai < len(cp) else "ref"
                        if kind in ("ref", "ptr") or (n.get("callee") is None):
                            d = self.root_var(a)
                            if d is not None and kind == "ref":
                                mut.setdefault(d, []).append(j)
        self._mut = mut
        self._decl = decl

    def _addr_is_const_use(self, addr_node):
        """&x handed directly to a pointer-to-const parameter does not let the callee modify x"""
        par = self.fn.parent_map().get(addr_node)
        if par is None:
            return False
        pn = self.fn.nodes[par]
        if pn["k"] not in ("call", "construct"):
            return False
        args = list(pn["args"])
        cp = list(pn.get("cparams") or [])
        if pn["k"] == "call" and pn.get("ck") == "op" and pn.get("ismember"):
            args = args[1:]
        if addr_node in args:
            ix = args.index(addr_node)
            return ix < len(cp) and cp[ix] == "cptr"
        return False

    def _effect_free(self, callnode):
        """a member function that is not declared const but (transitively) writes no field of its object"""
        if self.db is None:
            return False
        cf = self.db.callee_fn(callnode)
        if cf is None or cf.body is None or cf.body < 0:
            return False
        eff = self.db.__dict__.get("_effects")
        if eff is None:
            from .effects import Effects
            eff = self.db.__dict__["_effects"] = Effects(self.db)
        try:
            return not eff.this_writes(cf)
        except Exception:
            return False

    def root_var(self, i):
        """decl id of the local/param at the root of an lvalue expression (x, x.f, x[i]) or None."""
        fn = self.fn
        while i is not None and i >= 0:
            n = fn.nodes[i]
            k = n["k"]
            if k == "ref":
                return n["d"] if n["dk"] in ("local", "param", "staticlocal") else None
            if k == "member":
                if n["arrow"]:
                    return None
                i = n["base"]
            elif k == "index":
                i = n["base"]
            elif k == "call" and n["ck"] == "op" and n["op"] in ("[]", "()"):
                i = n["args"][0]
            elif k == "cast":
                i = n["sub"]
            elif k == "call" and n["ck"] == "func" and strip_targs(n.get("cname") or "").split("<")[0] in [x.split("<")[0] for x in NONMUTATING_FREE] and n["args"]:
                i = n["args"][0]          # get<k>(x) = ... writes into x
            elif k == "call" and n["ck"] == "method" and n.get("obj") is not None and not n.get("arrow") and \
                    strip_targs(n.get("cname") or "").split("::")[-1] in STD_ACCESSORS + EIGEN_ACCESSORS:
                i = n["obj"]              # x.at(i) = ..., x.front() = ...
            else:
                return None
        return None

    @property
    def mut(self):
        if self._mut is None:
            self._scan()
        return self._mut

    @property
    def decls(self):
        if self._decl is None:
            self._scan()
        return self._decl

    def trivial_getter(self, callnode):
        """qualified field name F if the callee is a const member function whose body is `return F;` (F a field of *this)."""
        if self.db is None:
            return None
        cf = self.db.callee_fn(callnode)
        if cf is None or not cf.d.get("const") or cf.params or cf.body is None or cf.body < 0 or cf.d.get("virtual"):
            return None
        cache = self.db.__dict__.setdefault("_getter_cache", {})
        if cf.mangled in cache:
            return cache[cf.mangled]
        res = None
        b = cf.nodes[cf.body]
        st = [c for c in b["body"] if c is not None and cf.nodes[c]["k"] != "null"] if b["k"] == "block" else []
        if len(st) == 1 and cf.nodes[st[0]]["k"] == "return" and cf.nodes[st[0]].get("sub") is not None:
            e = cf.nodes[cf.nodes[st[0]]["sub"]]
            if e["k"] == "member" and cf.nodes[e["base"]]["k"] == "this" and not e.get("ismethod"):
                res = strip_targs(e["q"])
        cache[cf.mangled] = res
        return res

    def trivial_function(self, callnode):
        """(params, key) if the callee is a free / static function defined in the analysed sources whose whole body is
        `return <expression over its parameters>;` -- a named sub-expression (conjugate-if-complex, a sign conversion, a
        pole average ...).  Calls to such helpers denote the returned expression with the arguments substituted, so that a
        formula or guard rule sees the same value whether or not the maintainer gave the sub-expression a name."""
        if self.db is None:
            return None
        cf = self.db.callee_fn(callnode)
        if cf is None or cf.body is None or cf.body < 0 or cf.d.get("virtual") or cf.kind in ("ctor", "dtor") or cf.rec:
            return None
        from . import pipeline
        if not (cf.file or "").startswith(pipeline.REPO.rstrip("/") + "/"):
            return None
        cache = self.db.__dict__.setdefault("_trivfn_cache", {})
        if cf.mangled in cache:
            return cache[cf.mangled]
        cache[cf.mangled] = None          # (recursion guard)
        res = None
        b = cf.nodes[cf.body]
        st = [c for c in b["body"] if c is not None and cf.nodes[c]["k"] != "null"] if b["k"] == "block" else []
        if len(st) == 1 and cf.nodes[st[0]]["k"] == "return" and cf.nodes[st[0]].get("sub") is not None:
            try:
                k = Ctx(cf, self.db).key(cf.nodes[st[0]]["sub"])
            except AnalysisBroken:
                k = None
            if k is not None and not key_contains(k, lambda y: y[0] in ("var", "this", "global", "unknown", "ref", "lambda", "new", "throw") or
                                                   (y[0] == "un" and y[1] in ("++", "--", "++post", "--post")) or (y[0] == "op" and len(y) > 1 and y[1] in ASSIGN_OPS)):
                res = ([("param", p_["d"], p_["n"]) for p_ in cf.params], k)
        cache[cf.mangled] = res
        return res

    def single_assignment(self, d):
        """True iff local d is initialised at its declaration and never modified afterwards."""
        v = self.decls.get(d)
        if v is None or v.get("param") or v.get("loopvar"):
            return False
        if v.get("init") is None:
            return False
        if v.get("ref"):
            return True       # a reference cannot be re-bound: it always denotes its initialiser (writes go to the referent)
        return not self.mut.get(d)

    def unstable_init(self, d):
        """the initialiser of local d mentions a local / parameter that is re-assigned somewhere in the function:
        replacing d by its initialiser would not be valid at every use (flow-insensitive inlining is refused)."""
        cache = self.__dict__.setdefault("_unstable", {})
        if d in cache:
            return cache[d]
        cache[d] = False          # recursion guard
        v = self.decls.get(d)
        res = False
        if v is not None and v.get("init") is not None:
            mutated = {x for x, ns in self.mut.items() if ns}

            def walk(i):
                n = self.fn.nodes[i]
                if n["k"] == "ref" and n["dk"] in ("local", "param", "staticlocal"):
                    if n["d"] in mutated:
                        return True
                    if n["dk"] == "local" and n["d"] != d and self.unstable_init(n["d"]):
                        return True
                return any(walk(c) for c in self.fn.children(i))
            res = walk(v["init"])
        cache[d] = res
        return res

    def init_mutated_vars(self, d, _seen=None):
        """re-assigned locals / parameters the initialiser of local d depends on (through other inlined locals)."""
        cache = self.__dict__.setdefault("_imv", {})
        if d in cache:
            return cache[d]
        cache[d] = set()
        v = self.decls.get(d)
        res = set()
        if v is not None and v.get("init") is not None:
            mutated = {x for x, ns in self.mut.items() if ns}
            stack = [v["init"]]
            while stack:
                i = stack.pop()
                n = self.fn.nodes[i]
                if n["k"] == "ref" and n["dk"] in ("local", "param", "staticlocal"):
                    if n["d"] in mutated:
                        res.add(n["d"])
                    elif n["dk"] == "local" and n["d"] != d:
                        res |= self.init_mutated_vars(n["d"])
                stack.extend(self.fn.children(i))
        cache[d] = res
        return res

    def inline_ok(self, use_node, d):
        """May the use of single-assignment local d at `use_node` be replaced by its initialiser?  Yes unless a variable
        the initialiser depends on can be modified on a path from the declaration to this use."""
        deps = self.init_mutated_vars(d)
        if not deps:
            return True
        cache = self.__dict__.setdefault("_iok", {})
        ck = (use_node, d)
        if ck in cache:
            return cache[ck]
        fn = self.fn
        res = False
        try:
            cfg = fn.cfg
            pd = cfg.pos1(self.decls[d].get("declnode"))
            if pd is None and self.decls[d].get("init") is not None:
                # a declaration statement with several variables is split by the CFG builder: use the initialiser's position
                pd = cfg.pos1(self.decls[d]["init"])
            pu = cfg.pos1(use_node)
            if pd is not None and pu is not None:
                res = True
                for x in deps:
                    for m in self.mut.get(x, []):
                        pm = cfg.pos1(m)
                        if pm is None:
                            continue
                        if _reach(cfg, pd, pm, pd) and _reach(cfg, pm, pu, pd):
                            res = False
                            break
                    if not res:
                        break
        except AnalysisBroken:
            res = False
        cache[ck] = res
        return res

    def unmodified_param(self, d):
        v = self.decls.get(d)
        return v is not None and v.get("param") and not self.mut.get(d)

    # ------------------------------------------------------------------
    def key(self, i, inline=True, _depth=0):
        """Canonical hashable structure of expression node i.
        Single-assignment locals are replaced by the key of their initialiser (inline=True)."""
        if i is None:
            return ("none",)
        ck = (i, inline)
        if ck in self._keycache:
            return self._keycache[ck]
        if _depth > 60:
            raise AnalysisBroken("expression too deep in %s" % self.fn.qn)
        fn = self.fn
        n = fn.nodes[i]
        k = n["k"]
        if k == "call" and n.get("lambda"):
            r = ("lambda", n.get("cm") or "?")
            self._keycache[ck] = r
            return r
        K = lambda j: self.key(j, inline, _depth + 1)
        if k == "ref":
            dk = n["dk"]
            if dk in ("local", "staticlocal"):
                if inline and self.single_assignment(n["d"]) and self.inline_ok(i, n["d"]):
                    v = self.decls[n["d"]]
                    # a reference / value copy of an expression: same value as the initialiser
                    r = K(v["init"])
                else:
                    r = ("var", n["d"], n["n"])
            elif dk == "param":
                r = ("param", n["d"], n["n"])
            elif dk == "enumerator":
                r = ("enum", n["q"], n.get("v"))
            elif dk == "global":
                r = ("global", n["q"])
            elif dk == "func":
                r = ("func", n["q"])
            else:
                r = ("ref", n["n"])
        elif k == "member":
            r = ("field", strip_targs(n["q"]), K(n["base"]))
        elif k == "this":
            r = ("this",)
        elif k == "lit":
            v = n["v"]
            if n["lk"] == "float":
                v = float(v)
                if v == int(v):
                    v = int(v)
            elif n["lk"] == "bool":
                v = 1 if v else 0
            r = ("lit", v)
        elif k == "call":
            args = tuple(K(a) for a in n["args"])
            if n["ck"] == "op":
                r = ("op", n["op"]) + args
            elif n["ck"] == "method":
                g = self.trivial_getter(n)
                if g is not None and n.get("obj") is not None and not args:
                    r = ("field", g, K(n["obj"]))
                else:
                    r = ("mcall", strip_targs(n.get("cname")), K(n["obj"]) if n.get("obj") is not None else ("none",)) + args
            else:
                nm = strip_targs(n.get("cname")) or K(n.get("calleeexpr"))
                if isinstance(nm, str) and nm.split("::")[-1] == "get" and "<" in (n.get("callee") or ""):
                    # tuple element access: keep the index (first template argument)
                    ta = (n.get("callee") or "").split("<", 1)[1]
                    nm = "%s<%s>" % (nm, ta.split(",")[0].split(">")[0].strip())
                r = ("call", nm) + args
                tf = self.trivial_function(n)
                if tf is not None and len(tf[0]) == len(args):
                    sub_ = {p_[:2]: a_ for p_, a_ in zip(tf[0], args)}
                    r = key_subst(tf[1], lambda y: sub_.get(y[:2]) if y[0] == "param" else None)
        elif k == "construct":
            args = tuple(K(a) for a in n["args"])
            # std::complex(x) with defaulted imaginary part is x for ring purposes; keep generic here
            r = ("ctor", strip_targs(n.get("crec") or n.get("t"))) + args
            # std::complex(x, 0) / std::complex(x) built from a real value denote x (value-level identity used by guards and formulas)
            if r[1] == "std::complex" and ((len(args) == 2 and args[1] == ("lit", 0)) or (len(args) == 1 and "complex" not in (self.fn.nodes[n["args"][0]].get("t") or ""))):
                r = args[0]
            # iterator -> const_iterator conversions denote the same position
            if len(args) == 1 and r[1] in ITERATOR_CONVERSIONS and "iterator" in (self.fn.nodes[n["args"][0]].get("t") or ""):
                r = args[0]
        elif k == "bin":
            r = ("op", n["op"], K(n["l"]), K(n["r"]))
        elif k == "un":
            r = ("un", n["op"] + ("post" if n["postfix"] and n["op"] in ("++", "--") else ""), K(n["sub"]))
        elif k == "index":
            r = ("op", "[]", K(n["base"]), K(n["idx"]))
        elif k == "cond":
            r = ("cond", K(n["c"]), K(n["a"]), K(n["b"]))
        elif k == "cast":
            if n.get("ckind") in ("NoOp", "IntegralCast", "UserDefinedConversion", "LValueToRValue", "ConstructorConversion"):
                r = K(n["sub"])      # value-preserving for the guard reasoning done here
            else:
                r = ("cast", n["t"], K(n["sub"]))
        elif k in ("defarg", "definit", "stdinitlist"):
            r = K(n["sub"])
        elif k == "new":
            r = ("new", n["at"], K(n["init"]) if n.get("init") is not None else ("none",))
        elif k == "initlist":
            r = ("initlist",) + tuple(K(a) for a in n["items"])
        elif k == "valueinit":
            r = ("lit", 0)
        elif k == "sizeof":
            r = ("lit", n.get("v"))
        elif k == "throw":
            r = ("throw",)
        else:
            r = ("unknown", k, i)
        self._keycache[ck] = r
        return r

    # ------------------------------------------------------------------
    def cmp_fact(self, cond, truth, inline=True):
        """Normalise a branch condition taken with `truth` into a list of facts.
        Facts: (relop, L, R) with relop in < <= == != (after swapping > >=),
               ("true", K) / ("false", K) for other conditions."""
        fn = self.fn
        n = fn.nodes[cond]
        k = n["k"]
        if k == "un" and n["op"] == "!":
            return self.cmp_fact(n["sub"], not truth, inline)
        if k == "call" and n.get("ck") == "op" and n.get("op") == "!" and len(n.get("args", [])) == 1:
            # operator! of a class type (boost::optional, smart pointers, iterators over sparse rows): the negation of its truth value
            return self.cmp_fact(n["args"][0], not truth, inline)
        if k == "ref" and n["dk"] == "local" and inline and self.single_assignment(n["d"]) and (n.get("t") or "").replace("const ", "").strip() == "bool" \
                and self.decls.get(n["d"], {}).get("init") is not None:
            return self.cmp_fact(self.decls[n["d"]]["init"], truth, inline)
        if k == "cast" and (n.get("t") or "").replace("const ", "").strip() == "bool" and (fn.nodes[n["sub"]].get("t") or "").replace("const ", "").strip() == "bool":
            return self.cmp_fact(n["sub"], truth, inline)
        if k == "bin" and ((n["op"] == "&&" and truth) or (n["op"] == "||" and not truth)):
            return self.cmp_fact(n["l"], truth, inline) + self.cmp_fact(n["r"], truth, inline)
        op = None
        if k == "bin" and n["op"] in NEG:
            op, l, r = n["op"], n["l"], n["r"]
        elif k == "call" and n["ck"] == "op" and n.get("op") in NEG and len(n["args"]) == 2:
            op, l, r = n["op"], n["args"][0], n["args"][1]
        if op is not None:
            if not truth:
                op = NEG[op]
            L, R = self.key(l, inline), self.key(r, inline)
            if op in (">", ">="):
                op = SWAP[op]
                L, R = R, L
            if op in ("==", "!=") and repr(L) > repr(R):
                L, R = R, L
            return [(op, L, R)]
        return [("true" if truth else "false", self.key(cond, inline))]

    def cmp_dnf(self, cond, truth, inline=True, limit=16):
        """The condition taken with `truth` as a disjunction of fact lists: a negated conjunction / a disjunction is
        split into its alternatives (cmp_fact keeps it as one opaque fact).  Falls back to [cmp_fact] beyond `limit`."""
        fn = self.fn

        def go(c, t):
            n = fn.nodes[c]
            k = n["k"]
            if k == "un" and n["op"] == "!":
                return go(n["sub"], not t)
            if k == "ref" and n["dk"] == "local" and inline and self.single_assignment(n["d"]) and (n.get("t") or "").replace("const ", "").strip() == "bool" \
                    and self.decls.get(n["d"], {}).get("init") is not None:
                return go(self.decls[n["d"]]["init"], t)
            if k == "bin" and n["op"] in ("&&", "||"):
                a, b = go(n["l"], t), go(n["r"], t)
                if (n["op"] == "&&") == t:
                    r = [x + y for x in a for y in b]
                else:
                    r = a + b
                if len(r) > limit:
                    raise OverflowError
                return r
            return [self.cmp_fact(c, t, inline)]
        try:
            return go(cond, truth)
        except OverflowError:
            return [self.cmp_fact(cond, truth, inline)]


def _reach(cfg, a, b, avoid):
    """is position b reachable from just after position a without executing position `avoid` again?"""
    if a[0] == b[0] and a[1] < b[1]:
        if not (avoid[0] == a[0] and a[1] < avoid[1] < b[1]):
            return True
    seen = set()
    stack = [s for s in cfg.blocks[a[0]].succs if s is not None]
    # leaving a's block: if avoid lies later in the same block it is executed first
    if avoid[0] == a[0] and avoid[1] > a[1]:
        return False
    while stack:
        blk = stack.pop()
        if blk in seen:
            continue
        seen.add(blk)
        if blk == b[0]:
            if not (avoid[0] == blk and avoid[1] < b[1]):
                return True
            # avoid precedes b in this block: this entry is blocked, but do not expand further through it
            continue
        if blk == avoid[0]:
            continue
        stack.extend(s for s in cfg.blocks[blk].succs if s is not None)
    return False


def key_vars(key, acc=None):
    """decl ids of non-inlined locals ('var') occurring in a key."""
    acc = set() if acc is None else acc
    if isinstance(key, tuple):
        if len(key) >= 2 and key[0] == "var":
            acc.add(key[1])
            return acc
        for x in key:
            key_vars(x, acc)
    return acc


def key_contains(key, pred):
    if pred(key):
        return True
    if isinstance(key, tuple):
        return any(key_contains(x, pred) for x in key if isinstance(x, tuple))
    return False


def key_subst(key, f):
    """bottom-up rewrite: f(key) -> replacement or None."""
    if isinstance(key, tuple):
        new = tuple(key_subst(x, f) if isinstance(x, tuple) else x for x in key)
        r = f(new)
        return new if r is None else r
    return key


def _this_fields(key, acc=None):
    acc = set() if acc is None else acc
    if isinstance(key, tuple):
        if len(key) == 3 and key[0] == "field" and key[2] == ("this",):
            acc.add(key[1])
        for x in key:
            if isinstance(x, tuple):
                _this_fields(x, acc)
    return acc


ITERATOR_CONVERSIONS = ("std::_Rb_tree_const_iterator", "std::_List_const_iterator", "__gnu_cxx::__normal_iterator", "std::_Bit_const_iterator",
                        "std::_Deque_iterator", "std::__detail::_Node_const_iterator")


def guard_facts(fn, ctx, kill_on_mutation=True, effects=None):
    """Forward must-analysis: at[(block, idx)] = frozenset of facts (see Ctx.cmp_fact) that
    hold on every path reaching that CFG position.
    Facts come from branch edges and from assignments `x = e` (x a local or a field of *this).
    Facts about a local are killed when it is modified; facts about a field of *this when the
    field is assigned or a non-const member function that may write it (effects) is called."""
    cfg = fn.cfg
    mutnodes = {}
    for d, ns in ctx.mut.items():
        for j in ns:
            mutnodes.setdefault(j, set()).add(d)
    # declarations re-executed in a loop also kill facts about the variable
    declnodes = {}
    for d, v in ctx.decls.items():
        if "declnode" in v:
            declnodes.setdefault(v["declnode"], set()).add(d)
    # field writes
    fieldkill = {}      # node -> set of field names or {"*"}
    gens = {}           # node -> fact generated after the node
    roots = [fn.body] if fn.body is not None and fn.body >= 0 else []
    for r in roots:
        for j, n in fn.walk(r):
            k = n["k"]
            tgt = None
            if k == "bin" and n["op"] in ASSIGN_OPS:
                tgt = n["l"]
            elif k == "un" and n["op"] in ("++", "--"):
                tgt = n["sub"]
            if tgt is not None:
                t = fn.nodes[tgt]
                # walk down to the outermost member of this
                x = tgt
                fld = None
                for _ in range(20):
                    xn = fn.nodes[x]
                    if xn["k"] == "member":
                        if fn.nodes[xn["base"]]["k"] == "this":
                            fld = strip_targs(xn["q"])
                            break
                        x = xn["base"]
                    elif xn["k"] == "index":
                        x = xn["base"]
                    elif xn["k"] == "call" and xn.get("ck") == "op" and xn.get("op") in ("[]", "()") and xn["args"]:
                        x = xn["args"][0]
                    else:
                        break
                if fld:
                    fieldkill.setdefault(j, set()).add(fld)
                if k == "bin" and n["op"] == "=":
                    try:
                        lk = ctx.key(n["l"], inline=False)
                        rk = ctx.key(n["r"], inline=True)
                        if (lk[0] == "var" or (lk[0] == "field" and lk[2] == ("this",))) and not key_contains(rk, lambda y: y == lk) \
                                and not key_contains(rk, lambda y: isinstance(y, tuple) and y and y[0] in ("unknown", "new", "throw")):
                            a, b = (lk, rk) if repr(lk) <= repr(rk) else (rk, lk)
                            gens[j] = ("==", a, b)
                    except AnalysisBroken:
                        pass
            elif k == "call":
                obj = None
                if n["ck"] == "method" and n.get("obj") is not None:
                    obj = n["obj"]
                elif n["ck"] == "op" and n.get("ismember") and n["args"]:
                    obj = n["args"][0]
                if obj is not None and not n.get("cconst", False):
                    on = fn.nodes[obj]
                    if on["k"] == "this":
                        cf = ctx.db.callee_fn(n) if ctx.db is not None else None
                        if effects is not None and cf is not None:
                            w = {x for x in effects.this_writes(cf) if not x.startswith("deref:")}
                            if w:
                                fieldkill.setdefault(j, set()).update(w)
                        else:
                            fieldkill.setdefault(j, set()).add("*")
                    elif on["k"] == "member" and fn.nodes[on["base"]]["k"] == "this":
                        short = strip_targs(n.get("cname") or "").split("::")[-1]
                        if not (((n.get("cname") or "").startswith("std::") and short in STD_ACCESSORS) or
                                ((n.get("cname") or "").startswith("Eigen::") and short in EIGEN_ACCESSORS)):
                            fieldkill.setdefault(j, set()).add(strip_targs(on["q"]))

    def transfer(st, b, i, e):
        nid = e[2] if isinstance(e, tuple) else e
        ds = set()
        if nid in mutnodes:
            ds |= mutnodes[nid]
        if nid in declnodes:
            ds |= declnodes[nid]
        if ds and st:
            st = frozenset(f for f in st if not (key_vars(f) & ds))
        fk = fieldkill.get(nid)
        if fk and st:
            if "*" in fk:
                st = frozenset(f for f in st if not _this_fields(f))
            else:
                st = frozenset(f for f in st if not (_this_fields(f) & fk))
        g = gens.get(nid)
        if g is not None:
            st = st | {g}
        return st

    def edge(st, b, k, label):
        if label is None:
            return st
        cond, truth = label
        try:
            fs = ctx.cmp_fact(cond, truth, inline=True)
        except AnalysisBroken:
            return st
        # what the taken edge implies for the enclosing logical expression: `a` true makes `a || b` true, `a` false makes
        # `a && b` false.  These facts survive the join of the short-circuit edges, where neither operand alone does.
        extra = []
        try:
            c, t = cond, truth
            pm = fn.parent_map()
            for _ in range(8):
                p = pm.get(c)
                if p is None:
                    break
                pn = fn.nodes[p]
                if pn["k"] in ("paren", "cast") or (pn["k"] == "cast"):
                    c = p
                    continue
                if pn["k"] == "un" and pn["op"] == "!":
                    c, t = p, not t
                    continue
                if pn["k"] == "bin" and ((pn["op"] == "||" and t) or (pn["op"] == "&&" and not t)):
                    extra.append(("true" if t else "false", ctx.key(p, True)))
                    c = p
                    continue
                break
        except AnalysisBroken:
            pass
        return st | frozenset(fs) | frozenset(extra)

    def meet(a, b):
        return a & b

    IN, at = cfg.forward(frozenset(), transfer, edge, meet)
    return at
