"""./verify explain <replay.json> : show a recorded violation and re-decide that rule instance on the current tree.
Exit 1 if the same (rule, site) is still reported, 0 if it is not (repaired / different tree), 2 if undecidable."""
import json
import os
import subprocess
import sys

VERIF = os.path.dirname(os.path.dirname(os.path.abspath(__file__)))


def main(argv):
    if not argv:
        print("usage: ./verify explain <replay.json>")
        return 2
    rec = json.load(open(argv[0]))
    pid, rid, site = rec["property"], rec["rule"], rec["site"]
    print("recorded violation of %s, rule %s" % (pid, rid))
    print("  site:    %s" % site)
    for i in rec.get("instances", [])[:1]:
        print("  at:      %s" % i.get("loc"))
        print("  detail:  %s" % i.get("detail"))
    print("  configs: %s" % ", ".join(rec.get("configs", [])))
    print("re-analysing the current tree (%s) ..." % os.environ.get("POMVERIF_REPO", "/repo"))
    r = subprocess.run([os.path.join(VERIF, "verify"), pid, "--no-evidence"], stdout=subprocess.PIPE, stderr=subprocess.STDOUT, text=True, cwd=VERIF, env=dict(os.environ, POMVERIF_EXPLAIN="1"))
    lines = r.stdout.splitlines()
    still = False
    for k, l in enumerate(lines):
        if l.startswith("  violation %s " % rid) and k + 1 < len(lines) and lines[k + 1].strip() == "site:   %s" % site:
            still = True
            print("\n".join(lines[k:k + 3]))
    if still:
        print("VIOLATION property=%s replay=%s" % (pid, os.path.abspath(argv[0])))
        return 1
    if r.returncode == 2:
        print("the check could not decide on this tree (exit 2)")
        return 2
    print("this rule instance is not reported on the current tree")
    return 0


if __name__ == "__main__":
    sys.exit(main(sys.argv[1:]))
