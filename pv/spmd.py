"""SPMD / communicator discipline engine (F3): collectives, communicator roots, rank taint,
arm-by-arm matching of collective sequences, collective summaries over the call graph."""
from .entail import canon
from .expr import Ctx, key_contains, key_subst
from .facts import AnalysisBroken, strip_targs

COLL_FUNCS = {
    # name: (comm arg, payload arg, has root)
    "boost::mpi::broadcast": True, "boost::mpi::reduce": True, "boost::mpi::gather": True, "boost::mpi::scatter": True,
    "boost::mpi::all_reduce": False, "boost::mpi::all_gather": False, "boost::mpi::all_to_all": False, "boost::mpi::scan": False,
}
COLL_METHODS = ("boost::mpi::communicator::barrier", "boost::mpi::communicator::split")
P2P_METHODS = ("boost::mpi::communicator::send", "boost::mpi::communicator::recv", "boost::mpi::communicator::isend",
               "boost::mpi::communicator::irecv", "boost::mpi::communicator::probe", "boost::mpi::communicator::iprobe")
RAW_COLL = ("MPI_Barrier", "MPI_Bcast", "MPI_Reduce", "MPI_Allreduce", "MPI_Gather", "MPI_Scatter", "MPI_Allgather", "MPI_Comm_split")
RANK = "boost::mpi::communicator::rank"


def is_comm_type(t):
    return "boost::mpi::communicator" in (t or "")


def comm_roots(fn, db):
    """keys of communicators the function was *given*: parameters and fields of this."""
    roots = []
    for p in fn.params:
        if is_comm_type(p["t"]):
            roots.append(("param", p["d"], p["n"]))
    if fn.rec and fn.rec in db.records:
        for f in db.records[fn.rec]["fields"]:
            if is_comm_type(f["t"]):
                roots.append(("field", strip_targs(fn.rec + "::" + f["n"]), ("this",)))
    return roots


def rooted(key, roots):
    """communicator key is one of the roots or derived from one by split()."""
    k = key
    for _ in range(8):
        if k in roots:
            return True
        if any(k[:2] == r[:2] for r in roots if r[0] == "param") and k[0] == "param":
            return True
        if k[0] == "mcall" and k[1] == "boost::mpi::communicator::split":
            k = k[2]
            continue
        if k[0] == "ctor" and strip_targs(k[1] or "") == "boost::mpi::communicator" and len(k) == 3:
            k = k[2]          # copy
            continue
        return False
    return False


def rank_tainted(key):
    return key_contains(key, lambda k: isinstance(k, tuple) and len(k) >= 2 and k[0] == "mcall" and k[1] == RANK)


def msg_tainted(key):
    return key_contains(key, lambda k: isinstance(k, tuple) and len(k) >= 2 and k[0] == "mcall" and isinstance(k[1], str) and
                        (k[1].startswith("pMPI::MPIWorker::") or k[1].startswith("pMPI::MPIMaster::") or k[1].startswith("boost::mpi::request::")))


class Spmd:
    def __init__(self, db):
        self.db = db
        self._ctx = {}
        self._coll = {}

    def ctx(self, fn):
        c = self._ctx.get(fn.mangled)
        if c is None:
            c = self._ctx[fn.mangled] = Ctx(fn, self.db)
        return c

    # ------------------------------------------------------------ classification of one call node
    def classify(self, fn, j):
        """-> None | dict(kind='coll'|'p2p'|'collfn', op, comm (key), payload, count, root, node)"""
        n = fn.nodes[j]
        if n["k"] != "call":
            return None
        ctx = self.ctx(fn)
        cn = strip_targs(n.get("cname") or "")
        if cn in COLL_FUNCS:
            a = n["args"]
            d = {"kind": "coll", "op": cn, "comm": ctx.key(a[0]), "node": j, "payload": ctx.key(a[1]) if len(a) > 1 else None,
                 "ptype": fn.nodes[a[1]].get("t") if len(a) > 1 else None, "count": None, "root": None}
            if COLL_FUNCS[cn]:
                d["root"] = ctx.key(a[-1])
                rest = a[2:-1]
            else:
                rest = a[2:]
            # (ptr, n, ...) form
            if rest and fn.nodes[a[1]].get("t", "").endswith("*"):
                d["count"] = ctx.key(rest[0])
            return d
        if cn in COLL_METHODS:
            return {"kind": "coll", "op": cn, "comm": ctx.key(n["obj"]), "node": j, "payload": None, "ptype": None, "count": None, "root": None}
        if cn in P2P_METHODS:
            return {"kind": "p2p", "op": cn, "comm": ctx.key(n["obj"]), "node": j, "payload": None, "ptype": None, "count": None, "root": None}
        if cn in RAW_COLL:
            return {"kind": "coll", "op": cn, "comm": ctx.key(n["args"][0 if cn == "MPI_Barrier" else -1]), "node": j, "payload": None,
                    "ptype": None, "count": None, "root": None, "raw": True}
        cf = self.db.callee_fn(n)
        if cf is not None:
            ks = self.collective_params(cf)
            if ks:
                # communicator argument(s) the callee is collective on
                args = n["args"]
                off = 1 if (n["ck"] == "op" and n.get("ismember")) else 0
                comms = []
                for k in ks:
                    if k == "this":
                        comms.append(ctx.key(n["obj"]) if n.get("obj") is not None else ("this",))
                    elif k + off < len(args):
                        comms.append(ctx.key(args[k + off]))
                return {"kind": "collfn", "op": cf.name, "comm": comms[0] if comms else None, "node": j, "payload": None, "ptype": None,
                        "count": None, "root": None, "callee": cf}
        return None

    def collective_params(self, fn, _stack=None):
        """indices of communicator parameters (or 'this' for a communicator field) on which fn is collective."""
        m = fn.mangled
        if m in self._coll:
            return self._coll[m]
        _stack = _stack or set()
        if m in _stack:
            return []
        _stack.add(m)
        self._coll[m] = []
        res = set()
        if fn.body is not None and fn.body >= 0:
            ctx = self.ctx(fn)
            pidx = {p["d"]: i for i, p in enumerate(fn.params) if is_comm_type(p["t"])}
            for j, n in fn.walk(fn.body):
                if n["k"] != "call":
                    continue
                cn = strip_targs(n.get("cname") or "")
                ck = None
                if cn in COLL_FUNCS:
                    ck = ctx.key(n["args"][0])
                elif cn in COLL_METHODS:
                    ck = ctx.key(n["obj"])
                else:
                    cf = self.db.callee_fn(n)
                    if cf is not None and cf.mangled != m:
                        ks = self.collective_params(cf, _stack)
                        off = 1 if (n["ck"] == "op" and n.get("ismember")) else 0
                        for k in ks:
                            if k == "this":
                                continue
                            if k + off < len(n["args"]):
                                kk = ctx.key(n["args"][k + off])
                                root = kk
                                while root[0] == "mcall" and root[1] == "boost::mpi::communicator::split":
                                    root = root[2]
                                if root[0] == "param" and root[1] in pidx:
                                    res.add(pidx[root[1]])
                        continue
                if ck is not None:
                    root = ck
                    while root[0] == "mcall" and root[1] == "boost::mpi::communicator::split":
                        root = root[2]
                    if root[0] == "param" and root[1] in pidx:
                        res.add(pidx[root[1]])
                    elif root[0] == "field" and root[2] == ("this",):
                        res.add("this")
        _stack.discard(m)
        r = sorted(res, key=str)
        self._coll[m] = r
        return r

    # ------------------------------------------------------------ structured sequences
    def seq(self, fn, root):
        """collective structure below AST node `root`, in source (= evaluation) order."""
        if root is None or root < 0:
            return []
        n = fn.nodes[root]
        k = n["k"]
        ctx = self.ctx(fn)
        out = []
        if k == "if":
            pre = self.seq(fn, n["c"])
            t = self.seq(fn, n["then"]) if n.get("then") is not None else []
            e = self.seq(fn, n["else"]) if n.get("else") is not None else []
            out.extend(pre)
            if t or e:
                out.append({"kind": "branch", "cond": ctx.key(n["c"]), "condnode": n["c"], "then": t, "else": e, "node": root})
            return out
        if k in ("for", "while", "do"):
            ini = self.seq(fn, n.get("init")) if k == "for" and n.get("init") is not None else []
            inner = []
            if n.get("c") is not None:
                inner.extend(self.seq(fn, n["c"]))
            if n.get("body") is not None:
                inner.extend(self.seq(fn, n["body"]))
            if k == "for" and n.get("inc") is not None:
                inner.extend(self.seq(fn, n["inc"]))
            out.extend(ini)
            if inner:
                out.append({"kind": "loop", "cond": ctx.key(n["c"]) if n.get("c") is not None else ("lit", 1), "body": inner, "node": root})
            return out
        c = self.classify(fn, root) if k == "call" else None
        # children first (arguments are evaluated before the call)
        for ch in fn.children(root):
            out.extend(self.seq(fn, ch))
        if c is not None and c["kind"] in ("coll", "collfn"):
            out.append(c)
        return out

    @staticmethod
    def flat(items):
        for it in items:
            if it["kind"] == "branch":
                yield from Spmd.flat(it["then"])
                yield from Spmd.flat(it["else"])
            elif it["kind"] == "loop":
                yield from Spmd.flat(it["body"])
            else:
                yield it
