"""Exception summaries: which `throw` expressions a function can reach, under which entry
conditions, and whether a call site excludes them (negated throw condition dominates the
call after parameter -> argument substitution).  There is no `try` in the library; a `try`
anywhere makes the summary refuse (AnalysisBroken) so that the rule is re-examined."""
from .entail import contradicts
from .expr import Ctx, guard_facts, key_subst
from .facts import AnalysisBroken


class ThrowSite:
    def __init__(self, fn, node, alts, via=None):
        self.fn = fn
        self.node = node
        self.alts = alts        # list of frozenset(facts): one per CFG edge entering the throwing block
        self.via = via or []    # call chain (list of (fn, call node)) for transitive throws

    def where(self):
        return "%s (%s)" % (self.fn.loc(self.node), self.fn.qn)


class Throws:
    def __init__(self, db):
        self.db = db
        self._ctx = {}
        self._facts = {}
        self._direct = {}
        self._summary = {}
        from .effects import Effects
        self.effects = Effects(db)

    def ctx(self, fn):
        c = self._ctx.get(fn.mangled)
        if c is None:
            c = self._ctx[fn.mangled] = Ctx(fn, self.db)
        return c

    def facts(self, fn):
        a = self._facts.get(fn.mangled)
        if a is None:
            a = self._facts[fn.mangled] = guard_facts(fn, self.ctx(fn), effects=self.effects)
        return a

    def entry_alternatives(self, fn, pos):
        """facts per incoming edge of the block holding `pos` (walking up through
        unconditional single predecessors); [] if the block is unconditionally reached."""
        cfg = fn.cfg
        at = self.facts(fn)
        ctx = self.ctx(fn)
        b = pos[0]
        seen = set()
        while True:
            preds = [p for p in cfg.blocks[b].preds if p in cfg.reachable()]
            if len(preds) == 1 and len([s for s in cfg.blocks[preds[0]].succs if s is not None]) == 1 and preds[0] not in seen:
                seen.add(b)
                b = preds[0]
                continue
            break
        alts = []
        for p in [q for q in cfg.blocks[b].preds if q in cfg.reachable()]:
            pb = cfg.blocks[p]
            for k, s in enumerate(pb.succs):
                if s != b:
                    continue
                st = set(at.get((p, len(pb.elems)), frozenset()))
                lab = cfg.edge_label(p, k)
                if lab is not None:
                    # a throw under !(a && b) / (a || b) evaluated as one value: one alternative per disjunct
                    for conj in ctx.cmp_dnf(lab[0], lab[1]):
                        alts.append(frozenset(st | set(conj)))
                else:
                    alts.append(frozenset(st))
        if not alts:
            alts = [frozenset(at.get(pos, frozenset()))]
        return alts

    def direct(self, fn):
        r = self._direct.get(fn.mangled)
        if r is not None:
            return r
        r = []
        if fn.d.get("cfg") is None:
            self._direct[fn.mangled] = r
            return r
        for j, n in fn.walk(fn.body):
            if n["k"] == "try":
                raise AnalysisBroken("try block in %s: exception summaries must be re-examined" % fn.qn)
        for j, n in fn.walk(fn.body):
            if n["k"] == "throw":
                ps = fn.cfg.pos(j)
                if not ps:
                    continue        # unreachable
                r.append(ThrowSite(fn, j, self.entry_alternatives(fn, ps[0])))
        self._direct[fn.mangled] = r
        return r

    def subst_for_call(self, caller, callnode, callee):
        """map callee param keys / this -> caller keys."""
        cctx = self.ctx(caller)
        n = caller.nodes[callnode]
        args = list(n["args"])
        objkey = None
        if n["k"] == "call" and n["ck"] == "method":
            objkey = cctx.key(n["obj"]) if n.get("obj") is not None else None
            if objkey is not None and n.get("arrow"):
                objkey = ("deref", objkey)
        elif n["k"] == "call" and n["ck"] == "op" and n.get("ismember"):
            objkey = cctx.key(args[0])
            args = args[1:]
        pmap = {}
        for p, a in zip(callee.params, args):
            pmap[p["d"]] = cctx.key(a)

        def f(k):
            if k[0] == "param" and k[1] in pmap:
                return pmap[k[1]]
            if k[0] == "field" and k[2] == ("this",) and objkey is not None:
                if objkey[0] == "deref":
                    return ("field", k[1], objkey[1])
                return ("field", k[1], objkey)
            return None
        return f

    @staticmethod
    def canon_fact(fact):
        """one spelling for `the entry of map m under key k` and for member access through a dereferenced pointer:
        m.at(k), m.find(k)->second, (*m.find(k)).second  ->  m[k];   (*p).f  ->  p->f.
        (Only used to compare a callee's throw condition with the caller's guards: there the entry exists on both sides.)"""
        def f(k):
            if k[0] == "mcall" and len(k) == 4 and k[1].split("::")[-1] == "at" and k[1].startswith("std::"):
                return ("op", "[]", k[2], k[3])
            if k[0] == "field" and len(k) == 3 and isinstance(k[2], tuple):
                b = k[2]
                if b[0] in ("un", "op") and len(b) == 3 and b[1] in ("*", "->"):
                    inner = b[2]
                    if k[1].endswith("::second") and inner[0] == "mcall" and len(inner) == 4 and inner[1].split("::")[-1] == "find" and inner[1].startswith("std::"):
                        return ("op", "[]", inner[2], inner[3])
                    if b[1] == "*" or b[0] == "un":
                        return ("field", k[1], inner)
                if b[0] == "deref" and len(b) == 2:
                    return ("field", k[1], b[1])
            return None
        return tuple(key_subst(x, f) if isinstance(x, tuple) else x for x in fact)

    def undischarged(self, caller, callnode, callee, caller_facts, depth=0, exclude=(), outer=()):
        """Throw sites of `callee` (transitively, library functions only) that the facts
        holding at the call do not exclude.  `caller_facts` are in the terms of the outermost
        caller; `outer` is the chain of substitutions leading from `caller`'s terms to them.
        Returns list of (ThrowSite, alt)."""
        out = []
        if depth > 6:
            return out
        chain = (self.subst_for_call(caller, callnode, callee),) + tuple(outer)
        caller_facts = {self.canon_fact(f) for f in caller_facts}

        def tr(fact):
            for sub in chain:
                fact = tuple(key_subst(x, sub) if isinstance(x, tuple) else x for x in fact)
            return fact

        for ts in self.direct(callee):
            for alt in ts.alts:
                alt_s = [self.canon_fact(tr(f)) for f in alt]
                if any(contradicts(caller_facts, g) for g in alt_s):
                    continue
                out.append((ts, alt_s))
                break
        # transitive: calls inside callee
        at = self.facts(callee)
        for j, n in callee.walk(callee.body):
            if n["k"] not in ("call", "construct"):
                continue
            cf = self.db.callee_fn(n)
            if cf is None or cf.mangled == callee.mangled or cf.mangled in exclude:
                continue
            if not self.may_throw(cf):
                continue
            ps = callee.cfg.pos(j)
            if not ps:
                continue
            inner = {tr(f) for f in at.get(ps[0], frozenset())}
            for ts, alt in self.undischarged(callee, j, cf, set(caller_facts) | inner, depth + 1, exclude, chain):
                out.append((ts, alt))
        return out

    def may_throw(self, fn, _stack=None):
        m = fn.mangled
        if m in self._summary:
            return self._summary[m]
        _stack = _stack or set()
        if m in _stack:
            return False
        _stack.add(m)
        r = bool(self.direct(fn))
        if not r and fn.body is not None and fn.body >= 0:
            for j, n in fn.walk(fn.body):
                if n["k"] in ("call", "construct"):
                    cf = self.db.callee_fn(n)
                    if cf is not None and cf.mangled != m and self.may_throw(cf, _stack):
                        r = True
                        break
        _stack.discard(m)
        self._summary[m] = r
        return r
