"""Small repository-independent value-level lints that are decidable from types alone and are armed only inside the
functions a property anchors (they are reported under that property as a necessary condition of its mechanism)."""
from .facts import strip_targs

INTEGRAL = ("int", "long", "unsigned int", "unsigned long", "short", "unsigned short", "char", "bool", "long long", "unsigned long long")
FOLDS = ("std::accumulate", "std::inner_product", "std::reduce", "std::transform_reduce")


def narrowing_folds(fn):
    """std::accumulate & co. whose accumulator (type of the init argument) is integral while the elements are
    floating-point or complex: every partial sum is truncated.  Returns [(node, elem_type, init_type)]."""
    out = []
    if fn.body is None or fn.body < 0:
        return out
    for j, n in fn.walk(fn.body):
        if n["k"] != "call" or strip_targs(n.get("cname") or "") not in FOLDS:
            continue
        args = n["args"]
        if len(args) < 3:
            continue
        cn = strip_targs(n.get("cname") or "")
        init = args[3] if cn == "std::inner_product" and len(args) >= 4 else args[2]
        it_t = fn.nodes[args[0]].get("t", "")
        init_t = fn.nodes[init].get("t", "")
        elem_fp = any(x in it_t for x in ("double", "float", "complex"))
        if elem_fp and init_t in INTEGRAL:
            out.append((j, it_t, init_t))
    return out
