"""Tiny decision procedure over the fact language of expr.Ctx.cmp_fact:
   equalities (congruence by substitution of class representatives), order facts on
   identical operand pairs, truthiness facts.  Sound for *refuting* (contradiction) only:
   `contradicts(F, g)` True means F and g cannot hold together."""
from .expr import key_subst

SIGNS = {"<": {-1}, "<=": {-1, 0}, "==": {0}, "!=": {-1, 1}}


def _classes(facts):
    parent = {}

    def find(x):
        while parent.get(x, x) != x:
            parent[x] = parent.get(parent[x], parent[x])
            x = parent[x]
        return x

    for f in facts:
        if f[0] == "==":
            a, b = find(f[1]), find(f[2])
            if a != b:
                # representative: literals first, then the shorter rendering
                ka = (0 if a[0] == "lit" else 1, len(repr(a)), repr(a))
                kb = (0 if b[0] == "lit" else 1, len(repr(b)), repr(b))
                if ka <= kb:
                    parent[b] = a
                else:
                    parent[a] = b
    return parent, find


WRAPPER_FIELDS = ("Pomerol::BlockNumber::number",)


def strip_value_conv(k):
    """conversions that do not change an index value (BlockNumber <-> integer, casts, 1-argument conversion constructors)"""
    for _ in range(6):
        if not isinstance(k, tuple):
            return k
        if k[0] == "cast" and len(k) == 3:
            k = k[2]
        elif k[0] == "ctor" and len(k) == 3:
            k = k[2]
        elif k[0] == "mcall" and len(k) == 3 and "operator " in k[1]:
            k = k[2]
        elif k[0] == "field" and len(k) == 3 and k[1] in WRAPPER_FIELDS:
            k = k[2]          # the only data member of an index wrapper: equal members <=> equal wrappers
        else:
            break
    return k


def derived_equalities(facts):
    """facts plus  a == b  for every pair  a <= b, b <= a  (an equality decided by two non-strict comparisons, e.g. the
    third branch of a three-way  <  /  >  / else  split), with value-preserving conversions stripped on both sides."""
    facts = set(facts)
    le = {(strip_value_conv(f[1]), strip_value_conv(f[2])) for f in facts if f[0] == "<="}
    out = set(facts)
    for a, b in le:
        if (b, a) in le and a != b:
            x, y = (a, b) if repr(a) <= repr(b) else (b, a)
            out.add(("==", x, y))
    for f in list(out):
        if f[0] == "==":
            a, b = strip_value_conv(f[1]), strip_value_conv(f[2])
            if (a, b) != (f[1], f[2]) and a != b:
                out.add(("==",) + ((a, b) if repr(a) <= repr(b) else (b, a)))
    return out


def canon(facts):
    """rewrite every fact modulo the equalities among them."""
    parent, find = _classes(facts)
    if not parent:
        return set(facts), (lambda k: k)

    def rw(k):
        for _ in range(4):
            k2 = key_subst(k, lambda x: find(x) if x in parent else None)
            if k2 == k:
                break
            k = k2
        return k

    out = set()
    for f in facts:
        if f[0] in SIGNS:
            out.add((f[0], rw(f[1]), rw(f[2])))
        else:
            out.add((f[0], rw(f[1])))
    return out, rw


def _lit(k):
    return k[1] if isinstance(k, tuple) and k and k[0] == "lit" and isinstance(k[1], (int, float)) else None


def _signs(f, L, R):
    """allowed signs of (L-R) given fact f, or None if f is about another pair."""
    if f[0] not in SIGNS:
        return None
    if f[1] == L and f[2] == R:
        return SIGNS[f[0]]
    if f[1] == R and f[2] == L:
        return {-s for s in SIGNS[f[0]]}
    return None


def contradicts(facts, g):
    """facts: iterable of facts that hold; g: a fact.  True iff facts ∧ g is unsatisfiable
    by this procedure."""
    cf, rw = canon(list(facts))
    if g[0] in SIGNS:
        L, R = rw(g[1]), rw(g[2])
        allowed = set(SIGNS[g[0]])
        if L == R:
            allowed &= {0}
        la, lb = _lit(L), _lit(R)
        if la is not None and lb is not None:
            allowed &= {(la > lb) - (la < lb)}
        for f in cf:
            s = _signs(f, L, R)
            if s is not None:
                allowed &= s
            # bounds against literals:  f: X < c1 , g: c2 <= X with c2 >= c1 etc.
        if not allowed:
            return True
        # literal bound reasoning on a shared non-literal operand
        if _lit_bounds(cf, (g[0], L, R)):
            return True
        if _difference_unsat(list(cf) + [(g[0], L, R)]):
            return True
        return _opposite_forms_unsat(list(cf), (g[0], L, R))
    else:
        K = rw(g[1])
        other = "false" if g[0] == "true" else "true"
        for f in cf:
            if f[0] == other and f[1] == K:
                return True
        return False


def _interval(facts, X):
    lo, hi = float("-inf"), float("inf")   # closed bounds; strictness via +-0.5 for integers is avoided: keep flags
    lo_s = hi_s = False
    eq = None
    for f in facts:
        if f[0] not in SIGNS:
            continue
        op, A, B = f
        if A == X and _lit(B) is not None:
            c = _lit(B)
            if op == "<" and (c < hi or (c == hi and not hi_s)):
                hi, hi_s = c, True
            elif op == "<=" and c < hi:
                hi, hi_s = c, False
            elif op == "==":
                eq = c
        elif B == X and _lit(A) is not None:
            c = _lit(A)
            if op == "<" and (c > lo or (c == lo and not lo_s)):
                lo, lo_s = c, True
            elif op == "<=" and c > lo:
                lo, lo_s = c, False
            elif op == "==":
                eq = c
    if eq is not None:
        lo, hi, lo_s, hi_s = eq, eq, False, False
    return lo, lo_s, hi, hi_s


def _lit_bounds(cf, g):
    op, L, R = g
    for X, other, side in ((L, R, "L"), (R, L, "R")):
        c = _lit(other)
        if c is None or _lit(X) is not None:
            continue
        lo, lo_s, hi, hi_s = _interval(cf, X)
        # g constrains X against c
        if side == "L":       # X op c
            if op == "<" and (lo > c or (lo == c)):
                return True
            if op == "<=" and (lo > c or (lo == c and lo_s)):
                return True
            if op == "==" and (c < lo or c > hi or (c == lo and lo_s) or (c == hi and hi_s)):
                return True
        else:                 # c op X
            if op == "<" and (hi < c or hi == c):
                return True
            if op == "<=" and (hi < c or (hi == c and hi_s)):
                return True
            if op == "==" and (c < lo or c > hi or (c == lo and lo_s) or (c == hi and hi_s)):
                return True
    return False


def entails(facts, g):
    """facts ⊨ g  iff  facts ∧ ¬g unsatisfiable."""
    from .expr import NEG
    if g[0] in SIGNS:
        op = NEG[g[0]]
        L, R = g[1], g[2]
        if op in (">", ">="):
            op = {">": "<", ">=": "<="}[op]
            L, R = R, L
        return contradicts(facts, (op, L, R))
    return contradicts(facts, ("false" if g[0] == "true" else "true", g[1]))


# ---------------------------------------------------------------------------
# difference-bound reasoning:  x - y (<|<=) c  over linear forms with unit coefficients

def _linear(k):
    """key -> (dict atom->coeff, const) or None"""
    if not isinstance(k, tuple):
        return None
    if k[0] == "lit" and isinstance(k[1], (int, float)) and not isinstance(k[1], bool):
        return {}, k[1]
    if k[0] == "op" and len(k) == 4 and k[1] in ("+", "-"):
        a, b = _linear(k[2]), _linear(k[3])
        if a is None or b is None:
            return None
        co = dict(a[0])
        sgn = 1 if k[1] == "+" else -1
        for x, c in b[0].items():
            co[x] = co.get(x, 0) + sgn * c
        return {x: c for x, c in co.items() if c != 0}, a[1] + sgn * b[1]
    if k[0] == "op" and len(k) == 4 and k[1] == "*":
        a, b = _linear(k[2]), _linear(k[3])
        if a is not None and b is not None:
            if not a[0]:
                return {x: c * a[1] for x, c in b[0].items() if c * a[1] != 0}, a[1] * b[1]
            if not b[0]:
                return {x: c * b[1] for x, c in a[0].items() if c * b[1] != 0}, a[1] * b[1]
    return {k: 1}, 0


def _difference_unsat(facts):
    """facts: (op, L, R) with op in < <= == ; returns True iff the difference constraints have a negative cycle."""
    edges = []      # (u, v, c, strict): u - v <= c  (strict: <)
    ZERO = ("zero",)
    for f in facts:
        if f[0] not in ("<", "<=", "=="):
            continue
        a, b = _linear(f[1]), _linear(f[2])
        if a is None or b is None:
            continue
        co = dict(a[0])
        for x, c in b[0].items():
            co[x] = co.get(x, 0) - c
        co = {x: c for x, c in co.items() if c != 0}
        k = b[1] - a[1]          # sum(co) (op) k
        pos = [x for x, c in co.items() if c == 1]
        neg = [x for x, c in co.items() if c == -1]
        if len(pos) + len(neg) != len(co) or len(pos) > 1 or len(neg) > 1:
            continue
        u = pos[0] if pos else ZERO
        v = neg[0] if neg else ZERO
        if u == v:
            continue
        if f[0] == "<":
            edges.append((u, v, k, True))
        elif f[0] == "<=":
            edges.append((u, v, k, False))
        else:
            edges.append((u, v, k, False))
            edges.append((v, u, -k, False))
    if not edges:
        return False
    nodes = set()
    for u, v, c, s in edges:
        nodes.add(u)
        nodes.add(v)
    # Bellman-Ford on the constraint graph (edge v -> u with weight c): negative cycle <=> unsat
    dist = {n: (0, False) for n in nodes}

    def less(a, b):
        return a[0] < b[0] or (a[0] == b[0] and a[1] and not b[1])

    for it in range(len(nodes) + 1):
        changed = False
        for u, v, c, s in edges:
            cand = (dist[v][0] + c, dist[v][1] or s)
            if less(cand, dist[u]):
                dist[u] = cand
                changed = True
        if not changed:
            return False
    return True


def _form(f):
    """(op, L, R) with op in < <= ==  ->  list of (coeff dict, const, strict):  sum(coeff*atom) (<|<=) const"""
    if f[0] not in ("<", "<=", "=="):
        return []
    a, b = _linear(f[1]), _linear(f[2])
    if a is None or b is None:
        return []
    co = dict(a[0])
    for x, c in b[0].items():
        co[x] = co.get(x, 0) - c
    co = {x: c for x, c in co.items() if c != 0}
    k = b[1] - a[1]
    if f[0] == "==":
        return [(co, k, False), ({x: -c for x, c in co.items()}, -k, False)]
    return [(co, k, f[0] == "<")]


def _opposite_forms_unsat(facts, g):
    """F: L <= kF  and  G: -L*t <= kG (t>0)  =>  unsat iff kF*t + kG < 0 (or == 0 with a strict side)."""
    gf = _form(g)
    for (cg, kg, sg) in gf:
        if not cg:
            continue
        for f in facts:
            for (cf_, kf, sf) in _form(f):
                if set(cf_) != set(cg):
                    continue
                x0 = next(iter(cg))
                if cf_[x0] == 0:
                    continue
                t = -cg[x0] / cf_[x0]
                if t <= 0:
                    continue
                if all(abs(cf_[x] * t + cg[x]) < 1e-12 for x in cg):
                    tot = kf * t + kg
                    if tot < 0 or (tot == 0 and (sf or sg)):
                        return True
    return False
