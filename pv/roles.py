"""Index-space (role) typing (engine `roles`, F5).

Every integer index used with the eigen-system of a block lives in one of two spaces:
  'eigen'  number of an eigenstate of the block   (eigenvalues, weights, COLUMNS of the eigenvector matrix)
  'fock'   position of a Fock state inside the block (StatesContainer[block][.], ROWS of the eigenvector matrix,
           components of one eigenvector)
The orientation (Fock, eigen) of HamiltonianPart::H after compute() is fixed where it is produced
(H = Solver.eigenvectors(): eigenvectors are columns) and is checked by C03.
A variable used in both roles inside one function is an index-space confusion: the code then reads U^T instead of U
(or weights by Fock position).  The rule is independent of how the loops are written."""
from .expr import Ctx
from .facts import strip_targs

HP = "Pomerol::HamiltonianPart::"
DMP = "Pomerol::DensityMatrixPart::"
SC = "Pomerol::StatesClassification::"


def _is_eigvec_matrix(k):
    return isinstance(k, tuple) and ((k[0] == "field" and k[1] == HP + "H") or (k[0] == "mcall" and k[1] == HP + "getMatrix"))


def _is_eigen_vector(k):
    """a vector indexed by eigenstate number"""
    return isinstance(k, tuple) and ((k[0] == "field" and k[1] in (HP + "Eigenvalues", DMP + "weights")) or
                                    (k[0] == "mcall" and k[1] in (HP + "getEigenValues",)))


def _is_fock_vector(k):
    """one eigenvector (components indexed by Fock position) / the list of Fock states of a block"""
    if not isinstance(k, tuple):
        return False
    if k[0] == "mcall" and k[1] in (HP + "getEigenState", SC + "getFockStates"):
        return True
    if k[0] == "mcall" and k[1].endswith("::col") and _is_eigvec_matrix(k[2]):
        return True
    if k[0] == "op" and k[1] == "[]" and k[2][0] == "field" and k[2][1] == SC + "StatesContainer":
        return True
    return False


def _is_eigen_row(k):
    """a row of the eigenvector matrix: components indexed by eigenstate number"""
    return isinstance(k, tuple) and k[0] == "mcall" and k[1].endswith("::row") and _is_eigvec_matrix(k[2])


# before diagonalisation HamiltonianPart::H holds the Hamiltonian in the Fock basis: both indices are Fock positions
PRE_DIAGONALISATION = (HP + "prepare",)


def uses(fn, ctx):
    """list of (arg node, role, description) for index arguments in fn"""
    out = []
    col_role = "fock" if fn.name in PRE_DIAGONALISATION else "eigen"
    if fn.body is None or fn.body < 0:
        return out
    for j, n in fn.walk(fn.body):
        if n["k"] != "call":
            continue
        cn = strip_targs(n.get("cname") or "")
        short = cn.split("::")[-1]
        args = n["args"]
        if n["ck"] == "method":
            ok_ = ctx.key(n["obj"]) if n.get("obj") is not None else None
            if cn in (HP + "getEigenValue", HP + "getEigenState", DMP + "getWeight") and args:
                out.append((args[0], "eigen", cn.split("::")[-1]))
            elif cn == HP + "getMatrixElement" and len(args) == 2:
                out.append((args[0], "fock", "getMatrixElement row"))
                out.append((args[1], "eigen", "getMatrixElement column"))
            elif cn == SC + "getFockState" and len(args) == 2:
                out.append((args[1], "fock", "getFockState position"))
            elif short == "col" and ok_ is not None and _is_eigvec_matrix(ok_) and args:
                out.append((args[0], "eigen", "column of the eigenvector matrix"))
            elif short == "row" and ok_ is not None and _is_eigvec_matrix(ok_) and args:
                out.append((args[0], "fock", "row of the eigenvector matrix"))
            elif short in ("coeff", "coeffRef") and ok_ is not None:
                if _is_eigvec_matrix(ok_) and len(args) == 2:
                    out.append((args[0], "fock", "eigenvector matrix row"))
                    out.append((args[1], col_role, "eigenvector matrix column"))
                elif _is_eigen_vector(ok_) and args:
                    out.append((args[0], "eigen", "eigen-indexed vector"))
                elif _is_fock_vector(ok_) and args:
                    out.append((args[0], "fock", "component of an eigenvector"))
        elif n["ck"] == "op" and n.get("op") in ("()", "[]") and args:
            ok_ = ctx.key(args[0])
            rest = args[1:]
            if _is_eigvec_matrix(ok_) and len(rest) == 2:
                out.append((rest[0], "fock", "eigenvector matrix row"))
                out.append((rest[1], col_role, "eigenvector matrix column"))
            elif _is_eigen_vector(ok_) and len(rest) == 1:
                out.append((rest[0], "eigen", "weights / eigenvalues"))
            elif _is_fock_vector(ok_) and len(rest) == 1:
                out.append((rest[0], "fock", "component of an eigenvector / Fock state list"))
            elif _is_eigen_row(ok_) and len(rest) == 1:
                out.append((rest[0], "eigen", "component of a row of the eigenvector matrix"))
    return out


def conflicts(fn, db):
    """variables of fn used both as an eigenstate number and as a Fock position.
    Returns (list of (decl name, [(role, description, node)]), number of typed uses)."""
    ctx = Ctx(fn, db)
    by = {}
    n_uses = 0
    for node, role, desc in uses(fn, ctx):
        if isinstance(node, tuple) and node[0] == "decl":
            by.setdefault((node[1], node[2]), []).append((role, desc, ctx.decls[node[1]].get("declnode", fn.body)))
            n_uses += 1
            continue
        m = fn.nodes[node]
        # strip value-preserving casts
        while m["k"] == "cast":
            node = m["sub"]
            m = fn.nodes[node]
        if m["k"] == "ref" and m["dk"] in ("local", "param"):
            by.setdefault((m["d"], m["n"]), []).append((role, desc, node))
            n_uses += 1
    bad = []
    for (d, nm), lst in by.items():
        if len({r for r, _, _ in lst}) > 1:
            bad.append((nm, lst))
    return bad, n_uses
